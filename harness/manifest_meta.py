"""Prose for MANIFEST.json (levels, notes, not-applicable reasons)."""

HOOKS = {
    "guard": "cfg(kani)",
    "enable": "set automatically (and only) by kani-compiler when the harness crates under /verif/harness are built with `cargo kani`; cargo build/test never set it",
    "baseline_off_cmd": "cd /repo && (cargo nextest run --workspace --no-fail-fast --test-threads 8 --offline || cargo test --workspace --no-fail-fast --offline)",
    "source_commits": ["b6c0ba7", "f428fc8"],
    "add_only": True,
}

NOTES = ("All checks are bounded symbolic execution of /repo's compiled code with Kani (CBMC + CaDiCaL); bounds and what lies "
         "outside them are in each evidence file and in DESIGN.md. Exit 2 = inconclusive (never a pass). "
         "fix: commits in /repo (3471e8e C20, 477dd88 C07) are listed in known-findings.txt. "
         "15 of the 20 properties are not applicable to this technique on this code base; the measured reasons are in DESIGN.md section 5.")

ASYNC = ("decided only by the job-task / worker `async` state machines; Kani encodes coroutine state as a union, CBMC loses every "
         "constant stored across an `.await`, and the real future did not finish symbolic execution in 30 min even for one concrete "
         "control (one `select!` over three receivers alone: 8-11M SAT variables). Measured in DESIGN.md section 5; no straight-line seam exists")

NOT_APPLICABLE = {
    "C01": "event path = lib::action::worker::throttle_collect + worker (async, priority channel, tokio timeout): " + ASYNC,
    "C02": "debounce window = the same async throttle_collect loop over virtual time: " + ASYNC,
    "C03": "the verdict is computed by ignore::gitignore (globset, regex-automata) and a radix trie keyed by Display-formatted heap strings; one concrete `Path::components` comparison already costs 25M SAT variables (C17 probe), glob compilation is far beyond that; replacing the engine by a model would verify the model, not the code",
    "C04": "sequencing of spawns is the job task loop (supervisor::job::task, async): " + ASYNC + "; a state-object-level harness over CommandState::{spawn,reset} alone also ran out of memory (4.7M symex steps for 4 concrete paths: Box<dyn TokioChildWrapper>/io::Error drop-glue fan-out)",
    "C05": "the policy lives in a closure inside cli::config::make_config; driving it needs clap Args, State (temp files, sockets) and several cooperating tokio tasks; async and far outside Kani's reach",
    "C06": "graceful stop = job task loop + PriorityReceiver::recv timer branch (async select!): " + ASYNC,
    "C08": "quit path = action worker + LateJoinSet + job tasks, all async: " + ASYNC,
    "C09": "lifecycle = the job task loop compared against a reference model: " + ASYNC,
    "C10": "ordering is decided by PriorityReceiver::recv (async fn with tokio select!): one recv from concrete queues costs 8M SAT variables / 100 s, with a symbolic select! start 11M / 420 s, a 16-scenario harness did not finish in 30 min and the 4-scenario select harness ran out of memory at 7.1M symex steps",
    "C11": "every verdict goes through the glob engine (ignore::gitignore::Gitignore); no bounded encoding of the real matcher is within reach (see C03)",
    "C12": "needs clap parsing, filesystem discovery (tokio::fs, gix-config), environment variables and the glob engine; the flag logic is inline in async fns",
    "C13": "watcher registration is the async fs worker over notify + HashSet<WatchedPath> (hash maps over symbolic keys: one insert > 15 min) and tokio::sync::Notify: " + ASYNC,
    "C14": "a directory walk over tokio::fs + gix-config + the glob engine; nothing to encode without the filesystem",
    "C15": "error delivery = async error_hook / worker loops over RuntimeError (io::Error, notify::Error, Box<dyn>) and real tokio mpsc (cooperative-budget thread-local: executing it never finished): " + ASYNC,
    "C17": "paths::common_prefix / summarise_events_to_env are built on Path::components and HashMap/HashSet: a single fully concrete common_prefix([\"/a/b\",\"/a/c\"]) costs 25M SAT variables / 109M clauses / 274 s; any symbolic input is out of reach, hash containers over symbolic keys likewise",
}

CHECKS = {
    "C07": {
        "text": "Bounded, solver-decided: 3 waiter tasks polling clones of one flag / clones of one ticket / two tickets of one job in every interleaving of 3 poll slots (re-polls included), then the control's flag or the job-gone flag is raised; every parked waiter must have been woken and every clone resolves. This is the wake-up half of the property (where the genuine lost-wake-up defect was found and fixed); the task-level half (which controls raise which flag, graceful-stop timing, failures) is not covered.",
        "design_ref": "4/C07",
        "note": "Trusted: Kani/CBMC/CaDiCaL; models/tokio waker identities and poll helper; hook watchexec_supervisor::verif (cfg(kani)). Sequential execution: atomics/Mutex are run without thread interleavings. Not covered: supervisor::job::task (async, out of reach) - so a mutation that forgets to raise a control's flag in task.rs is NOT detected.",
    },
    "C16": {
        "text": "Bounded, solver-decided at the serde data-model level: Tag <-> SerdeTag identity for every non-fs tag kind over full integer ranges; documented field placement; all 41 filesystem event kinds through their wire names (format half with real core::fmt + parse half, sharing one table); totality of the wire->Tag conversion over every kind x field-presence mask x integer payload (same kind or Unknown, NonZero invariants); Signal <-> SerdeSignal both ways; plus the JSON shape (field names, order, omitted fields, every unit-variant spelling) captured from the real derive(Serialize) with a recording Serializer, and 16 concrete JSON tag objects (well-formed in any field order / with unknown fields; degraded: missing, foreign, contradictory fields) driven through the real derive(Deserialize).",
        "design_ref": "4/C16",
        "note": "Trusted: Kani/CBMC/CaDiCaL; hooks watchexec_events::verif / watchexec_signals::verif (cfg(kani)). Not covered: serde_json itself (tokenising, escaping, number printing; the harnesses stand in for it), Event-level vectors and metadata maps (HashMap), non-UTF-8 paths, parse scenarios beyond the 16 objects. In the quick tier 2 of the 6 format-half ranges run (14 kinds); all 41 in thorough.",
    },
    "C18": {
        "text": "Bounded, solver-decided for the no-shell branch: Command::to_spawnable with Program::Exec hands the process layer exactly [program, args...] byte for byte, for 0..=3 arguments of 0..=2 symbolic ASCII bytes (every metacharacter/whitespace/quote/control byte) plus a multi-byte argument, and exactly the wrappers {KillOnDrop} + {Session | Group} + {ResetSigmask} for all 8 option combinations.",
        "design_ref": "4/C18",
        "note": "Trusted: Kani/CBMC/CaDiCaL; models/tokio process::Command and models/process-wrap (recorders). Not covered: the Program::Shell branch (measured intractable: 31M variables for one concrete scenario), exec fidelity below tokio::process::Command, spawn-hook env/cwd, CLI argument interpretation, strings longer than 2 bytes.",
    },
    "C19": {
        "text": "Solver-decided over full ranges: Signal::from(i32) vs to_nix for all 2^32 numbers, POSIX numbers of the first-class signals, to_nix/from_nix round trip for every Signal value, ProcessEnd::from(ExitStatus) for all 2^32 raw wait statuses (exit code, terminating signal with/without core bit, stopped, continued, never the unreachable!), ProcessEnd -> ExitStatus -> ProcessEnd for Success / ExitError(1..=255) / ExitSignal(valid).",
        "design_ref": "4/C19",
        "note": "Trusted: Kani/CBMC/CaDiCaL; std's unix wait-status decoding as compiled; Linux x86_64 signal numbering. Not covered: name parsing and Display (Signal::from_str on one concrete 3-letter name did not finish in 25 min: core::fmt + allocation + 30-way string match), --map-signal parsing, Windows branches.",
    },
    "C20": {
        "text": "Solver-decided over the complete ProjectType enumeration (discriminant symbolic, bounded by mem::variant_count so new variants are covered): is_vcs xor is_soft. Complete for the classification sentence of the property; the origin-walk sentences are not covered.",
        "design_ref": "4/C20",
        "note": "Trusted: Kani/CBMC/CaDiCaL, kani-compiler's MIR of project-origins. Not covered: origins()/types() (async tokio::fs walks over unconstructible std::fs::FileType).",
    },
}
