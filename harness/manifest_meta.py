"""Prose for MANIFEST.json (levels, notes, not-applicable reasons)."""

HOOKS = {
    "guard": "cfg(kani)",
    "enable": "set automatically by kani-compiler when the harness crates under /verif/harness are built with `cargo kani`; never set by cargo build/test",
    "baseline_off_cmd": "cd /repo && cargo nextest run --workspace --no-fail-fast --test-threads 8 --offline || cargo test --workspace --no-fail-fast --offline",
    "source_commits": [],
    "add_only": True,
}

NOTES = ("All checks are bounded symbolic execution with Kani; bounds and what lies outside them are in each evidence file "
         "and in DESIGN.md. Exit 2 = inconclusive (never a pass). fix: commits in /repo are listed in known-findings.txt.")

PENDING = "not yet built in this round (see DESIGN.md section 6 for the order of work); will be claimed only once a Kani harness decides it"

NOT_APPLICABLE = {
    "C01": PENDING, "C02": PENDING, "C04": PENDING, "C06": PENDING, "C07": PENDING, "C08": PENDING, "C09": PENDING,
    "C10": PENDING, "C13": PENDING, "C15": PENDING, "C16": PENDING, "C17": PENDING, "C18": PENDING, "C19": PENDING,
    "C03": "the verdict is computed by ignore::gitignore (globset, regex-automata) and a radix trie keyed by Display-formatted heap strings; none of that terminates under CBMC in budget and replacing it by a model would verify the model, not the code (DESIGN 4/C03)",
    "C05": "the policy lives in a closure inside cli::config::make_config; driving it needs clap Args, State (temp files, sockets) and several cooperating tokio tasks; the cli crate is outside Kani's compile-and-symex reach (DESIGN 4/C05)",
    "C11": "every verdict goes through the glob engine (ignore::gitignore::Gitignore); no bounded encoding of the real matcher is within reach (DESIGN 4/C11)",
    "C12": "needs clap parsing, filesystem discovery (tokio::fs, gix-config), environment variables and the glob engine; flag logic is inline in async fns that cannot be reached without them (DESIGN 4/C12)",
    "C14": "a directory walk over tokio::fs + gix-config + the glob engine; nothing to encode without the filesystem (DESIGN 4/C14)",
}

CHECKS = {
    "C20": {
        "text": "Solver-decided over the complete ProjectType enumeration (discriminant symbolic, bounded by mem::variant_count so new variants are covered): is_vcs xor is_soft. Complete for the classification sentence of the property; the origin-walk sentences are not covered.",
        "design_ref": "4/C20",
        "note": "Trusted: Kani/CBMC/CaDiCaL, kani-compiler's MIR of project-origins. Not covered: origins()/types() (async tokio::fs walks over unconstructible std::fs::FileType) - stated as outside the claim.",
    },
}
