"""Prose for MANIFEST.json (levels, notes, not-applicable reasons)."""

HOOKS = {
    "guard": "cfg(kani)",
    "enable": "set automatically (and only) by kani-compiler when the harness crates under /verif/harness are built with `cargo kani`; cargo build/test never set it",
    "baseline_off_cmd": "cd /repo && (cargo nextest run --workspace --no-fail-fast --test-threads 8 --offline || cargo test --workspace --no-fail-fast --offline)",
    "source_commits": ["b6c0ba7", "f428fc8", "cd0cc3b", "9f13681", "1235390", "5145c3a"],
    "add_only": True,
}

NOTES = ("All checks are bounded symbolic execution of /repo's compiled code with Kani (CBMC + CaDiCaL); bounds and what lies "
         "outside them are in each evidence file and in DESIGN.md. Exit 2 = inconclusive (never a pass). "
         "fix: commits in /repo (3471e8e C20, 477dd88 C07, 978ab72 C19, 12550b0 C10) are listed in known-findings.txt. "
         "12 properties are claimed; for C02, C05, C12 and C13 only the synchronous seam of the property is decided, for C06, C10 and C15 the seam plus one real async function each "
         "(PriorityReceiver::recv through its select!, the error_hook task loop) polled by the harness over the tokio model (stated in each level_claimed.text); "
         "the job task and the event workers are out of reach (measured, DESIGN.md section 5). 8 properties are not applicable.")

ASYNC = ("decided only by the job-task / worker `async` state machines; Kani encodes coroutine state as a union, CBMC loses every "
         "constant stored across an `.await`, and the real future did not finish symbolic execution in 30 min even for one concrete "
         "control (one `select!` over three receivers alone: 8-11M SAT variables). Measured in DESIGN.md section 5; no straight-line seam exists")

NOT_APPLICABLE = {
    "C01": "event path = lib::action::worker::throttle_collect + worker (async, priority channel, tokio timeout). Attempted in session 3 with a full environment (tokio-full, async-priority-channel and tokio-stream models under /verif/models, harness/throttle): ONE poll of the real throttle_collect future on an empty open channel did not finish symbolic execution in 15 min, the one-event scenario not in 21 min, with every cut applied (no-op tracing, shrunk model arrays, unwind 3, ManuallyDrop on the future, fieldless error, field sensitivity 64 and 1024); only the closed-channel early return finishes (33 s), which decides nothing about delivery. Cause: the Timeout<Recv> future lives inside the coroutine's state union, its pointers read back symbolic and every arm after the await (filter call, error send, Event / RuntimeError drop glue) is explored on garbage. " + ASYNC,
    "C02": "debounce window = the same async throttle_collect loop over virtual time: " + ASYNC,
    "C03": "the verdict is computed by ignore::gitignore (globset, regex-automata) and a radix trie keyed by Display-formatted heap strings; one concrete `Path::components` comparison already costs 25M SAT variables (C17 probe), glob compilation is far beyond that; replacing the engine by a model would verify the model, not the code",
    "C04": "sequencing of spawns is the job task loop (supervisor::job::task, async): " + ASYNC + "; a state-object-level harness over CommandState::{spawn,reset} alone also ran out of memory (4.7M symex steps for 4 concrete paths: Box<dyn TokioChildWrapper>/io::Error drop-glue fan-out)",
    "C05": "the policy lives in a closure inside cli::config::make_config; driving it needs clap Args, State (temp files, sockets) and several cooperating tokio tasks; async and far outside Kani's reach",
    "C06": "graceful stop = job task loop + PriorityReceiver::recv timer branch (async select!): " + ASYNC,
    "C08": "quit path = action worker + LateJoinSet + job tasks, all async: " + ASYNC,
    "C09": "lifecycle = the job task loop compared against a reference model: " + ASYNC,
    "C10": "ordering is decided by PriorityReceiver::recv (async fn with tokio select!): one recv from concrete queues costs 8M SAT variables / 100 s, with a symbolic select! start 11M / 420 s, a 16-scenario harness did not finish in 30 min and the 4-scenario select harness ran out of memory at 7.1M symex steps",
    "C11": "every verdict goes through the glob engine (ignore::gitignore::Gitignore); no bounded encoding of the real matcher is within reach (see C03)",
    "C12": "needs clap parsing, filesystem discovery (tokio::fs, gix-config), environment variables and the glob engine; the flag logic is inline in async fns",
    "C13": "watcher registration is the async fs worker over notify + HashSet<WatchedPath> (hash maps over symbolic keys: one insert > 15 min) and tokio::sync::Notify: " + ASYNC,
    "C14": "a directory walk over tokio::fs + gix-config + the glob engine; nothing to encode without the filesystem",
    "C15": "error delivery = async error_hook / worker loops over RuntimeError (io::Error, notify::Error, Box<dyn>) and real tokio mpsc (cooperative-budget thread-local: executing it never finished): " + ASYNC,
    "C17": "cli::emits::events_to_simple_format on ONE concrete event ('/a', Create(File)): still in symbolic execution at the 600 s cap (504 loop unwindings: Utf8Chunks::next via to_string_lossy, find_map over tags). paths::common_prefix / summarise_events_to_env are built on Path::components and HashMap/HashSet: a single fully concrete common_prefix([\"/a/b\",\"/a/c\"]) costs 25M SAT variables / 109M clauses / 274 s; any symbolic input is out of reach, hash containers over symbolic keys likewise",
}

CHECKS = {
    "C02": {
        "text": "Only the two synchronous facts the debounce logic relies on are decided: Priority is totally ordered Low < Normal < High < Urgent with Urgent the maximum and Normal the default (all triples), and Event::is_empty (the filter bypass test) is exactly 'has no tags'. The debounce window itself (throttle_collect) is NOT decided: measured infeasible (DESIGN section 5).",
        "design_ref": "4/C02",
        "note": "Trusted: Kani/CBMC/CaDiCaL, no-op tracing model. Not covered: window timing, batch composition, urgent flush, starvation bound - all inside the async throttle_collect.",
    },
    "C05": {
        "text": "Only the mode-selection sentence is decided: EventsArgs::normalise over all combinations of initial --on-busy-update mode, --restart, --signal (any signal), --no-environment, --only-emit-events, emit mode: the resulting mode is signal if --signal is given, else restart if --restart, else the given mode; the emit-events rules as documented; nothing else changes. The on-busy behaviour itself (what the action handler does to the job) is NOT decided.",
        "design_ref": "4/C05",
        "note": "Trusted: Kani/CBMC/CaDiCaL; hook watchexec_cli::verif (cfg(kani)) incl. baseline argument values standing in for clap's defaults; stubs catch_unwind, patched backtrace crate (compile fix). Not covered: the action closure in cli::config::make_config (async, job control), --postpone, queue/restart/signal run behaviour.",
    },
    "C06": {
        "text": "The grace timer and the REAL async PriorityReceiver::recv (all of it, including both select! blocks, polled by the harness over the tokio model with a virtual clock) are decided; the job task is not. Timer::stop / Timer::restart compute deadline = now + grace exactly; the timer is not past at any instant before the deadline and past from the deadline on (symbolic creation and query times, grace 0 included); the forced control produced at expiry is Stop resp. ContinueTryGracefulRestart and carries the timer's own flag; PriorityReceiver::recv returns that control first when the timer has expired (even with urgent/high/normal controls queued), clears the timer and leaves the queues untouched, lets urgent and high controls through while a timer is armed, and while the timer is armed and not expired a queued NORMAL control is held back (recv stays Pending, the control is not consumed, the timer stays); a recv parked in its select! is not woken one nanosecond before the deadline, is woken at the deadline, and then yields the forced control with the timer's flag (same future or a fresh call), clearing the timer and leaving the normal control queued; stop_with_signal / restart_with_signal / try_restart_with_signal enqueue exactly [GracefulStop{signal, grace}(, Start)] / TryGracefulRestart on the normal queue. What the job task does with these (signal first, kill at expiry, one respawn) is NOT decided.",
        "design_ref": "4/C06",
        "note": "Trusted: Kani/CBMC/CaDiCaL; models/tokio virtual clock; hooks Timer::verif_* (cfg(kani)). Not covered: supervisor::job::task (async: signal delivery, kill and reap at expiry, exactly one respawn), times other than the concrete NOW/deadline pair in the recv scenarios (the boundary itself is symbolic in the Timer harnesses), grace = Duration::MAX (Instant + Duration overflow is the model's arithmetic here, not std's).",
    },
    "C10": {
        "text": "Send side, complete for single calls: each of the 20 public Job methods enqueues exactly its documented controls, in order, on the documented queue (delete_now: urgent; to_wait: high; everything else normal) and nothing elsewhere; two successive calls (25 pairs of 5 representative methods) stay in call order per queue and do not resolve each other's tickets. Receive side = the REAL async PriorityReceiver::recv including both select! blocks, polled by the harness over the tokio model: urgent before high before normal and FIFO within a queue, both when the controls are already queued when recv is called and when they arrive while recv is parked in its select! (every start index of the re-poll); normal controls come out in send order through select!; nothing is returned from empty queues; an armed timer holds normal controls back; an expired timer wins. (The parked case found a genuine defect - random select! start returned a normal control before a pending urgent one - fixed in /repo 12550b0.) NOT decided: what the job task executes with the controls it receives, concurrent senders on real threads.",
        "design_ref": "4/C10",
        "note": "Trusted: Kani/CBMC/CaDiCaL; models/tokio mpsc ring and wakers; hook job_from_parts (cfg(kani)). Sequential: no concurrent senders on real threads.",
    },
    "C12": {
        "text": "Only the flag-expansion sentence is decided: FilteringArgs::normalise over all 2^7 combinations of the five no-* flags, --ignore-nothing and --no-meta: --ignore-nothing sets all five, otherwise each flag keeps its value, --no-meta expands to the four fs event kinds, and no filter or ignore input is invented. What the filterer construction does with the flags (which discovered sources are dropped, that explicit options survive) is NOT decided.",
        "design_ref": "4/C12",
        "note": "Trusted: Kani/CBMC/CaDiCaL; hook watchexec_cli::verif; stubs catch_unwind, miette capture_handler (kani-compiler ICE work-around), dunce::canonicalize -> identity. Not covered: cli::dirs::ignores, WatchexecFilterer::new (tokio::fs discovery, glob engine), clap.",
    },
    "C13": {
        "text": "Only the configuration-cell seam is decided: Changeable / ChangeableFn / ChangeableFilterer return the last value written, clones share state, call() reaches the currently installed closure exactly once, a handler that replaces itself from inside call() neither deadlocks nor disturbs the invocation in progress; every Config setter (throttle, keyboard_events, file_watcher, on_error, pathset, filterer) stores exactly what it was given and wakes a listener registered on the change signal (real tokio Notify). The fs worker's convergence to the configured path set is NOT decided.",
        "design_ref": "4/C13",
        "note": "Trusted: Kani/CBMC/CaDiCaL; no-op tracing model; hook config_change_signal; stub Box::write -> ptr::write. Sequential execution of RwLock/Notify. Not covered: lib::sources::fs worker, ConfigWatched::next, watch/unwatch failures.",
    },
    "C15": {
        "text": "Decided: (a) the REAL async error_hook task (its whole `while let Some(err) = errors.recv().await` loop, polled by the harness over a model mpsc channel) with two queued runtime errors: each is handed to the handler exactly once, in order; ignoring them keeps the task running (Ok when the channel closes); elevating the second ends the task with Elevated carrying the SECOND error even when the handler kept the first hook alive; elevating the first ends the task at once and the second is never handed over; (b) for one runtime error, the body of error_hook's loop (ErrorHook::new -> handler.call -> ErrorHook::handle_crit) calls the installed handler exactly once with that error; ignore gives Ok; elevate() ends with CriticalError::Elevated carrying the SAME runtime error; critical(c) ends with c; a handler that keeps the hook alive yields Ok as documented. 8 payload-light RuntimeError variants (signal numbers / message bytes symbolic). How errors get INTO the channel (worker / fs worker / action worker send sites) and containment in those workers are NOT decided.",
        "design_ref": "4/C15",
        "note": "Trusted: Kani/CBMC/CaDiCaL; no-op tracing model; hooks watchexec::verif::{hook_new, hook_crit_cell, hook_handle_crit, error_hook_task}; models/tokio-full mpsc for the loop harnesses; stub Box::write -> ptr::write. Not covered: async send sites of the error channel, io::Error / notify::Error payloads, main-task termination.",
    },
    "C07": {
        "text": "Bounded, solver-decided: every public ticket-returning Job method returns a ticket that shares the done flag of exactly the LAST control it enqueued and the job's gone flag (pending until one of them is raised, not resolved by an earlier control of a multi-control operation, already resolved and nothing enqueued on a dead job); and 3 waiter tasks polling clones of one flag / clones of one ticket / two tickets of one job in every interleaving of 3 poll slots (re-polls included), then the control's flag or the job-gone flag is raised; every parked waiter must have been woken and every clone resolves. This is the wake-up half of the property (where the genuine lost-wake-up defect was found and fixed); the task-level half (which controls raise which flag, graceful-stop timing, failures) is not covered.",
        "design_ref": "4/C07",
        "note": "Trusted: Kani/CBMC/CaDiCaL; models/tokio waker identities and poll helper; hook watchexec_supervisor::verif (cfg(kani)). Sequential execution: atomics/Mutex are run without thread interleavings. Not covered: supervisor::job::task (async, out of reach) - so a mutation that forgets to raise a control's flag in task.rs is NOT detected.",
    },
    "C16": {
        "text": "Bounded, solver-decided at the serde data-model level: Tag <-> SerdeTag identity for every non-fs tag kind over full integer ranges; documented field placement; all 41 filesystem event kinds through their wire names (format half with real core::fmt + parse half, sharing one table); totality of the wire->Tag conversion over every kind x field-presence mask x integer payload (same kind or Unknown, NonZero invariants); Signal <-> SerdeSignal both ways; plus the JSON shape (field names, order, omitted fields, every unit-variant spelling) captured from the real derive(Serialize) with a recording Serializer, and 16 concrete JSON tag objects (well-formed in any field order / with unknown fields; degraded: missing, foreign, contradictory fields) driven through the real derive(Deserialize); Event level: tag vectors of 0..=3 cheap tags keep number, order and duplicates, and the tagless event serialises to an object without fields that parses back to the empty event.",
        "design_ref": "4/C16",
        "note": "Trusted: Kani/CBMC/CaDiCaL; hooks watchexec_events::verif / watchexec_signals::verif (cfg(kani)). Not covered: serde_json itself (tokenising, escaping, number printing; the harnesses stand in for it), non-empty metadata maps (HashMap with ONE concrete entry: no symbolic-execution result in 700-900 s, hashbrown SIMD group scans), Event-level vectors of path / fs tags, non-UTF-8 paths, parse scenarios beyond the 16 objects. In the quick tier 2 of the 6 format-half ranges run (14 kinds); all 41 in thorough.",
    },
    "C18": {
        "text": "Bounded, solver-decided for both branches of Command::to_spawnable: Program::Exec hands the process layer exactly [program, args...] byte for byte (0..=3 arguments of 0..=2 symbolic ASCII bytes incl. every metacharacter/whitespace/quote/control byte, plus a multi-byte argument); Program::Shell is invoked as shell prog, options.., program option, command string, extra args.. in exactly that order, one argv element each, byte for byte (0..=2 options, program option absent / borrowed / owned, 0..=2 extra args incl. an empty one, 3 length patterns of which one in quick); exactly the wrappers {KillOnDrop} + {Session | Group} + {ResetSigmask} for all 8 option combinations; and the CLI's interpret_command_args: --no-shell / --shell=none give Exec with the words unchanged, --shell=sh gives Shell{sh, -c, words joined by single spaces}, a multi-word --shell ('bash  -e<TAB>-u') gives prog = first word, options = the rest in order, -c; --shell='' is an error, --wrap-process maps to grouped / session. Program names, shell programs and program options made of arbitrary non-NUL bytes (non-UTF-8 included) are passed byte for byte.",
        "design_ref": "4/C18",
        "note": "Trusted: Kani/CBMC/CaDiCaL; models/tokio process::Command and models/process-wrap (recorders). Hook watchexec_cli::verif (cfg(kani)). Stub MaybeUninit::write -> ptr::write in the shell harnesses. Not covered: exec fidelity below tokio::process::Command (what std and the kernel do with the argv, pgid/sid of a real child), spawn-hook env/cwd, shells taken from $SHELL (getenv FFI), strings longer than 3 bytes (symbolic) resp. the concrete examples.",
    },
    "C19": {
        "text": "Solver-decided over full ranges: Signal::from(i32) vs to_nix for all 2^32 numbers, POSIX numbers of the first-class signals, to_nix/from_nix round trip for every Signal value, ProcessEnd::from(ExitStatus) for all 2^32 raw wait statuses (exit code, terminating signal with/without core bit, stopped, continued, never the unreachable!), ProcessEnd -> ExitStatus -> ProcessEnd for Success / ExitError(1..=255) / ExitSignal(valid). Names (real from_unix_str / from_windows_str / FromStr / Display): every one of the 31 Linux signals in the spellings NAME, SIGNAME and number in every letter case parses to that OS signal (FromStr: except the documented Windows control names, which win - STOP is ForceStop); all 13 Windows control names in every case; conversely EVERY ASCII string of length 1..=10 is accepted exactly when the documented grammar says so and never panics; Display of the first-class signals is SIGxxx, of Custom(n) the number, and both parse back to the same OS signal.",
        "design_ref": "4/C19",
        "note": "Trusted: Kani/CBMC/CaDiCaL; std's unix wait-status decoding as compiled; Linux x86_64 signal numbering. Stub: alloc::fmt::format -> String::with_capacity(16) + the real core::fmt::write (the real one allocates a capacity CBMC cannot fold: OOM). Quick tier: 12 of the 62 name rows, 2 of 19 string lengths, 3 of 14 custom-number groups; all in thorough. Not covered: non-ASCII and > 10-byte input, the --map-signal FROM:TO value parser, Windows branches of Display.",
    },
    "C20": {
        "text": "Solver-decided over the complete ProjectType enumeration (discriminant symbolic, bounded by mem::variant_count so new variants are covered): is_vcs xor is_soft. Complete for the classification sentence of the property; the origin-walk sentences are not covered.",
        "design_ref": "4/C20",
        "note": "Trusted: Kani/CBMC/CaDiCaL, kani-compiler's MIR of project-origins. Not covered: origins()/types() (async tokio::fs walks over unconstructible std::fs::FileType).",
    },
}
