//! C19, name leg — the documented Windows control names, and what `from_windows_str` does with
//! every other short ASCII string.
#[allow(unused_imports)]
use std::fmt as stdfmt;
use std::str::FromStr;

use watchexec_signals::Signal;

use crate::c19names::{apply_case, os, BUF, WIN};
#[allow(unused_imports)]
use crate::util::{eq_upper, format_fixed_capacity};

/// Rows `lo..hi` of the Windows table, every letter case: `from_windows_str` and `FromStr` both
/// give the documented signal.
pub fn check_win_rows(lo: usize, hi: usize, fromstr: bool) {
    let n = hi - lo;
    split!(n, |k| {
        let (name, num) = WIN[lo + k];
        let mut buf = [0u8; BUF];
        let mut i = 0;
        while i < name.len() {
            buf[i] = name[i];
            i += 1;
        }
        let len = name.len();
        let mask: u16 = kani::any();
        let flipped = apply_case(&mut buf, len, mask);
        let s = unsafe { std::str::from_utf8_unchecked(&buf[..len]) };
        kani::cover!(k == 0 && flipped, "first control name reached in a non-canonical letter case");
        let r = if fromstr { Signal::from_str(s) } else { Signal::from_windows_str(s) };
        match r {
            Ok(sig) => {
                assert!(os(sig) == Some(num), "C19: Windows control name parsed as a different signal than documented");
                // the documented mapping is to the first-class signals
                let first_class = match num {
                    1 => sig == Signal::Hangup,
                    2 => sig == Signal::Interrupt,
                    9 => sig == Signal::ForceStop,
                    _ => sig == Signal::Terminate,
                };
                assert!(first_class, "C19: Windows control name not mapped to its first-class signal");
                kani::cover!(k == n - 1 && flipped, "last control name parsed in a non-canonical letter case");
            }
            Err(e) => {
                std::mem::forget(e);
                assert!(false, "C19: documented Windows control name rejected");
            }
        }
        kani::assume(false);
    });
}

/// What the documentation says about an arbitrary string: a control name (any case) or nothing.
pub fn win_oracle(buf: &[u8; BUF], len: usize) -> Option<i32> {
    let mut found = None;
    let mut i = 0;
    while i < WIN.len() {
        if eq_upper(buf, len, WIN[i].0) {
            found = Some(WIN[i].1);
        }
        i += 1;
    }
    found
}

/// Every ASCII string of each length in `lo..=hi` (bytes 0x00..=0x7f symbolic, length per path):
/// `from_windows_str` accepts exactly the documented names and never panics.
pub fn check_win_total(lo: usize, hi: usize) {
    let n = hi - lo + 1;
    split!(n, |k| {
        let len = lo + k;
        let mut buf = [0u8; BUF];
        let mut i = 0;
        while i < len {
            let b: u8 = kani::any();
            kani::assume(b < 0x80);
            buf[i] = b;
            i += 1;
        }
        let s = unsafe { std::str::from_utf8_unchecked(&buf[..len]) };
        let want = win_oracle(&buf, len);
        kani::cover!(k == 0, "first length reached");
        match Signal::from_windows_str(s) {
            Ok(sig) => {
                assert!(want.is_some(), "C19: from_windows_str accepted a string that is not a documented control name");
                assert!(os(sig) == want, "C19: from_windows_str mapped a control name to a different signal than documented");
            }
            Err(e) => {
                std::mem::forget(e);
                assert!(want.is_none(), "C19: from_windows_str rejected a documented control name");
            }
        }
        kani::assume(false);
    });
}

macro_rules! win_harness {
    ($name:ident, $lo:expr, $hi:expr, $fromstr:expr) => {
        #[kani::proof]
        #[kani::unwind(15)]
        #[kani::stub(stdfmt::format, format_fixed_capacity)]
        pub fn $name() {
            check_win_rows($lo, $hi, $fromstr);
        }
    };
}

win_harness!(c19_win_names_direct, 0, 13, false);
// Through `FromStr` the symbolic executor cannot tell that `from_windows_str` succeeded (the
// bytes are symbolic), so every path also runs `from_unix_str` on the 1..10-byte name
// (measured: all 13 names in one harness: out of memory at 12 GB after 275 s of symex).
win_harness!(c19_win_fromstr_ctrl_close, 0, 2, true);
win_harness!(c19_win_fromstr_close_ctrl_break, 2, 4, true);
win_harness!(c19_win_fromstr_break, 4, 6, true);
win_harness!(c19_win_fromstr_ctrl_c, 6, 8, true);
win_harness!(c19_win_fromstr_c_kill, 8, 10, true);
win_harness!(c19_win_fromstr_sigkill_force_stop, 10, 12, true);
win_harness!(c19_win_fromstr_stop, 12, 13, true);

#[kani::proof]
#[kani::unwind(15)]
pub fn c19_win_total_len_1_5() {
    check_win_total(1, 5);
}

#[kani::proof]
#[kani::unwind(15)]
pub fn c19_win_total_len_6_10() {
    check_win_total(6, 10);
}
