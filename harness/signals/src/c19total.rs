//! C19, name leg — the reverse direction: for EVERY short ASCII string, `from_unix_str` /
//! `FromStr` accept it exactly when it is a spelling of a platform signal (short name, SIG-prefixed
//! name, decimal number — any letter case) or a documented Windows control name, give that signal,
//! and never panic.
#[allow(unused_imports)]
use std::fmt as stdfmt;
use std::str::FromStr;

use watchexec_signals::Signal;

use crate::c19names::{os, BUF, UNIX};
use crate::c19win::win_oracle;
#[allow(unused_imports)]
use crate::util::{format_fixed_capacity, upper};

/// Integer syntax: optional sign, then one or more decimal digits.  Lengths here are <= 9 so the
/// value fits an i64 without overflow.
pub fn numeral(buf: &[u8; BUF], len: usize) -> Option<i64> {
    let mut i = 0;
    let mut neg = false;
    if len > 0 && (buf[0] == b'+' || buf[0] == b'-') {
        neg = buf[0] == b'-';
        i = 1;
    }
    if i >= len {
        return None;
    }
    let mut v: i64 = 0;
    let mut ok = true;
    while i < len {
        let b = buf[i];
        if b >= b'0' && b <= b'9' {
            v = v * 10 + (b - b'0') as i64;
        } else {
            ok = false;
        }
        i += 1;
    }
    if !ok {
        None
    } else if neg {
        Some(-v)
    } else {
        Some(v)
    }
}

/// `buf[from..len]`, upper-cased, equals `name`.
fn tail_is(buf: &[u8; BUF], from: usize, len: usize, name: &[u8]) -> bool {
    if len < from || len - from != name.len() {
        return false;
    }
    let mut same = true;
    let mut i = 0;
    while i < name.len() {
        if upper(buf[from + i]) != name[i] {
            same = false;
        }
        i += 1;
    }
    same
}

/// The platform signal a string spells, if any.
pub fn unix_oracle(buf: &[u8; BUF], len: usize) -> Option<i32> {
    if let Some(v) = numeral(buf, len) {
        if v >= 1 && v <= 31 {
            return Some(v as i32);
        }
    }
    // 31 rows walked as 3 x 11 so that no harness-side loop needs a larger unwinding bound than
    // the real code's loops do (the bound is global and `memcmp` is unrolled up to it).
    let mut found = None;
    let mut chunk = 0;
    while chunk < 3 {
        let mut j = 0;
        while j < 11 {
            let r = chunk * 11 + j;
            if r < UNIX.len() {
                let (name, num) = UNIX[r];
                if tail_is(buf, 0, len, name) {
                    found = Some(num);
                }
                if len >= 3 && tail_is(buf, 0, 3, b"SIG") && tail_is(buf, 3, len, name) {
                    found = Some(num);
                }
            }
            j += 1;
        }
        chunk += 1;
    }
    found
}

pub const T_UNIX: u8 = 1;
pub const T_FROMSTR: u8 = 2;

pub fn check_total(len: usize, which: u8) {
    let mut buf = [0u8; BUF];
    let mut i = 0;
    while i < len {
        let b: u8 = kani::any();
        kani::assume(b < 0x80);
        buf[i] = b;
        i += 1;
    }
    let s = unsafe { std::str::from_utf8_unchecked(&buf[..len]) };
    let want_unix = unix_oracle(&buf, len);
    let want = if which == T_FROMSTR {
        match win_oracle(&buf, len) {
            Some(w) => Some(w),
            None => want_unix,
        }
    } else {
        want_unix
    };
    kani::cover!(want.is_some(), "a string that spells a signal");
    let r = if which == T_FROMSTR { Signal::from_str(s) } else { Signal::from_unix_str(s) };
    match r {
        Ok(sig) => {
            assert!(want.is_some(), "C19: a string that is no spelling of any signal was accepted");
            assert!(os(sig) == want, "C19: a string parsed to a different OS signal than it spells");
        }
        Err(e) => {
            std::mem::forget(e);
            assert!(want.is_none(), "C19: a spelling of a platform signal was rejected");
        }
    }
}

macro_rules! total_harness {
    ($name:ident, $len:expr, $which:expr) => {
        #[kani::proof]
        #[kani::unwind(15)]
        #[kani::stub(stdfmt::format, format_fixed_capacity)]
        pub fn $name() {
            check_total($len, $which);
        }
    };
}

total_harness!(c19_total_unix_len1, 1, T_UNIX);
total_harness!(c19_total_unix_len2, 2, T_UNIX);
total_harness!(c19_total_unix_len3, 3, T_UNIX);
total_harness!(c19_total_unix_len4, 4, T_UNIX);
total_harness!(c19_total_unix_len5, 5, T_UNIX);
total_harness!(c19_total_unix_len6, 6, T_UNIX);
total_harness!(c19_total_unix_len7, 7, T_UNIX);
total_harness!(c19_total_unix_len8, 8, T_UNIX);
total_harness!(c19_total_unix_len9, 9, T_UNIX);
total_harness!(c19_total_fromstr_len1, 1, T_FROMSTR);
total_harness!(c19_total_fromstr_len2, 2, T_FROMSTR);
total_harness!(c19_total_fromstr_len3, 3, T_FROMSTR);
total_harness!(c19_total_fromstr_len4, 4, T_FROMSTR);
total_harness!(c19_total_fromstr_len5, 5, T_FROMSTR);
total_harness!(c19_total_fromstr_len6, 6, T_FROMSTR);
total_harness!(c19_total_fromstr_len7, 7, T_FROMSTR);
total_harness!(c19_total_fromstr_len8, 8, T_FROMSTR);
total_harness!(c19_total_fromstr_len9, 9, T_FROMSTR);
total_harness!(c19_total_fromstr_len10, 10, T_FROMSTR);
