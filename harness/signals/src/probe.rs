//! Probes (not registered).
use std::str::FromStr;
use nix::sys::signal::Signal as NixSignal;
use watchexec_signals::Signal;

#[kani::proof]
#[kani::unwind(12)]
pub fn p_win_stop() {
    let r = Signal::from_windows_str("STOP");
    assert!(matches!(r, Ok(Signal::ForceStop)), "C19: p");
    std::mem::forget(r);
}

#[kani::proof]
#[kani::unwind(12)]
pub fn p_win_err() {
    let r = Signal::from_windows_str("HUP");
    assert!(r.is_err(), "C19: p");
    std::mem::forget(r);
}

#[kani::proof]
#[kani::unwind(12)]
pub fn p_nix_sighup() {
    let r = NixSignal::from_str("SIGHUP");
    assert!(r == Ok(NixSignal::SIGHUP), "C19: p");
}

#[kani::proof]
#[kani::unwind(12)]
pub fn p_nix_err() {
    let r = NixSignal::from_str("HUP");
    assert!(r.is_err(), "C19: p");
}

#[kani::proof]
#[kani::unwind(12)]
pub fn p_upper() {
    let s = "hup".to_ascii_uppercase();
    assert!(s.as_bytes()[0] == b'H' && s.len() == 3, "C19: p");
    std::mem::forget(s);
}

#[kani::proof]
#[kani::unwind(12)]
pub fn p_format() {
    let s = format!("SIG{}", "HUP");
    assert!(s.len() == 6 && s.as_bytes()[3] == b'H', "C19: p");
    std::mem::forget(s);
}

#[kani::proof]
#[kani::unwind(12)]
pub fn p_i32_err() {
    let r = i32::from_str("hup");
    assert!(r.is_err(), "C19: p");
}

#[kani::proof]
#[kani::unwind(12)]
pub fn p_i32_ok() {
    let r = i32::from_str("15");
    assert!(r == Ok(15), "C19: p");
}

#[kani::proof]
#[kani::unwind(12)]
pub fn p_unix_hup() {
    let r = Signal::from_unix_str("hup");
    assert!(matches!(r, Ok(Signal::Hangup)), "C19: p");
    std::mem::forget(r);
}

#[kani::proof]
#[kani::unwind(12)]
pub fn p_display() {
    let s = Signal::Hangup.to_string();
    assert!(s.as_bytes() == b"SIGHUP", "C19: p");
    std::mem::forget(s);
}

#[kani::proof]
#[kani::unwind(12)]
pub fn p_format_string() {
    let u = "hup".to_ascii_uppercase();
    let s = format!("SIG{}", u);
    assert!(s.len() == 6 && s.as_bytes()[3] == b'H', "C19: p");
    std::mem::forget(s);
    std::mem::forget(u);
}

#[kani::proof]
#[kani::unwind(12)]
pub fn p_format_tmp() {
    let s = format!("SIG{}", "hup".to_ascii_uppercase());
    assert!(s.len() == 6 && s.as_bytes()[3] == b'H', "C19: p");
    std::mem::forget(s);
}

#[kani::proof]
#[kani::unwind(12)]
pub fn p_unix_sighup() {
    let r = Signal::from_unix_str("SIGHUP");
    assert!(matches!(r, Ok(Signal::Hangup)), "C19: p");
    std::mem::forget(r);
}

#[kani::proof]
#[kani::unwind(12)]
pub fn p_unix_15() {
    let r = Signal::from_unix_str("15");
    assert!(matches!(r, Ok(Signal::Terminate)), "C19: p");
    std::mem::forget(r);
}

pub struct Sink { pub buf: [u8; 16], pub len: usize }
impl std::fmt::Write for Sink {
    fn write_str(&mut self, s: &str) -> std::fmt::Result {
        let b = s.as_bytes();
        let mut i = 0;
        while i < b.len() {
            if self.len >= 16 { return Err(std::fmt::Error); }
            self.buf[self.len] = b[i];
            self.len += 1;
            i += 1;
        }
        Ok(())
    }
}

#[kani::proof]
#[kani::unwind(18)]
pub fn p_write_sink_string() {
    let u = "hup".to_ascii_uppercase();
    let mut k = Sink { buf: [0; 16], len: 0 };
    let r = std::fmt::write(&mut k, format_args!("SIG{}", u));
    assert!(r.is_ok() && k.len == 6 && k.buf[3] == b'H', "C19: p");
    std::mem::forget(u);
}

#[kani::proof]
#[kani::unwind(18)]
pub fn p_write_sink_str() {
    let a = [b'H', b'U', b'P'];
    let u = unsafe { std::str::from_utf8_unchecked(&a) };
    let mut k = Sink { buf: [0; 16], len: 0 };
    let r = std::fmt::write(&mut k, format_args!("SIG{}", u));
    assert!(r.is_ok() && k.len == 6 && k.buf[3] == b'H', "C19: p");
}

#[kani::proof]
#[kani::unwind(18)]
pub fn p_format_str() {
    let a = [b'H', b'U', b'P'];
    let u = unsafe { std::str::from_utf8_unchecked(&a) };
    let s = format!("SIG{}", u);
    assert!(s.len() == 6 && s.as_bytes()[3] == b'H', "C19: p");
    std::mem::forget(s);
}

#[kani::proof]
#[kani::unwind(18)]
pub fn p_write_string_out() {
    let a = [b'H', b'U', b'P'];
    let u = unsafe { std::str::from_utf8_unchecked(&a) };
    let mut out = String::with_capacity(6);
    let r = std::fmt::write(&mut out, format_args!("SIG{}", u));
    assert!(r.is_ok() && out.len() == 6 && out.as_bytes()[3] == b'H', "C19: p");
    std::mem::forget(out);
}

#[kani::proof]
#[kani::unwind(18)]
pub fn p_pushstr() {
    let a = [b'H', b'U', b'P'];
    let u = unsafe { std::str::from_utf8_unchecked(&a) };
    let mut out = String::with_capacity(6);
    out.push_str("SIG");
    out.push_str(u);
    assert!(out.len() == 6 && out.as_bytes()[3] == b'H', "C19: p");
    std::mem::forget(out);
}

use std::fmt as stdfmt;
/// Same contract as `alloc::fmt::format`: the text `core::fmt::write` produces for `args`.
pub fn format_stub(args: stdfmt::Arguments<'_>) -> String {
    let mut out = String::with_capacity(16);
    stdfmt::write(&mut out, args).expect("a formatting trait implementation returned an error");
    out
}

#[kani::proof]
#[kani::unwind(18)]
#[kani::stub(stdfmt::format, format_stub)]
pub fn p_format_str_stubbed() {
    let a = [b'H', b'U', b'P'];
    let u = unsafe { std::str::from_utf8_unchecked(&a) };
    let s = format!("SIG{}", u);
    assert!(s.len() == 6 && s.as_bytes()[3] == b'H', "C19: p");
    std::mem::forget(s);
}

#[kani::proof]
#[kani::unwind(12)]
#[kani::stub(stdfmt::format, format_stub)]
pub fn p_unix_hup_stubbed() {
    let r = Signal::from_unix_str("hup");
    assert!(matches!(r, Ok(Signal::Hangup)), "C19: p");
    std::mem::forget(r);
}

#[kani::proof]
#[kani::unwind(18)]
pub fn p_estcap() {
    let a = [b'H', b'U', b'P'];
    let u = unsafe { std::str::from_utf8_unchecked(&a) };
    let args = format_args!("SIG{}", u);
    let c = args.estimated_capacity();
    assert!(c == 6, "C19: p cap");
}

#[kani::proof]
#[kani::unwind(18)]
pub fn p_estcap_write() {
    let a = [b'H', b'U', b'P'];
    let u = unsafe { std::str::from_utf8_unchecked(&a) };
    let args = format_args!("SIG{}", u);
    let c = args.estimated_capacity();
    let mut out = String::with_capacity(c);
    let r = stdfmt::write(&mut out, args);
    assert!(r.is_ok() && out.len() == 6 && out.as_bytes()[3] == b'H', "C19: p");
    std::mem::forget(out);
}

fn sym_hup(buf: &mut [u8; 12]) -> &str {
    buf[0] = b'H'; buf[1] = b'U'; buf[2] = b'P';
    let mask: u16 = kani::any();
    crate::c19names::apply_case(buf, 3, mask);
    unsafe { std::str::from_utf8_unchecked(&buf[..3]) }
}

#[kani::proof]
#[kani::unwind(14)]
pub fn q_i32() {
    let mut buf = [0u8; 12];
    let s = sym_hup(&mut buf);
    assert!(i32::from_str(s).is_err(), "C19: p");
}

#[kani::proof]
#[kani::unwind(14)]
pub fn q_upper_nix() {
    let mut buf = [0u8; 12];
    let s = sym_hup(&mut buf);
    let u = s.to_ascii_uppercase();
    assert!(NixSignal::from_str(&u).is_err(), "C19: p");
    std::mem::forget(u);
}

#[kani::proof]
#[kani::unwind(14)]
#[kani::stub(stdfmt::format, format_stub)]
pub fn q_upper_format_nix() {
    let mut buf = [0u8; 12];
    let s = sym_hup(&mut buf);
    let u = s.to_ascii_uppercase();
    let f = format!("SIG{}", u);
    assert!(NixSignal::from_str(&f) == Ok(NixSignal::SIGHUP), "C19: p");
    std::mem::forget(u);
    std::mem::forget(f);
}

#[kani::proof]
#[kani::unwind(14)]
pub fn q_win() {
    let mut buf = [0u8; 12];
    let s = sym_hup(&mut buf);
    let r = Signal::from_windows_str(s);
    assert!(r.is_err(), "C19: p");
    std::mem::forget(r);
}

#[kani::proof]
#[kani::unwind(14)]
pub fn q_win_drop() {
    let mut buf = [0u8; 12];
    let s = sym_hup(&mut buf);
    let r = Signal::from_windows_str(s);
    assert!(r.is_err(), "C19: p");
}

#[kani::proof]
#[kani::unwind(12)]
pub fn p_display_len() {
    let t = Signal::Hangup.to_string();
    let mut i = 0;
    let mut acc = 0u32;
    while i < t.len() { acc += t.as_bytes()[i] as u32; i += 1; }
    assert!(acc > 0, "C19: p");
    std::mem::forget(t);
}

#[kani::proof]
#[kani::unwind(12)]
pub fn p_pushstr_len() {
    let mut t = String::new();
    t.push_str("SIGHUP");
    let mut i = 0;
    let mut acc = 0u32;
    while i < t.len() { acc += t.as_bytes()[i] as u32; i += 1; }
    assert!(acc > 0, "C19: p");
    std::mem::forget(t);
}
