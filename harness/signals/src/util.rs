//! Helpers shared by the harnesses of this group.
use std::fmt as stdfmt;

/// Solver-chosen value in 0..n that is a *constant* on each explored path (see
/// /verif/harness/supervisor/src/util.rs): dispatch through equality tests, run the body inside
/// the matching branch.  Bodies end their path with `kani::assume(false)`.
/// The dispatch loop needs `#[kani::unwind(k)]` with k >= n + 1.
#[macro_export]
macro_rules! split {
    ($n:expr, |$v:ident| $body:block) => {{
        let __c: usize = kani::any();
        kani::assume(__c < $n);
        let mut __i = 0usize;
        while __i < $n {
            if __c == __i {
                let $v: usize = __i;
                $body
            }
            __i += 1;
        }
    }};
}

/// Stand-in for `alloc::fmt::format` (what `format!` calls).  Same contract: the text that
/// `core::fmt::write` produces for `args`, in a fresh `String`.  The only difference from the
/// real function is the *initial capacity* of that `String`: the real one asks
/// `Arguments::estimated_capacity()`, whose value (6 for `"SIG{}"`) CBMC proves but does not
/// constant-fold, so the buffer becomes a heap object of symbolic size (measured:
/// `format!("SIG{}", s)` for a 3-byte `s`: out of memory at 12 GB; with this stand-in 343k
/// variables / 10 s).  The real `core::fmt::write`, `Argument::fmt`, `Formatter::pad` and
/// `String::write_str` all still run.
pub fn format_fixed_capacity(args: stdfmt::Arguments<'_>) -> String {
    let mut out = String::with_capacity(16);
    stdfmt::write(&mut out, args)
        .expect("a formatting trait implementation returned an error when the underlying stream did not");
    out
}

/// ASCII upper-casing written out for the oracle side.
pub fn upper(b: u8) -> u8 {
    if b >= b'a' && b <= b'z' {
        b - 32
    } else {
        b
    }
}

/// Byte equality of `a[..alen]` with `b` after ASCII upper-casing `a` (hand loop, concrete bounds).
pub fn eq_upper(a: &[u8], alen: usize, b: &[u8]) -> bool {
    if alen != b.len() {
        return false;
    }
    let mut i = 0;
    let mut same = true;
    while i < alen {
        if upper(a[i]) != b[i] {
            same = false;
        }
        i += 1;
    }
    same
}

/// Plain byte equality (hand loop, concrete bounds).
pub fn eq_bytes(a: &[u8], b: &[u8]) -> bool {
    if a.len() != b.len() {
        return false;
    }
    let mut i = 0;
    let mut same = true;
    while i < a.len() {
        if a[i] != b[i] {
            same = false;
        }
        i += 1;
    }
    same
}
