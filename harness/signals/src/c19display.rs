//! C19, name leg — display forms: first-class signals print their documented names, custom
//! signals print their number, and the printed form parses back (through the real `FromStr`) to
//! the same OS signal.
//!
//! Real code driven: `<Signal as Display>::fmt` through `ToString` (real `core::fmt::write`,
//! `Formatter::pad`, `<i32 as Display>::fmt`), then `<Signal as FromStr>::from_str` on the
//! produced `String`, `Signal::to_nix`.
#[allow(unused_imports)]
use std::fmt as stdfmt;
use std::str::FromStr;

use watchexec_signals::Signal;

use crate::c19names::{os, BUF};
#[allow(unused_imports)]
use crate::util::{eq_bytes, format_fixed_capacity};

/// First-class signals: documented unix display name and POSIX number.
pub fn first_class(k: usize) -> (Signal, &'static [u8], i32) {
    match k {
        0 => (Signal::Hangup, b"SIGHUP", 1),
        1 => (Signal::ForceStop, b"SIGKILL", 9),
        2 => (Signal::Interrupt, b"SIGINT", 2),
        3 => (Signal::Quit, b"SIGQUIT", 3),
        4 => (Signal::Terminate, b"SIGTERM", 15),
        5 => (Signal::User1, b"SIGUSR1", 10),
        _ => (Signal::User2, b"SIGUSR2", 12),
    }
}

/// Decimal text of `n` (|n| has exactly `digits` digits); returns the length.
pub fn decimal(n: i32, digits: usize, buf: &mut [u8; BUF]) -> usize {
    let mut len = 0;
    let mut m = n as i64;
    if m < 0 {
        buf[0] = b'-';
        len = 1;
        m = -m;
    }
    let mut i = 0;
    while i < digits {
        buf[len + digits - 1 - i] = b'0' + (m % 10) as u8;
        m /= 10;
        i += 1;
    }
    len + digits
}

/// Parse the produced display text back with the real `FromStr`.
///
/// The bytes parsed are the ones `Display` produced; only the *length* is taken from the
/// documented form, after the caller asserted that it is the produced length (`assert!` also
/// assumes under Kani).  Reason: the length of a `String` written through `core::fmt` is not
/// constant-folded by CBMC (measured: a loop over `to_string()`'s bytes unrolls to the bound, not
/// to 6), and a parser run on a string of symbolic length does not finish (> 12 GB).
fn parse_back(text: &String, want_len: usize, want: Option<i32>) {
    let mut buf = [0u8; BUF];
    let produced = text.as_bytes();
    let mut i = 0;
    while i < want_len {
        buf[i] = produced[i];
        i += 1;
    }
    let text = unsafe { std::str::from_utf8_unchecked(&buf[..want_len]) };
    match Signal::from_str(text) {
        Ok(back) => {
            assert!(want.is_some(), "C19: display form of a number that is no platform signal parsed to a signal");
            assert!(os(back) == want, "C19: display form parses back to a different OS signal");
        }
        Err(e) => {
            std::mem::forget(e);
            assert!(want.is_none(), "C19: display form of a signal does not parse back");
        }
    }
}

pub fn check_display_first(lo: usize, hi: usize) {
    let n = hi - lo;
    split!(n, |k| {
        let (sig, name, num) = first_class(lo + k);
        let text = sig.to_string();
        assert!(eq_bytes(text.as_bytes(), name), "C19: display form of a first-class signal is not its documented name");
        assert!(os(sig) == Some(num), "C19: first-class signal is not its POSIX number");
        kani::cover!(k == 0, "first-class display form produced");
        parse_back(&text, name.len(), Some(num));
        std::mem::forget(text);
        kani::assume(false);
    });
}

/// `Custom(n)` for every `n` in `lo..=hi` (all of the same decimal length `digits`); `n` is a
/// constant on each path: `<i32 as Display>::fmt` on a symbolic value does not finish (measured:
/// 6.9M variables / 21.7M clauses for `n` merely *assumed* equal to 26, out of memory for 5).
pub fn check_display_custom(lo: i32, hi: i32, digits: usize) {
    let count = (hi as i64 - lo as i64 + 1) as usize;
    split!(count, |k| {
        let n: i32 = (lo as i64 + k as i64) as i32;
        let sig = Signal::Custom(n);
        let text = sig.to_string();
        let mut want = [0u8; BUF];
        let wlen = decimal(n, digits, &mut want);
        assert!(eq_bytes(text.as_bytes(), &want[..wlen]), "C19: display form of a custom signal is not its number");
        kani::cover!(k == 0, "custom display form produced");
        let valid = if n >= 1 && n <= 31 { Some(n) } else { None };
        assert!(os(sig) == valid, "C19: custom signal number and OS signal disagree");
        parse_back(&text, wlen, valid);
        std::mem::forget(text);
        kani::assume(false);
    });
}

/// `Custom(n)` for a short list of numbers that are no platform signal.
pub fn check_display_outside(list: &[(i32, usize)]) {
    split!(list.len(), |k| {
        let (n, digits) = list[k];
        let sig = Signal::Custom(n);
        let text = sig.to_string();
        let mut want = [0u8; BUF];
        let wlen = decimal(n, digits, &mut want);
        assert!(eq_bytes(text.as_bytes(), &want[..wlen]), "C19: display form of a custom signal is not its number");
        kani::cover!(k == 0, "custom display form produced");
        assert!(os(sig).is_none(), "C19: a number that is no platform signal has an OS signal");
        parse_back(&text, wlen, None);
        std::mem::forget(text);
        kani::assume(false);
    });
}

macro_rules! custom_harness {
    ($name:ident, $lo:expr, $hi:expr, $digits:expr) => {
        #[kani::proof]
        #[kani::unwind(15)]
        #[kani::stub(stdfmt::format, format_fixed_capacity)]
        pub fn $name() {
            check_display_custom($lo, $hi, $digits);
        }
    };
}
macro_rules! first_harness {
    ($name:ident, $lo:expr, $hi:expr) => {
        #[kani::proof]
        #[kani::unwind(15)]
        #[kani::stub(stdfmt::format, format_fixed_capacity)]
        pub fn $name() {
            check_display_first($lo, $hi);
        }
    };
}
macro_rules! outside_harness {
    ($name:ident, $list:expr) => {
        #[kani::proof]
        #[kani::unwind(15)]
        #[kani::stub(stdfmt::format, format_fixed_capacity)]
        pub fn $name() {
            check_display_outside(&$list);
        }
    };
}

first_harness!(c19_display_first_hup_kill, 0, 2);
first_harness!(c19_display_first_int_quit, 2, 4);
first_harness!(c19_display_first_term_usr1, 4, 6);
first_harness!(c19_display_first_usr2, 6, 7);

custom_harness!(c19_display_custom_1_3, 1, 3, 1);
custom_harness!(c19_display_custom_4_6, 4, 6, 1);
custom_harness!(c19_display_custom_7_9, 7, 9, 1);
custom_harness!(c19_display_custom_10_12, 10, 12, 2);
custom_harness!(c19_display_custom_13_15, 13, 15, 2);
custom_harness!(c19_display_custom_16_18, 16, 18, 2);
custom_harness!(c19_display_custom_19_21, 19, 21, 2);
custom_harness!(c19_display_custom_22_24, 22, 24, 2);
custom_harness!(c19_display_custom_25_27, 25, 27, 2);
custom_harness!(c19_display_custom_28_30, 28, 30, 2);
custom_harness!(c19_display_custom_31, 31, 31, 2);

outside_harness!(c19_display_outside_0_32_neg1, [(0, 1), (32, 2), (-1, 1)]);
outside_harness!(c19_display_outside_64_99_100, [(64, 2), (99, 2), (100, 3)]);
outside_harness!(c19_display_outside_max_min, [(i32::MAX, 10), (i32::MIN, 10)]);
