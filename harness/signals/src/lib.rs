//! Harness group `signals`: C19 name leg (Display / FromStr / from_unix_str / from_windows_str).
#![cfg(kani)]
#![allow(clippy::all)]
#![cfg_attr(feature = "probes", feature(fmt_internals))]

#[macro_use]
pub mod util;
/// Measurement probes (root cause of the `Signal::from_str("hup")` blow-up); not registered.
/// Build with `--features probes`.
#[cfg(feature = "probes")]
pub mod probe;
pub mod c19names;
pub mod c19win;
pub mod c19total;
pub mod c19display;

// harness functions at the crate root: generated playback tests name them unqualified
pub use c19display::*;
pub use c19names::*;
pub use c19total::*;
pub use c19win::*;

mod playback {
    #[allow(unused_imports)]
    use super::*;
    include!("playback.rs");
}
