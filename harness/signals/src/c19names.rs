//! C19, name leg — every spelling of every platform signal parses to that OS signal, in every
//! letter case; `FromStr` agrees with `from_unix_str` except for the documented Windows control
//! names, which win.
//!
//! Real code driven: `Signal::from_unix_str` (-> `i32::from_str`, `NixSignal::try_from`,
//! `str::to_ascii_uppercase`, `NixSignal::from_str`, `format!("SIG{}")` through the real
//! `core::fmt::write`), `Signal::from_windows_str`, `<Signal as FromStr>::from_str`,
//! `Signal::to_nix`, `SignalParseError::new` and its drop.
//!
//! Per path (`split!`): one table row and one spelling, so the string *length* is concrete; the
//! letter case of every alphabetic byte is a symbolic bit.
#[allow(unused_imports)]
use std::fmt as stdfmt;
use std::str::FromStr;

use watchexec_signals::Signal;

#[allow(unused_imports)]
use crate::util::{eq_bytes, format_fixed_capacity};

/// Linux signal numbers and their canonical short names (asm-generic numbering; written out
/// here, not taken from nix or libc).
pub const UNIX: [(&[u8], i32); 31] = [
    (b"HUP", 1),
    (b"INT", 2),
    (b"QUIT", 3),
    (b"ILL", 4),
    (b"TRAP", 5),
    (b"ABRT", 6),
    (b"BUS", 7),
    (b"FPE", 8),
    (b"KILL", 9),
    (b"USR1", 10),
    (b"SEGV", 11),
    (b"USR2", 12),
    (b"PIPE", 13),
    (b"ALRM", 14),
    (b"TERM", 15),
    (b"STKFLT", 16),
    (b"CHLD", 17),
    (b"CONT", 18),
    (b"STOP", 19),
    (b"TSTP", 20),
    (b"TTIN", 21),
    (b"TTOU", 22),
    (b"URG", 23),
    (b"XCPU", 24),
    (b"XFSZ", 25),
    (b"VTALRM", 26),
    (b"PROF", 27),
    (b"WINCH", 28),
    (b"IO", 29),
    (b"PWR", 30),
    (b"SYS", 31),
];

/// The documented Windows control names (upper case) and the OS signal each one stands for on
/// unix: hangup = SIGHUP(1), terminate = SIGTERM(15), interrupt = SIGINT(2), forced stop = SIGKILL(9).
pub const WIN: [(&[u8], i32); 13] = [
    (b"CTRL-CLOSE", 1),
    (b"CTRL+CLOSE", 1),
    (b"CLOSE", 1),
    (b"CTRL-BREAK", 15),
    (b"CTRL+BREAK", 15),
    (b"BREAK", 15),
    (b"CTRL-C", 2),
    (b"CTRL+C", 2),
    (b"C", 2),
    (b"KILL", 9),
    (b"SIGKILL", 9),
    (b"FORCE-STOP", 9),
    (b"STOP", 9),
];

pub const BUF: usize = 12;

pub const SHORT: usize = 0;
pub const PREFIXED: usize = 1;
pub const NUMBER: usize = 2;

/// OS signal number a `Signal` stands for on this platform.
pub fn os(sig: Signal) -> Option<i32> {
    sig.to_nix().map(|n| n as i32)
}

/// Windows control name lookup on a canonical (upper-case) spelling.
pub fn win_lookup(canon: &[u8]) -> Option<i32> {
    let mut i = 0;
    let mut found = None;
    while i < WIN.len() {
        if eq_bytes(canon, WIN[i].0) {
            found = Some(WIN[i].1);
        }
        i += 1;
    }
    found
}

/// Canonical (upper-case) text of one spelling of table row `row`; returns its length.
pub fn spell(row: usize, spelling: usize, buf: &mut [u8; BUF]) -> usize {
    let (name, num) = UNIX[row];
    let mut len = 0;
    if spelling == NUMBER {
        if num >= 10 {
            buf[len] = b'0' + (num / 10) as u8;
            len += 1;
        }
        buf[len] = b'0' + (num % 10) as u8;
        len += 1;
    } else {
        if spelling == PREFIXED {
            buf[0] = b'S';
            buf[1] = b'I';
            buf[2] = b'G';
            len = 3;
        }
        let mut i = 0;
        while i < name.len() {
            buf[len] = name[i];
            len += 1;
            i += 1;
        }
    }
    len
}

/// Flip the case of every ASCII letter whose mask bit is set: together with the canonical text
/// this reaches every letter-case variant.
pub fn apply_case(buf: &mut [u8; BUF], len: usize, mask: u16) -> bool {
    let mut i = 0;
    let mut flipped = false;
    while i < len {
        let is_letter = buf[i] >= b'A' && buf[i] <= b'Z';
        if is_letter && (mask >> i) & 1 == 1 {
            buf[i] ^= 0x20;
            flipped = true;
        }
        i += 1;
    }
    flipped
}

pub const CHECK_UNIX: u8 = 1;
pub const CHECK_FROMSTR: u8 = 2;
/// Also place the cover witnesses *after* the parser calls (each satisfied cover makes CBMC and
/// Kani extract a trace through everything before it: measured +50 s per witness behind one
/// `from_unix_str`; the witness in front of the calls costs nothing).
pub const DEEP_COVER: u8 = 4;

/// One (row, spelling) scenario, every letter case.
pub fn check_spelling(row: usize, spelling: usize, checks: u8, first: bool, last: bool) {
    let num = UNIX[row].1;
    let mut buf = [0u8; BUF];
    let len = spell(row, spelling, &mut buf);
    // expected by FromStr: the documented Windows control names take precedence
    let expect_fromstr = match win_lookup(&buf[..len]) {
        Some(w) => w,
        None => num,
    };
    let mask: u16 = kani::any();
    let flipped = apply_case(&mut buf, len, mask);
    let s = unsafe { std::str::from_utf8_unchecked(&buf[..len]) };
    let deep = checks & DEEP_COVER != 0;
    kani::cover!(first && flipped, "first scenario reached in a non-canonical letter case");

    if checks & CHECK_UNIX != 0 {
        match Signal::from_unix_str(s) {
            Ok(sig) => {
                assert!(os(sig) == Some(num), "C19: from_unix_str parsed a spelling of a signal as a different OS signal");
                kani::cover!(deep && last, "unix: number spelling parsed");
            }
            Err(e) => {
                std::mem::forget(e);
                assert!(false, "C19: from_unix_str rejected a spelling of a platform signal");
            }
        }
    }
    if checks & CHECK_FROMSTR != 0 {
        match Signal::from_str(s) {
            Ok(sig) => {
                assert!(
                    os(sig) == Some(expect_fromstr),
                    "C19: FromStr parsed a different OS signal than the spelling names (Windows control names first, otherwise as from_unix_str)"
                );
                kani::cover!(deep && expect_fromstr != num && flipped, "fromstr: a Windows control name took precedence over the unix short name");
            }
            Err(e) => {
                std::mem::forget(e);
                assert!(false, "C19: FromStr rejected a spelling of a platform signal");
            }
        }
    }
}

/// All three spellings of table row `row` (short, SIG-prefixed, number), each in every letter case.
pub fn check_row(row: usize, checks: u8) {
    split!(3, |spelling| {
        check_spelling(row, spelling, checks, spelling == 0, spelling == 2);
        kani::assume(false);
    });
}

macro_rules! row_harness {
    ($name:ident, $row:expr, $checks:expr) => {
        #[kani::proof]
        #[kani::unwind(14)]
        #[kani::stub(stdfmt::format, format_fixed_capacity)]
        pub fn $name() {
            check_row($row, $checks);
        }
    };
}

// `from_unix_str`: one harness per platform signal (three spellings x every letter case).
row_harness!(c19_name_unix_hup, 0, CHECK_UNIX);
row_harness!(c19_name_unix_int, 1, CHECK_UNIX);
row_harness!(c19_name_unix_quit, 2, CHECK_UNIX);
row_harness!(c19_name_unix_ill, 3, CHECK_UNIX);
row_harness!(c19_name_unix_trap, 4, CHECK_UNIX);
row_harness!(c19_name_unix_abrt, 5, CHECK_UNIX);
row_harness!(c19_name_unix_bus, 6, CHECK_UNIX);
row_harness!(c19_name_unix_fpe, 7, CHECK_UNIX);
row_harness!(c19_name_unix_kill, 8, CHECK_UNIX | DEEP_COVER);
row_harness!(c19_name_unix_usr1, 9, CHECK_UNIX);
row_harness!(c19_name_unix_segv, 10, CHECK_UNIX);
row_harness!(c19_name_unix_usr2, 11, CHECK_UNIX);
row_harness!(c19_name_unix_pipe, 12, CHECK_UNIX);
row_harness!(c19_name_unix_alrm, 13, CHECK_UNIX);
row_harness!(c19_name_unix_term, 14, CHECK_UNIX);
row_harness!(c19_name_unix_stkflt, 15, CHECK_UNIX);
row_harness!(c19_name_unix_chld, 16, CHECK_UNIX);
row_harness!(c19_name_unix_cont, 17, CHECK_UNIX);
row_harness!(c19_name_unix_stop, 18, CHECK_UNIX);
row_harness!(c19_name_unix_tstp, 19, CHECK_UNIX);
row_harness!(c19_name_unix_ttin, 20, CHECK_UNIX);
row_harness!(c19_name_unix_ttou, 21, CHECK_UNIX);
row_harness!(c19_name_unix_urg, 22, CHECK_UNIX);
row_harness!(c19_name_unix_xcpu, 23, CHECK_UNIX);
row_harness!(c19_name_unix_xfsz, 24, CHECK_UNIX);
row_harness!(c19_name_unix_vtalrm, 25, CHECK_UNIX);
row_harness!(c19_name_unix_prof, 26, CHECK_UNIX);
row_harness!(c19_name_unix_winch, 27, CHECK_UNIX);
row_harness!(c19_name_unix_io, 28, CHECK_UNIX);
row_harness!(c19_name_unix_pwr, 29, CHECK_UNIX);
row_harness!(c19_name_unix_sys, 30, CHECK_UNIX);

// `FromStr`: one harness per platform signal (three spellings x every letter case).
row_harness!(c19_name_fromstr_hup, 0, CHECK_FROMSTR);
row_harness!(c19_name_fromstr_int, 1, CHECK_FROMSTR);
row_harness!(c19_name_fromstr_quit, 2, CHECK_FROMSTR);
row_harness!(c19_name_fromstr_ill, 3, CHECK_FROMSTR);
row_harness!(c19_name_fromstr_trap, 4, CHECK_FROMSTR);
row_harness!(c19_name_fromstr_abrt, 5, CHECK_FROMSTR);
row_harness!(c19_name_fromstr_bus, 6, CHECK_FROMSTR);
row_harness!(c19_name_fromstr_fpe, 7, CHECK_FROMSTR);
row_harness!(c19_name_fromstr_kill, 8, CHECK_FROMSTR);
row_harness!(c19_name_fromstr_usr1, 9, CHECK_FROMSTR);
row_harness!(c19_name_fromstr_segv, 10, CHECK_FROMSTR);
row_harness!(c19_name_fromstr_usr2, 11, CHECK_FROMSTR);
row_harness!(c19_name_fromstr_pipe, 12, CHECK_FROMSTR);
row_harness!(c19_name_fromstr_alrm, 13, CHECK_FROMSTR);
row_harness!(c19_name_fromstr_term, 14, CHECK_FROMSTR);
row_harness!(c19_name_fromstr_stkflt, 15, CHECK_FROMSTR);
row_harness!(c19_name_fromstr_chld, 16, CHECK_FROMSTR);
row_harness!(c19_name_fromstr_cont, 17, CHECK_FROMSTR);
row_harness!(c19_name_fromstr_stop, 18, CHECK_FROMSTR | DEEP_COVER);
row_harness!(c19_name_fromstr_tstp, 19, CHECK_FROMSTR);
row_harness!(c19_name_fromstr_ttin, 20, CHECK_FROMSTR);
row_harness!(c19_name_fromstr_ttou, 21, CHECK_FROMSTR);
row_harness!(c19_name_fromstr_urg, 22, CHECK_FROMSTR);
row_harness!(c19_name_fromstr_xcpu, 23, CHECK_FROMSTR);
row_harness!(c19_name_fromstr_xfsz, 24, CHECK_FROMSTR);
row_harness!(c19_name_fromstr_vtalrm, 25, CHECK_FROMSTR);
row_harness!(c19_name_fromstr_prof, 26, CHECK_FROMSTR);
row_harness!(c19_name_fromstr_winch, 27, CHECK_FROMSTR);
row_harness!(c19_name_fromstr_io, 28, CHECK_FROMSTR);
row_harness!(c19_name_fromstr_pwr, 29, CHECK_FROMSTR);
row_harness!(c19_name_fromstr_sys, 30, CHECK_FROMSTR);
