#!/bin/bash
# usage: ./run.sh <module>::<harness> [timeout-secs]   (one cbmc at a time, 10 GB)
h="$1"; t="${2:-900}"; n="${h##*::}"
cd /verif/harness/cli && cp /repo/Cargo.lock . && \
( ulimit -v 10000000; CARGO_NET_OFFLINE=true /usr/bin/time -v timeout "$t" cargo kani --harness "$h" --exact -Z stubbing -Z unstable-options \
  --target-dir /verif/.target/cli \
  --cbmc-args --max-field-sensitivity-array-size 1024 ) > /tmp/cli-$n.log 2>&1
grep -n "VERIFICATION:-\|Runtime Symex\|variables, .* clauses\|Runtime decision\|\*\* .* failed\|Status: \(FAILURE\|ERROR\|UNSATISFIED\|UNREACHABLE\)\|SATISFIED\|unwinding assertion\|Elapsed (wall\|Maximum resident\|^error\|Verification Time" /tmp/cli-$n.log | grep -v "Status: SUCCESS" | grep -v "Status: UNREACHABLE" | grep -v "variables, .* clauses\|Runtime decision" | head -40; grep "variables, .* clauses" /tmp/cli-$n.log | tail -1; grep -c "Runtime decision" /tmp/cli-$n.log
