#!/bin/bash
# same as run.sh but WITHOUT concrete playback (no traces): quick look at which checks fail
h="$1"; t="${2:-900}"; n="${h##*::}"
cd /verif/harness/cli && cp /repo/Cargo.lock . && \
( ulimit -v 10000000; CARGO_NET_OFFLINE=true /usr/bin/time -v timeout "$t" cargo kani --harness "$h" --exact -Z stubbing -Z unstable-options \
  --target-dir /verif/.target/cli --cbmc-args --max-field-sensitivity-array-size 1024 ) > /tmp/cli-$n.np.log 2>&1
grep -n "VERIFICATION:-\|Runtime Symex\|\*\* .* failed\|Status: \(FAILURE\|ERROR\|UNSATISFIED\|SATISFIED\)\|Elapsed (wall\|Maximum resident\|^error\|Verification Time" /tmp/cli-$n.np.log | head -40
grep -n "Failed Checks" /tmp/cli-$n.np.log | head -20; grep "variables, .* clauses" /tmp/cli-$n.np.log | tail -1
