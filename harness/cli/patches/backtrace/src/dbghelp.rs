//! A module to assist in managing dbghelp bindings on Windows
//!
//! Backtraces on Windows (at least for MSVC) are largely powered through
//! `dbghelp.dll` and the various functions that it contains. These functions
//! are currently loaded *dynamically* rather than linking to `dbghelp.dll`
//! statically. This is currently done by the standard library (and is in theory
//! required there), but is an effort to help reduce the static dll dependencies
//! of a library since backtraces are typically pretty optional. That being
//! said, `dbghelp.dll` almost always successfully loads on Windows.
//!
//! Note though that since we're loading all this support dynamically we can't
//! actually use the raw definitions in `windows_sys`, but rather we need to define
//! the function pointer types ourselves and use that. We don't really want to
//! be in the business of duplicating auto-generated bindings, so we assert that all bindings match
//! those in `windows_sys.rs`.
//!
//! Finally, you'll note here that the dll for `dbghelp.dll` is never unloaded,
//! and that's currently intentional. The thinking is that we can globally cache
//! it and use it between calls to the API, avoiding expensive loads/unloads. If
//! this is a problem for leak detectors or something like that we can cross the
//! bridge when we get there.

#![allow(non_snake_case)]

use alloc::vec::Vec;

use super::windows_sys::*;
use core::ffi::c_void;
use core::mem;
use core::ptr;
use core::slice;

// This is used when we're double-checking function signatures against windows-sys.
#[inline(always)]
fn assert_equal_types<T>(a: T, _b: T) -> T {
    a
}

// This macro is used to define a `Dbghelp` structure which internally contains
// all the function pointers that we might load.
macro_rules! dbghelp {
    (extern "system" {
        $(fn $name:ident($($arg:ident: $argty:ty),*) -> $ret: ty;)*
    }) => (
        pub struct Dbghelp {
            /// The loaded DLL for `dbghelp.dll`
            dll: HINSTANCE,

            // Each function pointer for each function we might use
            $($name: usize,)*
        }

        static mut DBGHELP: Dbghelp = Dbghelp {
            // Initially we haven't loaded the DLL
            dll: ptr::null_mut(),
            // Initially all functions are set to zero to say they need to be
            // dynamically loaded.
            $($name: 0,)*
        };

        // Convenience typedef for each function type.
        $(pub type $name = unsafe extern "system" fn($($argty),*) -> $ret;)*

        impl Dbghelp {
            /// Attempts to open `dbghelp.dll`. Returns success if it works or
            /// error if `LoadLibraryW` fails.
            ///
            /// Panics if library is already loaded.
            fn ensure_open(&mut self) -> Result<(), ()> {
                if !self.dll.is_null() {
                    return Ok(())
                }
                let lib = b"dbghelp.dll\0";
                unsafe {
                    self.dll = LoadLibraryA(lib.as_ptr());
                    if self.dll.is_null() {
                        Err(())
                    }  else {
                        Ok(())
                    }
                }
            }

            // Function for each method we'd like to use. When called it will
            // either read the cached function pointer or load it and return the
            // loaded value. Loads are asserted to succeed.
            $(pub fn $name(&mut self) -> Option<$name> {
                unsafe {
                    if self.$name == 0 {
                        let name = concat!(stringify!($name), "\0");
                        self.$name = self.symbol(name.as_bytes())?;
                    }
                    let ret = mem::transmute::<usize, $name>(self.$name);
                    assert_equal_types(ret, super::windows_sys::$name);
                    Some(ret)
                }
            })*

            fn symbol(&self, symbol: &[u8]) -> Option<usize> {
                unsafe {
                    GetProcAddress(self.dll, symbol.as_ptr()).map(|address|address as usize)
                }
            }
        }

        // Convenience proxy to use the cleanup locks to reference dbghelp
        // functions.
        #[allow(dead_code)]
        impl Init {
            $(pub fn $name(&self) -> $name {
                unsafe {
                    DBGHELP.$name().unwrap()
                }
            })*

            pub fn dbghelp(&self) -> *mut Dbghelp {
                #[allow(unused_unsafe)]
                unsafe { ptr::addr_of_mut!(DBGHELP) }
            }
        }
    )

}

dbghelp! {
    extern "system" {
        fn SymGetOptions() -> u32;
        fn SymSetOptions(options: u32) -> u32;
        fn SymInitializeW(
            handle: HANDLE,
            path: PCWSTR,
            invade: BOOL
        ) -> BOOL;
        fn SymGetSearchPathW(
            hprocess: HANDLE,
            searchpatha: PWSTR,
            searchpathlength: u32
        ) -> BOOL;
        fn SymSetSearchPathW(
            hprocess: HANDLE,
            searchpatha: PCWSTR
        ) -> BOOL;
        fn EnumerateLoadedModulesW64(
            hprocess: HANDLE,
            enumloadedmodulescallback: PENUMLOADED_MODULES_CALLBACKW64,
            usercontext: *const c_void
        ) -> BOOL;
        fn StackWalk64(
            MachineType: u32,
            hProcess: HANDLE,
            hThread: HANDLE,
            StackFrame: *mut STACKFRAME64,
            ContextRecord: *mut c_void,
            ReadMemoryRoutine: PREAD_PROCESS_MEMORY_ROUTINE64,
            FunctionTableAccessRoutine: PFUNCTION_TABLE_ACCESS_ROUTINE64,
            GetModuleBaseRoutine: PGET_MODULE_BASE_ROUTINE64,
            TranslateAddress: PTRANSLATE_ADDRESS_ROUTINE64
        ) -> BOOL;
        fn SymFunctionTableAccess64(
            hProcess: HANDLE,
            AddrBase: u64
        ) -> *mut c_void;
        fn SymGetModuleBase64(
            hProcess: HANDLE,
            AddrBase: u64
        ) -> u64;
        fn SymFromAddrW(
            hProcess: HANDLE,
            Address: u64,
            Displacement: *mut u64,
            Symbol: *mut SYMBOL_INFOW
        ) -> BOOL;
        fn SymGetLineFromAddrW64(
            hProcess: HANDLE,
            dwAddr: u64,
            pdwDisplacement: *mut u32,
            Line: *mut IMAGEHLP_LINEW64
        ) -> BOOL;
        fn StackWalkEx(
            MachineType: u32,
            hProcess: HANDLE,
            hThread: HANDLE,
            StackFrame: *mut STACKFRAME_EX,
            ContextRecord: *mut c_void,
            ReadMemoryRoutine: PREAD_PROCESS_MEMORY_ROUTINE64,
            FunctionTableAccessRoutine: PFUNCTION_TABLE_ACCESS_ROUTINE64,
            GetModuleBaseRoutine: PGET_MODULE_BASE_ROUTINE64,
            TranslateAddress: PTRANSLATE_ADDRESS_ROUTINE64,
            Flags: u32
        ) -> BOOL;
        fn SymFromInlineContextW(
            hProcess: HANDLE,
            Address: u64,
            InlineContext: u32,
            Displacement: *mut u64,
            Symbol: *mut SYMBOL_INFOW
        ) -> BOOL;
        fn SymGetLineFromInlineContextW(
            hProcess: HANDLE,
            dwAddr: u64,
            InlineContext: u32,
            qwModuleBaseAddress: u64,
            pdwDisplacement: *mut u32,
            Line: *mut IMAGEHLP_LINEW64
        ) -> BOOL;
        fn SymAddrIncludeInlineTrace(
            hProcess: HANDLE,
            Address: u64
        ) -> u32;
        fn SymQueryInlineTrace(
            hProcess: HANDLE,
            StartAddress: u64,
            StartContext: u32,
            StartRetAddress: u64,
            CurAddress: u64,
            CurContext: *mut u32,
            CurFrameIndex: *mut u32
        ) -> BOOL;
    }
}

pub struct Init {
    lock: HANDLE,
}

/// Initialize all support necessary to access `dbghelp` API functions from this
/// crate.
///
/// Note that this function is **safe**, it internally has its own
/// synchronization. Also note that it is safe to call this function multiple
/// times recursively.
pub fn init() -> Result<Init, ()> {
    use core::sync::atomic::{AtomicPtr, Ordering::SeqCst};

    // Helper function for generating a name that's unique to the process.
    fn mutex_name() -> [u8; 33] {
        let mut name: [u8; 33] = *b"Local\\RustBacktraceMutex00000000\0";
        let mut id = unsafe { GetCurrentProcessId() };
        // Quick and dirty no alloc u32 to hex.
        let mut index = name.len() - 1;
        while id > 0 {
            name[index - 1] = match (id & 0xF) as u8 {
                h @ 0..=9 => b'0' + h,
                h => b'A' + (h - 10),
            };
            id >>= 4;
            index -= 1;
        }
        name
    }

    unsafe {
        // First thing we need to do is to synchronize this function. This can
        // be called concurrently from other threads or recursively within one
        // thread. Note that it's trickier than that though because what we're
        // using here, `dbghelp`, *also* needs to be synchronized with all other
        // callers to `dbghelp` in this process.
        //
        // Typically there aren't really that many calls to `dbghelp` within the
        // same process and we can probably safely assume that we're the only
        // ones accessing it. There is, however, one primary other user we have
        // to worry about which is ironically ourselves, but in the standard
        // library. The Rust standard library depends on this crate for
        // backtrace support, and this crate also exists on crates.io. This
        // means that if the standard library is printing a panic backtrace it
        // may race with this crate coming from crates.io, causing segfaults.
        //
        // To help solve this synchronization problem we employ a
        // Windows-specific trick here (it is, after all, a Windows-specific
        // restriction about synchronization). We create a *session-local* named
        // mutex to protect this call. The intention here is that the standard
        // library and this crate don't have to share Rust-level APIs to
        // synchronize here but can instead work behind the scenes to make sure
        // they're synchronizing with one another. That way when this function
        // is called through the standard library or through crates.io we can be
        // sure that the same mutex is being acquired.
        //
        // So all of that is to say that the first thing we do here is we
        // atomically create a `HANDLE` which is a named mutex on Windows. We
        // synchronize a bit with other threads sharing this function
        // specifically and ensure that only one handle is created per instance
        // of this function. Note that the handle is never closed once it's
        // stored in the global.
        //
        // After we've actually go the lock we simply acquire it, and our `Init`
        // handle we hand out will be responsible for dropping it eventually.
        static LOCK: AtomicPtr<c_void> = AtomicPtr::new(ptr::null_mut());
        let mut lock = LOCK.load(SeqCst);
        if lock.is_null() {
            let name = mutex_name();
            lock = CreateMutexA(ptr::null_mut(), FALSE, name.as_ptr());
            if lock.is_null() {
                return Err(());
            }
            if let Err(other) = LOCK.compare_exchange(ptr::null_mut(), lock, SeqCst, SeqCst) {
                debug_assert!(!other.is_null());
                CloseHandle(lock);
                lock = other;
            }
        }
        debug_assert!(!lock.is_null());
        let r = WaitForSingleObjectEx(lock, INFINITE, FALSE);
        debug_assert_eq!(r, 0);
        let ret = Init { lock };

        // Ok, phew! Now that we're all safely synchronized, let's actually
        // start processing everything. First up we need to ensure that
        // `dbghelp.dll` is actually loaded in this process. We do this
        // dynamically to avoid a static dependency. This has historically been
        // done to work around weird linking issues and is intended at making
        // binaries a bit more portable since this is largely just a debugging
        // utility.
        //
        // Once we've opened `dbghelp.dll` we need to call some initialization
        // functions in it, and that's detailed more below. We only do this
        // once, though, so we've got a global boolean indicating whether we're
        // done yet or not.
        DBGHELP.ensure_open()?;

        static mut INITIALIZED: bool = false;
        if !INITIALIZED {
            set_optional_options();
            INITIALIZED = true;
        }
        Ok(ret)
    }
}
fn set_optional_options() -> Option<()> {
    unsafe {
        let orig = DBGHELP.SymGetOptions()?();

        // Ensure that the `SYMOPT_DEFERRED_LOADS` flag is set, because
        // according to MSVC's own docs about this: "This is the fastest, most
        // efficient way to use the symbol handler.", so let's do that!
        DBGHELP.SymSetOptions()?(orig | SYMOPT_DEFERRED_LOADS);

        // Actually initialize symbols with MSVC. Note that this can fail, but we
        // ignore it. There's not a ton of prior art for this per se, but LLVM
        // internally seems to ignore the return value here and one of the
        // sanitizer libraries in LLVM prints a scary warning if this fails but
        // basically ignores it in the long run.
        //
        // One case this comes up a lot for Rust is that the standard library and
        // this crate on crates.io both want to compete for `SymInitializeW`. The
        // standard library historically wanted to initialize then cleanup most of
        // the time, but now that it's using this crate it means that someone will
        // get to initialization first and the other will pick up that
        // initialization.
        DBGHELP.SymInitializeW()?(GetCurrentProcess(), ptr::null_mut(), TRUE);

        // The default search path for dbghelp will only look in the current working
        // directory and (possibly) `_NT_SYMBOL_PATH` and `_NT_ALT_SYMBOL_PATH`.
        // However, we also want to look in the directory of the executable
        // and each DLL that is loaded. To do this, we need to update the search path
        // to include these directories.
        //
        // See https://learn.microsoft.com/cpp/build/reference/pdbpath for an
        // example of where symbols are usually searched for.
        let mut search_path_buf = Vec::new();
        search_path_buf.resize(1024, 0);

        // Prefill the buffer with the current search path.
        if DBGHELP.SymGetSearchPathW()?(
            GetCurrentProcess(),
            search_path_buf.as_mut_ptr(),
            search_path_buf.len() as _,
        ) == TRUE
        {
            // Trim the buffer to the actual length of the string.
            let len = lstrlenW(search_path_buf.as_mut_ptr());
            assert!(len >= 0);
            search_path_buf.truncate(len as usize);
        } else {
            // If getting the search path fails, at least include the current directory.
            search_path_buf.clear();
            search_path_buf.push(utf16_char('.'));
            search_path_buf.push(utf16_char(';'));
        }

        let mut search_path = SearchPath::new(search_path_buf);

        // Update the search path to include the directory of the executable and each DLL.
        DBGHELP.EnumerateLoadedModulesW64()?(
            GetCurrentProcess(),
            Some(enum_loaded_modules_callback),
            ((&mut search_path) as *mut SearchPath) as *mut c_void,
        );

        let new_search_path = search_path.finalize();

        // Set the new search path.
        DBGHELP.SymSetSearchPathW()?(GetCurrentProcess(), new_search_path.as_ptr());
    }
    Some(())
}

struct SearchPath {
    search_path_utf16: Vec<u16>,
}

fn utf16_char(c: char) -> u16 {
    let buf = &mut [0u16; 2];
    let buf = c.encode_utf16(buf);
    assert!(buf.len() == 1);
    buf[0]
}

impl SearchPath {
    fn new(initial_search_path: Vec<u16>) -> Self {
        Self {
            search_path_utf16: initial_search_path,
        }
    }

    /// Add a path to the search path if it is not already present.
    fn add(&mut self, path: &[u16]) {
        let sep = utf16_char(';');

        // We could deduplicate in a case-insensitive way, but case-sensitivity
        // can be configured by directory on Windows, so let's not do that.
        // https://learn.microsoft.com/windows/wsl/case-sensitivity
        if !self
            .search_path_utf16
            .split(|&c| c == sep)
            .any(|p| p == path)
        {
            if self.search_path_utf16.last() != Some(&sep) {
                self.search_path_utf16.push(sep);
            }
            self.search_path_utf16.extend_from_slice(path);
        }
    }

    fn finalize(mut self) -> Vec<u16> {
        // Add a null terminator.
        self.search_path_utf16.push(0);
        self.search_path_utf16
    }
}

extern "system" fn enum_loaded_modules_callback(
    module_name: PCWSTR,
    _: u64,
    _: u32,
    user_context: *const c_void,
) -> BOOL {
    // `module_name` is an absolute path like `C:\path\to\module.dll`
    // or `C:\path\to\module.exe`
    let len: usize = unsafe { lstrlenW(module_name).try_into().unwrap() };

    if len == 0 {
        // This should not happen, but if it does, we can just ignore it.
        return TRUE;
    }

    let module_name = unsafe { slice::from_raw_parts(module_name, len) };
    let path_sep = utf16_char('\\');
    let alt_path_sep = utf16_char('/');

    let Some(end_of_directory) = module_name
        .iter()
        .rposition(|&c| c == path_sep || c == alt_path_sep)
    else {
        // `module_name` being an absolute path, it should always contain at least one
        // path separator. If not, there is nothing we can do.
        return TRUE;
    };

    let search_path = unsafe { &mut *(user_context as *mut SearchPath) };
    search_path.add(&module_name[..end_of_directory]);

    TRUE
}

impl Drop for Init {
    fn drop(&mut self) {
        unsafe {
            let r = ReleaseMutex(self.lock);
            debug_assert!(r != 0);
        }
    }
}
