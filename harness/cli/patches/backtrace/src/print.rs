#[cfg(feature = "std")]
use super::{BacktraceFrame, BacktraceSymbol};
use super::{BytesOrWideString, Frame, SymbolName};
use core::ffi::c_void;
use core::fmt;

const HEX_WIDTH: usize = 2 + 2 * core::mem::size_of::<usize>();

#[cfg(target_os = "fuchsia")]
mod fuchsia;

/// A formatter for backtraces.
///
/// This type can be used to print a backtrace regardless of where the backtrace
/// itself comes from. If you have a `Backtrace` type then its `Debug`
/// implementation already uses this printing format.
pub struct BacktraceFmt<'a, 'b> {
    fmt: &'a mut fmt::Formatter<'b>,
    frame_index: usize,
    format: PrintFmt,
    print_path:
        &'a mut (dyn FnMut(&mut fmt::Formatter<'_>, BytesOrWideString<'_>) -> fmt::Result + 'b),
}

/// The styles of printing that we can print
#[derive(Copy, Clone, Eq, PartialEq)]
#[non_exhaustive]
pub enum PrintFmt {
    /// Prints a terser backtrace which ideally only contains relevant information
    Short,
    /// Prints a backtrace that contains all possible information
    Full,
}

impl<'a, 'b> BacktraceFmt<'a, 'b> {
    /// Create a new `BacktraceFmt` which will write output to the provided
    /// `fmt`.
    ///
    /// The `format` argument will control the style in which the backtrace is
    /// printed, and the `print_path` argument will be used to print the
    /// `BytesOrWideString` instances of filenames. This type itself doesn't do
    /// any printing of filenames, but this callback is required to do so.
    pub fn new(
        fmt: &'a mut fmt::Formatter<'b>,
        format: PrintFmt,
        print_path: &'a mut (dyn FnMut(&mut fmt::Formatter<'_>, BytesOrWideString<'_>) -> fmt::Result
                     + 'b),
    ) -> Self {
        BacktraceFmt {
            fmt,
            frame_index: 0,
            format,
            print_path,
        }
    }

    /// Prints a preamble for the backtrace about to be printed.
    ///
    /// This is required on some platforms for backtraces to be fully
    /// symbolicated later, and otherwise this should just be the first method
    /// you call after creating a `BacktraceFmt`.
    pub fn add_context(&mut self) -> fmt::Result {
        #[cfg(target_os = "fuchsia")]
        fuchsia::print_dso_context(self.fmt)?;
        Ok(())
    }

    /// Adds a frame to the backtrace output.
    ///
    /// This commit returns an RAII instance of a `BacktraceFrameFmt` which can be used
    /// to actually print a frame, and on destruction it will increment the
    /// frame counter.
    pub fn frame(&mut self) -> BacktraceFrameFmt<'_, 'a, 'b> {
        BacktraceFrameFmt {
            fmt: self,
            symbol_index: 0,
        }
    }

    /// Completes the backtrace output.
    ///
    /// This is currently a no-op but is added for future compatibility with
    /// backtrace formats.
    pub fn finish(&mut self) -> fmt::Result {
        #[cfg(target_os = "fuchsia")]
        fuchsia::finish_context(self.fmt)?;
        Ok(())
    }

    /// Inserts a message in the backtrace output.
    ///
    /// This allows information to be inserted between frames,
    /// and won't increment the `frame_index` unlike the `frame`
    /// method.
    pub fn message(&mut self, msg: &str) -> fmt::Result {
        self.fmt.write_str(msg)
    }

    /// Return the inner formatter.
    ///
    /// This is used for writing custom information between frames with `write!` and `writeln!`,
    /// and won't increment the `frame_index` unlike the `frame` method.
    pub fn formatter(&mut self) -> &mut fmt::Formatter<'b> {
        self.fmt
    }
}

/// A formatter for just one frame of a backtrace.
///
/// This type is created by the `BacktraceFmt::frame` function.
pub struct BacktraceFrameFmt<'fmt, 'a, 'b> {
    fmt: &'fmt mut BacktraceFmt<'a, 'b>,
    symbol_index: usize,
}

impl BacktraceFrameFmt<'_, '_, '_> {
    /// Prints a `BacktraceFrame` with this frame formatter.
    ///
    /// This will recursively print all `BacktraceSymbol` instances within the
    /// `BacktraceFrame`.
    ///
    /// # Required features
    ///
    /// This function requires the `std` feature of the `backtrace` crate to be
    /// enabled, and the `std` feature is enabled by default.
    #[cfg(feature = "std")]
    pub fn backtrace_frame(&mut self, frame: &BacktraceFrame) -> fmt::Result {
        let symbols = frame.symbols();
        for symbol in symbols {
            self.backtrace_symbol(frame, symbol)?;
        }
        if symbols.is_empty() {
            self.print_raw(frame.ip(), None, None, None)?;
        }
        Ok(())
    }

    /// Prints a `BacktraceSymbol` within a `BacktraceFrame`.
    ///
    /// # Required features
    ///
    /// This function requires the `std` feature of the `backtrace` crate to be
    /// enabled, and the `std` feature is enabled by default.
    #[cfg(feature = "std")]
    pub fn backtrace_symbol(
        &mut self,
        frame: &BacktraceFrame,
        symbol: &BacktraceSymbol,
    ) -> fmt::Result {
        self.print_raw_with_column(
            frame.ip(),
            symbol.name(),
            // TODO: this isn't great that we don't end up printing anything
            // with non-utf8 filenames. Thankfully almost everything is utf8 so
            // this shouldn't be too bad.
            symbol
                .filename()
                .and_then(|p| Some(BytesOrWideString::Bytes(p.to_str()?.as_bytes()))),
            symbol.lineno(),
            symbol.colno(),
        )?;
        Ok(())
    }

    /// Prints a raw traced `Frame` and `Symbol`, typically from within the raw
    /// callbacks of this crate.
    pub fn symbol(&mut self, frame: &Frame, symbol: &super::Symbol) -> fmt::Result {
        self.print_raw_with_column(
            frame.ip(),
            symbol.name(),
            symbol.filename_raw(),
            symbol.lineno(),
            symbol.colno(),
        )?;
        Ok(())
    }

    /// Adds a raw frame to the backtrace output.
    ///
    /// This method, unlike the previous, takes the raw arguments in case
    /// they're being source from different locations. Note that this may be
    /// called multiple times for one frame.
    pub fn print_raw(
        &mut self,
        frame_ip: *mut c_void,
        symbol_name: Option<SymbolName<'_>>,
        filename: Option<BytesOrWideString<'_>>,
        lineno: Option<u32>,
    ) -> fmt::Result {
        self.print_raw_with_column(frame_ip, symbol_name, filename, lineno, None)
    }

    /// Adds a raw frame to the backtrace output, including column information.
    ///
    /// This method, like the previous, takes the raw arguments in case
    /// they're being source from different locations. Note that this may be
    /// called multiple times for one frame.
    pub fn print_raw_with_column(
        &mut self,
        frame_ip: *mut c_void,
        symbol_name: Option<SymbolName<'_>>,
        filename: Option<BytesOrWideString<'_>>,
        lineno: Option<u32>,
        colno: Option<u32>,
    ) -> fmt::Result {
        // Fuchsia is unable to symbolize within a process so it has a special
        // format which can be used to symbolize later. Print that instead of
        // printing addresses in our own format here.
        if cfg!(target_os = "fuchsia") {
            self.print_raw_fuchsia(frame_ip)?;
        } else {
            self.print_raw_generic(frame_ip, symbol_name, filename, lineno, colno)?;
        }
        self.symbol_index += 1;
        Ok(())
    }

    #[allow(unused_mut)]
    fn print_raw_generic(
        &mut self,
        frame_ip: *mut c_void,
        symbol_name: Option<SymbolName<'_>>,
        filename: Option<BytesOrWideString<'_>>,
        lineno: Option<u32>,
        colno: Option<u32>,
    ) -> fmt::Result {
        // No need to print "null" frames, it basically just means that the
        // system backtrace was a bit eager to trace back super far.
        if let PrintFmt::Short = self.fmt.format {
            if frame_ip.is_null() {
                return Ok(());
            }
        }

        // Print the index of the frame as well as the optional instruction
        // pointer of the frame. If we're beyond the first symbol of this frame
        // though we just print appropriate whitespace.
        if self.symbol_index == 0 {
            write!(self.fmt.fmt, "{:4}: ", self.fmt.frame_index)?;
            if let PrintFmt::Full = self.fmt.format {
                write!(self.fmt.fmt, "{frame_ip:HEX_WIDTH$?} - ")?;
            }
        } else {
            write!(self.fmt.fmt, "      ")?;
            if let PrintFmt::Full = self.fmt.format {
                write!(self.fmt.fmt, "{:1$}", "", HEX_WIDTH + 3)?;
            }
        }

        // Next up write out the symbol name, using the alternate formatting for
        // more information if we're a full backtrace. Here we also handle
        // symbols which don't have a name,
        match (symbol_name, &self.fmt.format) {
            (Some(name), PrintFmt::Short) => write!(self.fmt.fmt, "{name:#}")?,
            (Some(name), PrintFmt::Full) => write!(self.fmt.fmt, "{name}")?,
            (None, _) => write!(self.fmt.fmt, "<unknown>")?,
        }
        self.fmt.fmt.write_str("\n")?;

        // And last up, print out the filename/line number if they're available.
        if let (Some(file), Some(line)) = (filename, lineno) {
            self.print_fileline(file, line, colno)?;
        }

        Ok(())
    }

    fn print_fileline(
        &mut self,
        file: BytesOrWideString<'_>,
        line: u32,
        colno: Option<u32>,
    ) -> fmt::Result {
        // Filename/line are printed on lines under the symbol name, so print
        // some appropriate whitespace to sort of right-align ourselves.
        if let PrintFmt::Full = self.fmt.format {
            write!(self.fmt.fmt, "{:1$}", "", HEX_WIDTH)?;
        }
        write!(self.fmt.fmt, "             at ")?;

        // Delegate to our internal callback to print the filename and then
        // print out the line number.
        (self.fmt.print_path)(self.fmt.fmt, file)?;
        write!(self.fmt.fmt, ":{line}")?;

        // Add column number, if available.
        if let Some(colno) = colno {
            write!(self.fmt.fmt, ":{colno}")?;
        }

        write!(self.fmt.fmt, "\n")?;
        Ok(())
    }

    fn print_raw_fuchsia(&mut self, frame_ip: *mut c_void) -> fmt::Result {
        // We only care about the first symbol of a frame
        if self.symbol_index == 0 {
            self.fmt.fmt.write_str("{{{bt:")?;
            write!(self.fmt.fmt, "{}:{:?}", self.fmt.frame_index, frame_ip)?;
            self.fmt.fmt.write_str("}}}\n")?;
        }
        Ok(())
    }
}

impl Drop for BacktraceFrameFmt<'_, '_, '_> {
    fn drop(&mut self) {
        self.fmt.frame_index += 1;
    }
}
