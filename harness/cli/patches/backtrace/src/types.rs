//! Platform dependent types.

cfg_if::cfg_if! {
    if #[cfg(feature = "std")] {
        use std::borrow::Cow;
        use std::fmt;
        use std::path::PathBuf;
        use std::prelude::v1::*;
        use std::str;
    }
}

/// A platform independent representation of a string. When working with `std`
/// enabled it is recommended to the convenience methods for providing
/// conversions to `std` types.
#[derive(Debug)]
pub enum BytesOrWideString<'a> {
    /// A slice, typically provided on Unix platforms.
    Bytes(&'a [u8]),
    /// Wide strings typically from Windows.
    Wide(&'a [u16]),
}

#[cfg(feature = "std")]
impl<'a> BytesOrWideString<'a> {
    /// Lossy converts to a `Cow<str>`, will allocate if `Bytes` is not valid
    /// UTF-8 or if `BytesOrWideString` is `Wide`.
    ///
    /// # Required features
    ///
    /// This function requires the `std` feature of the `backtrace` crate to be
    /// enabled, and the `std` feature is enabled by default.
    pub fn to_str_lossy(&self) -> Cow<'a, str> {
        use self::BytesOrWideString::*;

        match self {
            &Bytes(slice) => String::from_utf8_lossy(slice),
            &Wide(wide) => Cow::Owned(String::from_utf16_lossy(wide)),
        }
    }

    /// Provides a `Path` representation of `BytesOrWideString`.
    ///
    /// # Required features
    ///
    /// This function requires the `std` feature of the `backtrace` crate to be
    /// enabled, and the `std` feature is enabled by default.
    pub fn into_path_buf(self) -> PathBuf {
        #[cfg(unix)]
        {
            use std::ffi::OsStr;
            use std::os::unix::ffi::OsStrExt;

            if let BytesOrWideString::Bytes(slice) = self {
                return PathBuf::from(OsStr::from_bytes(slice));
            }
        }

        #[cfg(windows)]
        {
            use std::ffi::OsString;
            use std::os::windows::ffi::OsStringExt;

            if let BytesOrWideString::Wide(slice) = self {
                return PathBuf::from(OsString::from_wide(slice));
            }
        }

        if let BytesOrWideString::Bytes(b) = self {
            if let Ok(s) = str::from_utf8(b) {
                return PathBuf::from(s);
            }
        }
        core::unreachable!() // vh-cli: kani overrides `unreachable!`, ambiguous with #[macro_use] extern crate std
    }
}

#[cfg(feature = "std")]
impl<'a> fmt::Display for BytesOrWideString<'a> {
    fn fmt(&self, f: &mut fmt::Formatter<'_>) -> fmt::Result {
        self.to_str_lossy().fmt(f)
    }
}
