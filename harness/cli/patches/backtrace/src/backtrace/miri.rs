use alloc::boxed::Box;
use alloc::vec::Vec;
use core::ffi::c_void;

extern "Rust" {
    fn miri_backtrace_size(flags: u64) -> usize;
    fn miri_get_backtrace(flags: u64, buf: *mut *mut ());
    fn miri_resolve_frame(ptr: *mut (), flags: u64) -> MiriFrame;
    fn miri_resolve_frame_names(ptr: *mut (), flags: u64, name_buf: *mut u8, filename_buf: *mut u8);
}

#[repr(C)]
pub struct MiriFrame {
    pub name_len: usize,
    pub filename_len: usize,
    pub lineno: u32,
    pub colno: u32,
    pub fn_ptr: *mut c_void,
}

#[derive(Clone, Debug)]
pub struct FullMiriFrame {
    pub name: Box<[u8]>,
    pub filename: Box<[u8]>,
    pub lineno: u32,
    pub colno: u32,
    pub fn_ptr: *mut c_void,
}

#[derive(Debug, Clone)]
pub struct Frame {
    pub addr: *mut c_void,
    pub inner: FullMiriFrame,
}

// SAFETY: Miri guarantees that the returned pointer
// can be used from any thread.
unsafe impl Send for Frame {}
unsafe impl Sync for Frame {}

impl Frame {
    pub fn ip(&self) -> *mut c_void {
        self.addr
    }

    pub fn sp(&self) -> *mut c_void {
        core::ptr::null_mut()
    }

    pub fn symbol_address(&self) -> *mut c_void {
        self.inner.fn_ptr
    }

    pub fn module_base_address(&self) -> Option<*mut c_void> {
        None
    }
}

pub fn trace<F: FnMut(&super::Frame) -> bool>(cb: F) {
    // SAFETY: Miri guarantees that the backtrace API functions
    // can be called from any thread.
    unsafe { trace_unsynchronized(cb) };
}

pub fn resolve_addr(ptr: *mut c_void) -> Frame {
    // SAFETY: Miri will stop execution with an error if this pointer
    // is invalid.
    let frame = unsafe { miri_resolve_frame(ptr.cast::<()>(), 1) };

    let mut name = Vec::with_capacity(frame.name_len);
    let mut filename = Vec::with_capacity(frame.filename_len);

    // SAFETY: name and filename have been allocated with the amount
    // of memory miri has asked for, and miri guarantees it will initialize it
    unsafe {
        miri_resolve_frame_names(
            ptr.cast::<()>(),
            0,
            name.as_mut_ptr(),
            filename.as_mut_ptr(),
        );

        name.set_len(frame.name_len);
        filename.set_len(frame.filename_len);
    }

    Frame {
        addr: ptr,
        inner: FullMiriFrame {
            name: name.into(),
            filename: filename.into(),
            lineno: frame.lineno,
            colno: frame.colno,
            fn_ptr: frame.fn_ptr,
        },
    }
}

unsafe fn trace_unsynchronized<F: FnMut(&super::Frame) -> bool>(mut cb: F) {
    let len = miri_backtrace_size(0);

    let mut frames = Vec::with_capacity(len);

    miri_get_backtrace(1, frames.as_mut_ptr());

    frames.set_len(len);

    for ptr in frames.iter() {
        let frame = resolve_addr((*ptr).cast::<c_void>());
        if !cb(&super::Frame { inner: frame }) {
            return;
        }
    }
}
