//! Backtrace strategy for Windows `x86_64` and `aarch64` platforms.
//!
//! This module contains the ability to capture a backtrace on Windows using
//!  `RtlVirtualUnwind` to walk the stack one frame at a time. This function is much faster than using
//! `dbghelp!StackWalk*` because it does not load debug info to report inlined frames.
//! We still report inlined frames during symbolization by consulting the appropriate
//! `dbghelp` functions.

#![allow(bad_style)]

use super::super::windows_sys::*;
use core::ffi::c_void;

#[derive(Clone, Copy)]
pub struct Frame {
    base_address: *mut c_void,
    ip: *mut c_void,
    sp: *mut c_void,
    #[cfg(not(target_env = "gnu"))]
    inline_context: Option<u32>,
}

// we're just sending around raw pointers and reading them, never interpreting
// them so this should be safe to both send and share across threads.
unsafe impl Send for Frame {}
unsafe impl Sync for Frame {}

impl Frame {
    pub fn ip(&self) -> *mut c_void {
        self.ip
    }

    pub fn sp(&self) -> *mut c_void {
        self.sp
    }

    pub fn symbol_address(&self) -> *mut c_void {
        self.ip
    }

    pub fn module_base_address(&self) -> Option<*mut c_void> {
        Some(self.base_address)
    }

    #[cfg(not(target_env = "gnu"))]
    pub fn inline_context(&self) -> Option<u32> {
        self.inline_context
    }
}

#[repr(C, align(16))] // required by `CONTEXT`, is a FIXME in windows metadata right now
struct MyContext(CONTEXT);

#[cfg(any(target_arch = "x86_64", target_arch = "arm64ec"))]
impl MyContext {
    #[inline(always)]
    fn ip(&self) -> u64 {
        self.0.Rip
    }

    #[inline(always)]
    fn sp(&self) -> u64 {
        self.0.Rsp
    }
}

#[cfg(target_arch = "aarch64")]
impl MyContext {
    #[inline(always)]
    fn ip(&self) -> usize {
        self.0.Pc as usize
    }

    #[inline(always)]
    fn sp(&self) -> usize {
        self.0.Sp as usize
    }
}

#[cfg(any(
    target_arch = "x86_64",
    target_arch = "aarch64",
    target_arch = "arm64ec"
))]
#[inline(always)]
pub unsafe fn trace(cb: &mut dyn FnMut(&super::Frame) -> bool) {
    use core::ptr;

    // Capture the initial context to start walking from.
    let mut context = core::mem::zeroed::<MyContext>();
    RtlCaptureContext(&mut context.0);

    loop {
        let ip = context.ip();

        // The base address of the module containing the function will be stored here
        // when RtlLookupFunctionEntry returns successfully.
        let mut base = 0;
        let fn_entry = RtlLookupFunctionEntry(ip, &mut base, ptr::null_mut());
        if fn_entry.is_null() {
            // No function entry could be found - this may indicate a corrupt
            // stack or that a binary was unloaded (amongst other issues). Stop
            // walking and don't call the callback as we can't be confident in
            // this frame or the rest of the stack.
            break;
        }

        let frame = super::Frame {
            inner: Frame {
                base_address: base as *mut c_void,
                ip: ip as *mut c_void,
                sp: context.sp() as *mut c_void,
                #[cfg(not(target_env = "gnu"))]
                inline_context: None,
            },
        };

        // We've loaded all the info about the current frame, so now call the
        // callback.
        if !cb(&frame) {
            // Callback told us to stop, so we're done.
            break;
        }

        // Unwind to the next frame.
        let previous_ip = ip;
        let previous_sp = context.sp();
        let mut handler_data = 0usize;
        let mut establisher_frame = 0;
        RtlVirtualUnwind(
            0,
            base,
            ip,
            fn_entry,
            &mut context.0,
            ptr::addr_of_mut!(handler_data).cast::<*mut c_void>(),
            &mut establisher_frame,
            ptr::null_mut(),
        );

        // RtlVirtualUnwind indicates the end of the stack in two different ways:
        // * On x64, it sets the instruction pointer to 0.
        // * On ARM64, it leaves the context unchanged (easiest way to check is
        //   to see if the instruction and stack pointers are the same).
        // If we detect either of these, then unwinding is completed.
        let ip = context.ip();
        if ip == 0 || (ip == previous_ip && context.sp() == previous_sp) {
            break;
        }
    }
}
