use core::ffi::c_void;
use core::fmt;

/// Inspects the current call-stack, passing all active frames into the closure
/// provided to calculate a stack trace.
///
/// This function is the workhorse of this library in calculating the stack
/// traces for a program. The given closure `cb` is yielded instances of a
/// `Frame` which represent information about that call frame on the stack. The
/// closure is yielded frames in a top-down fashion (most recently called
/// functions first).
///
/// The closure's return value is an indication of whether the backtrace should
/// continue. A return value of `false` will terminate the backtrace and return
/// immediately.
///
/// Once a `Frame` is acquired you will likely want to call `backtrace::resolve`
/// to convert the `ip` (instruction pointer) or symbol address to a `Symbol`
/// through which the name and/or filename/line number can be learned.
///
/// Note that this is a relatively low-level function and if you'd like to, for
/// example, capture a backtrace to be inspected later, then the `Backtrace`
/// type may be more appropriate.
///
/// # Required features
///
/// This function requires the `std` feature of the `backtrace` crate to be
/// enabled, and the `std` feature is enabled by default.
///
/// # Panics
///
/// This function strives to never panic, but if the `cb` provided panics then
/// some platforms will force a double panic to abort the process. Some
/// platforms use a C library which internally uses callbacks which cannot be
/// unwound through, so panicking from `cb` may trigger a process abort.
///
/// # Example
///
/// ```
/// extern crate backtrace;
///
/// fn main() {
///     backtrace::trace(|frame| {
///         // ...
///
///         true // continue the backtrace
///     });
/// }
/// ```
#[cfg(feature = "std")]
pub fn trace<F: FnMut(&Frame) -> bool>(cb: F) {
    let _guard = crate::lock::lock();
    unsafe { trace_unsynchronized(cb) }
}

/// Same as `trace`, only unsafe as it's unsynchronized.
///
/// This function does not have synchronization guarantees but is available
/// when the `std` feature of this crate isn't compiled in. See the `trace`
/// function for more documentation and examples.
///
/// # Panics
///
/// See information on `trace` for caveats on `cb` panicking.
pub unsafe fn trace_unsynchronized<F: FnMut(&Frame) -> bool>(mut cb: F) {
    trace_imp(&mut cb)
}

/// A trait representing one frame of a backtrace, yielded to the `trace`
/// function of this crate.
///
/// The tracing function's closure will be yielded frames, and the frame is
/// virtually dispatched as the underlying implementation is not always known
/// until runtime.
#[derive(Clone)]
pub struct Frame {
    pub(crate) inner: FrameImp,
}

impl Frame {
    /// Returns the current instruction pointer of this frame.
    ///
    /// This is normally the next instruction to execute in the frame, but not
    /// all implementations list this with 100% accuracy (but it's generally
    /// pretty close).
    ///
    /// It is recommended to pass this value to `backtrace::resolve` to turn it
    /// into a symbol name.
    pub fn ip(&self) -> *mut c_void {
        self.inner.ip()
    }

    /// Returns the current stack pointer of this frame.
    ///
    /// In the case that a backend cannot recover the stack pointer for this
    /// frame, a null pointer is returned.
    pub fn sp(&self) -> *mut c_void {
        self.inner.sp()
    }

    /// Returns the starting symbol address of the frame of this function.
    ///
    /// This will attempt to rewind the instruction pointer returned by `ip` to
    /// the start of the function, returning that value. In some cases, however,
    /// backends will just return `ip` from this function.
    ///
    /// The returned value can sometimes be used if `backtrace::resolve` failed
    /// on the `ip` given above.
    pub fn symbol_address(&self) -> *mut c_void {
        self.inner.symbol_address()
    }

    /// Returns the base address of the module to which the frame belongs.
    pub fn module_base_address(&self) -> Option<*mut c_void> {
        self.inner.module_base_address()
    }
}

impl fmt::Debug for Frame {
    fn fmt(&self, f: &mut fmt::Formatter<'_>) -> fmt::Result {
        f.debug_struct("Frame")
            .field("ip", &self.ip())
            .field("symbol_address", &self.symbol_address())
            .finish()
    }
}

#[cfg(all(target_env = "sgx", target_vendor = "fortanix"))]
mod sgx_image_base {

    #[cfg(not(feature = "std"))]
    pub(crate) mod imp {
        use core::ffi::c_void;
        use core::sync::atomic::{AtomicUsize, Ordering::SeqCst};

        static IMAGE_BASE: AtomicUsize = AtomicUsize::new(0);

        /// Set the image base address. This is only available for Fortanix SGX
        /// target when the `std` feature is not enabled. This can be used in the
        /// standard library to set the correct base address.
        #[doc(hidden)]
        pub fn set_image_base(base_addr: *mut c_void) {
            IMAGE_BASE.store(base_addr as _, SeqCst);
        }

        pub(crate) fn get_image_base() -> *mut c_void {
            IMAGE_BASE.load(SeqCst) as _
        }
    }

    #[cfg(feature = "std")]
    mod imp {
        use core::ffi::c_void;

        pub(crate) fn get_image_base() -> *mut c_void {
            std::os::fortanix_sgx::mem::image_base() as _
        }
    }

    pub(crate) use imp::get_image_base;
}

#[cfg(all(target_env = "sgx", target_vendor = "fortanix", not(feature = "std")))]
pub use sgx_image_base::imp::set_image_base;

cfg_if::cfg_if! {
    // This needs to come first, to ensure that
    // Miri takes priority over the host platform
    if #[cfg(miri)] {
        pub(crate) mod miri;
        use self::miri::trace as trace_imp;
        pub(crate) use self::miri::Frame as FrameImp;
    } else if #[cfg(
        any(
            all(
                unix,
                not(target_os = "emscripten"),
                not(all(target_os = "ios", target_arch = "arm")),
            ),
            all(
                target_env = "sgx",
                target_vendor = "fortanix",
            ),
        )
    )] {
        mod libunwind;
        use self::libunwind::trace as trace_imp;
        pub(crate) use self::libunwind::Frame as FrameImp;
    } else if #[cfg(all(windows, not(target_vendor = "uwp")))] {
        cfg_if::cfg_if! {
            if #[cfg(any(target_arch = "x86_64", target_arch = "aarch64", target_arch = "arm64ec"))] {
                mod dbghelp64;
                use dbghelp64 as dbghelp;
            } else if #[cfg(any(target_arch = "x86", target_arch = "arm"))] {
                mod dbghelp32;
                use dbghelp32 as dbghelp;
            }
        }
        use self::dbghelp::trace as trace_imp;
        pub(crate) use self::dbghelp::Frame as FrameImp;
    } else {
        mod noop;
        use self::noop::trace as trace_imp;
        pub(crate) use self::noop::Frame as FrameImp;
    }
}
