//! Backtrace strategy for Windows platforms.
//!
//! This module contains the ability to generate a backtrace on Windows using one
//! of two possible methods. The `StackWalkEx` function is primarily used if
//! possible, but not all systems have that. Failing that the `StackWalk64`
//! function is used instead. Note that `StackWalkEx` is favored because it
//! handles debuginfo internally and returns inline frame information.
//!
//! Note that all dbghelp support is loaded dynamically, see `src/dbghelp.rs`
//! for more information about that.

#![allow(bad_style)]

use super::super::{dbghelp, windows_sys::*};
use core::ffi::c_void;
use core::mem;

#[derive(Clone, Copy)]
pub enum StackFrame {
    New(STACKFRAME_EX),
    Old(STACKFRAME64),
}

#[derive(Clone, Copy)]
pub struct Frame {
    pub(crate) stack_frame: StackFrame,
    base_address: *mut c_void,
}

// we're just sending around raw pointers and reading them, never interpreting
// them so this should be safe to both send and share across threads.
unsafe impl Send for Frame {}
unsafe impl Sync for Frame {}

impl Frame {
    pub fn ip(&self) -> *mut c_void {
        self.addr_pc().Offset as *mut _
    }

    pub fn sp(&self) -> *mut c_void {
        self.addr_stack().Offset as *mut _
    }

    pub fn symbol_address(&self) -> *mut c_void {
        self.ip()
    }

    pub fn module_base_address(&self) -> Option<*mut c_void> {
        Some(self.base_address)
    }

    #[cfg(not(target_env = "gnu"))]
    pub fn inline_context(&self) -> Option<u32> {
        match self.stack_frame {
            StackFrame::New(ref new) => Some(new.InlineFrameContext),
            StackFrame::Old(_) => None,
        }
    }

    fn addr_pc(&self) -> &ADDRESS64 {
        match self.stack_frame {
            StackFrame::New(ref new) => &new.AddrPC,
            StackFrame::Old(ref old) => &old.AddrPC,
        }
    }

    fn addr_pc_mut(&mut self) -> &mut ADDRESS64 {
        match self.stack_frame {
            StackFrame::New(ref mut new) => &mut new.AddrPC,
            StackFrame::Old(ref mut old) => &mut old.AddrPC,
        }
    }

    fn addr_frame_mut(&mut self) -> &mut ADDRESS64 {
        match self.stack_frame {
            StackFrame::New(ref mut new) => &mut new.AddrFrame,
            StackFrame::Old(ref mut old) => &mut old.AddrFrame,
        }
    }

    fn addr_stack(&self) -> &ADDRESS64 {
        match self.stack_frame {
            StackFrame::New(ref new) => &new.AddrStack,
            StackFrame::Old(ref old) => &old.AddrStack,
        }
    }

    fn addr_stack_mut(&mut self) -> &mut ADDRESS64 {
        match self.stack_frame {
            StackFrame::New(ref mut new) => &mut new.AddrStack,
            StackFrame::Old(ref mut old) => &mut old.AddrStack,
        }
    }
}

#[repr(C, align(16))] // required by `CONTEXT`, is a FIXME in windows metadata right now
struct MyContext(CONTEXT);

#[inline(always)]
pub unsafe fn trace(cb: &mut dyn FnMut(&super::Frame) -> bool) {
    // Allocate necessary structures for doing the stack walk
    let process = GetCurrentProcess();
    let thread = GetCurrentThread();

    let mut context = mem::zeroed::<MyContext>();
    RtlCaptureContext(&mut context.0);

    // Ensure this process's symbols are initialized
    let dbghelp = match dbghelp::init() {
        Ok(dbghelp) => dbghelp,
        Err(()) => return, // oh well...
    };

    // On x86_64 and ARM64 we opt to not use the default `Sym*` functions from
    // dbghelp for getting the function table and module base. Instead we use
    // the `RtlLookupFunctionEntry` function in kernel32 which will account for
    // JIT compiler frames as well. These should be equivalent, but using
    // `Rtl*` allows us to backtrace through JIT frames.
    //
    // Note that `RtlLookupFunctionEntry` only works for in-process backtraces,
    // but that's all we support anyway, so it all lines up well.
    let function_table_access = dbghelp.SymFunctionTableAccess64();
    let get_module_base = dbghelp.SymGetModuleBase64();

    let process_handle = GetCurrentProcess();

    // Attempt to use `StackWalkEx` if we can, but fall back to `StackWalk64`
    // since it's in theory supported on more systems.
    match (*dbghelp.dbghelp()).StackWalkEx() {
        Some(StackWalkEx) => {
            let mut inner: STACKFRAME_EX = mem::zeroed();
            inner.StackFrameSize = mem::size_of::<STACKFRAME_EX>() as u32;
            let mut frame = super::Frame {
                inner: Frame {
                    stack_frame: StackFrame::New(inner),
                    base_address: 0 as _,
                },
            };
            let image = init_frame(&mut frame.inner, &context.0);
            let frame_ptr = match &mut frame.inner.stack_frame {
                StackFrame::New(ptr) => ptr as *mut STACKFRAME_EX,
                _ => unreachable!(),
            };

            while StackWalkEx(
                image as u32,
                process,
                thread,
                frame_ptr,
                &mut context.0 as *mut CONTEXT as *mut _,
                None,
                Some(function_table_access),
                Some(get_module_base),
                None,
                0,
            ) == TRUE
            {
                frame.inner.base_address = get_module_base(process_handle, frame.ip() as _) as _;

                if !cb(&frame) {
                    break;
                }
            }
        }
        None => {
            let mut frame = super::Frame {
                inner: Frame {
                    stack_frame: StackFrame::Old(mem::zeroed()),
                    base_address: 0 as _,
                },
            };
            let image = init_frame(&mut frame.inner, &context.0);
            let frame_ptr = match &mut frame.inner.stack_frame {
                StackFrame::Old(ptr) => ptr as *mut STACKFRAME64,
                _ => unreachable!(),
            };

            while dbghelp.StackWalk64()(
                image as u32,
                process,
                thread,
                frame_ptr,
                &mut context.0 as *mut CONTEXT as *mut _,
                None,
                Some(function_table_access),
                Some(get_module_base),
                None,
            ) == TRUE
            {
                frame.inner.base_address = get_module_base(process_handle, frame.ip() as _) as _;

                if !cb(&frame) {
                    break;
                }
            }
        }
    }
}

#[cfg(target_arch = "x86")]
fn init_frame(frame: &mut Frame, ctx: &CONTEXT) -> u16 {
    frame.addr_pc_mut().Offset = ctx.Eip as u64;
    frame.addr_pc_mut().Mode = AddrModeFlat;
    frame.addr_stack_mut().Offset = ctx.Esp as u64;
    frame.addr_stack_mut().Mode = AddrModeFlat;
    frame.addr_frame_mut().Offset = ctx.Ebp as u64;
    frame.addr_frame_mut().Mode = AddrModeFlat;

    IMAGE_FILE_MACHINE_I386
}

#[cfg(target_arch = "arm")]
fn init_frame(frame: &mut Frame, ctx: &CONTEXT) -> u16 {
    frame.addr_pc_mut().Offset = ctx.Pc as u64;
    frame.addr_pc_mut().Mode = AddrModeFlat;
    frame.addr_stack_mut().Offset = ctx.Sp as u64;
    frame.addr_stack_mut().Mode = AddrModeFlat;
    unsafe {
        frame.addr_frame_mut().Offset = ctx.R11 as u64;
    }
    frame.addr_frame_mut().Mode = AddrModeFlat;
    IMAGE_FILE_MACHINE_ARMNT
}
