//! Backtrace support using libunwind/gcc_s/etc APIs.
//!
//! This module contains the ability to unwind the stack using libunwind-style
//! APIs. Note that there's a whole bunch of implementations of the
//! libunwind-like API, and this is just trying to be compatible with most of
//! them all at once instead of being picky.
//!
//! The libunwind API is powered by `_Unwind_Backtrace` and is in practice very
//! reliable at generating a backtrace. It's not entirely clear how it does it
//! (frame pointers? eh_frame info? both?) but it seems to work!
//!
//! Most of the complexity of this module is handling the various platform
//! differences across libunwind implementations. Otherwise this is a pretty
//! straightforward Rust binding to the libunwind APIs.
//!
//! This is the default unwinding API for all non-Windows platforms currently.

use core::ffi::c_void;
use core::ptr::addr_of_mut;

pub enum Frame {
    Raw(*mut uw::_Unwind_Context),
    Cloned {
        ip: *mut c_void,
        sp: *mut c_void,
        symbol_address: *mut c_void,
    },
}

// With a raw libunwind pointer it should only ever be access in a readonly
// threadsafe fashion, so it's `Sync`. When sending to other threads via `Clone`
// we always switch to a version which doesn't retain interior pointers, so we
// should be `Send` as well.
unsafe impl Send for Frame {}
unsafe impl Sync for Frame {}

impl Frame {
    pub fn ip(&self) -> *mut c_void {
        let ctx = match *self {
            Frame::Raw(ctx) => ctx,
            Frame::Cloned { ip, .. } => return ip,
        };
        #[allow(unused_mut)]
        let mut ip = unsafe { uw::_Unwind_GetIP(ctx) as *mut c_void };

        // To reduce TCB size in SGX enclaves, we do not want to implement
        // symbol resolution functionality. Rather, we can print the offset of
        // the address here, which could be later mapped to correct function.
        #[cfg(all(target_env = "sgx", target_vendor = "fortanix"))]
        {
            let image_base = super::sgx_image_base::get_image_base();
            ip = usize::wrapping_sub(ip as usize, image_base as _) as _;
        }
        ip
    }

    pub fn sp(&self) -> *mut c_void {
        match *self {
            Frame::Raw(ctx) => unsafe { uw::get_sp(ctx) as *mut c_void },
            Frame::Cloned { sp, .. } => sp,
        }
    }

    pub fn symbol_address(&self) -> *mut c_void {
        if let Frame::Cloned { symbol_address, .. } = *self {
            return symbol_address;
        }

        // The macOS linker emits a "compact" unwind table that only includes an
        // entry for a function if that function either has an LSDA or its
        // encoding differs from that of the previous entry.  Consequently, on
        // macOS, `_Unwind_FindEnclosingFunction` is unreliable (it can return a
        // pointer to some totally unrelated function).  Instead, we just always
        // return the ip.
        //
        // https://github.com/rust-lang/rust/issues/74771#issuecomment-664056788
        //
        // Note the `skip_inner_frames.rs` test is skipped on macOS due to this
        // clause, and if this is fixed that test in theory can be run on macOS!
        if cfg!(target_vendor = "apple") {
            self.ip()
        } else {
            unsafe { uw::_Unwind_FindEnclosingFunction(self.ip()) }
        }
    }

    pub fn module_base_address(&self) -> Option<*mut c_void> {
        None
    }
}

impl Clone for Frame {
    fn clone(&self) -> Frame {
        Frame::Cloned {
            ip: self.ip(),
            sp: self.sp(),
            symbol_address: self.symbol_address(),
        }
    }
}

struct Bomb {
    enabled: bool,
}

impl Drop for Bomb {
    fn drop(&mut self) {
        if self.enabled {
            panic!("cannot panic during the backtrace function");
        }
    }
}

#[inline(always)]
pub unsafe fn trace(mut cb: &mut dyn FnMut(&super::Frame) -> bool) {
    uw::_Unwind_Backtrace(trace_fn, addr_of_mut!(cb).cast());

    extern "C" fn trace_fn(
        ctx: *mut uw::_Unwind_Context,
        arg: *mut c_void,
    ) -> uw::_Unwind_Reason_Code {
        let cb = unsafe { &mut *arg.cast::<&mut dyn FnMut(&super::Frame) -> bool>() };
        let cx = super::Frame {
            inner: Frame::Raw(ctx),
        };

        let mut bomb = Bomb { enabled: true };
        let keep_going = cb(&cx);
        bomb.enabled = false;

        if keep_going {
            uw::_URC_NO_REASON
        } else {
            uw::_URC_FAILURE
        }
    }
}

/// Unwind library interface used for backtraces
///
/// Note that dead code is allowed as here are just bindings
/// iOS doesn't use all of them it but adding more
/// platform-specific configs pollutes the code too much
#[allow(non_camel_case_types)]
#[allow(non_snake_case)]
#[allow(dead_code)]
mod uw {
    pub use self::_Unwind_Reason_Code::*;

    use core::ffi::c_void;

    #[repr(C)]
    pub enum _Unwind_Reason_Code {
        _URC_NO_REASON = 0,
        _URC_FOREIGN_EXCEPTION_CAUGHT = 1,
        _URC_FATAL_PHASE2_ERROR = 2,
        _URC_FATAL_PHASE1_ERROR = 3,
        _URC_NORMAL_STOP = 4,
        _URC_END_OF_STACK = 5,
        _URC_HANDLER_FOUND = 6,
        _URC_INSTALL_CONTEXT = 7,
        _URC_CONTINUE_UNWIND = 8,
        _URC_FAILURE = 9, // used only by ARM EABI
    }

    pub enum _Unwind_Context {}

    pub type _Unwind_Trace_Fn =
        extern "C" fn(ctx: *mut _Unwind_Context, arg: *mut c_void) -> _Unwind_Reason_Code;

    extern "C" {
        pub fn _Unwind_Backtrace(
            trace: _Unwind_Trace_Fn,
            trace_argument: *mut c_void,
        ) -> _Unwind_Reason_Code;
    }

    cfg_if::cfg_if! {
        // available since GCC 4.2.0, should be fine for our purpose
        if #[cfg(all(
            not(all(target_os = "android", target_arch = "arm")),
            not(all(target_os = "freebsd", target_arch = "arm")),
            not(all(target_os = "linux", target_arch = "arm")),
            not(all(target_os = "horizon", target_arch = "arm")),
            not(all(target_os = "vita", target_arch = "arm")),
        ))] {
            extern "C" {
                pub fn _Unwind_GetIP(ctx: *mut _Unwind_Context) -> libc::uintptr_t;
                pub fn _Unwind_FindEnclosingFunction(pc: *mut c_void) -> *mut c_void;

                #[cfg(not(all(target_os = "linux", target_arch = "s390x")))]
                // This function is a misnomer: rather than getting this frame's
                // Canonical Frame Address (aka the caller frame's SP) it
                // returns this frame's SP.
                //
                // https://github.com/libunwind/libunwind/blob/d32956507cf29d9b1a98a8bce53c78623908f4fe/src/unwind/GetCFA.c#L28-L35
                #[link_name = "_Unwind_GetCFA"]
                pub fn get_sp(ctx: *mut _Unwind_Context) -> libc::uintptr_t;

            }

            // s390x uses a biased CFA value, therefore we need to use
            // _Unwind_GetGR to get the stack pointer register (%r15)
            // instead of relying on _Unwind_GetCFA.
            #[cfg(all(target_os = "linux", target_arch = "s390x"))]
            pub unsafe fn get_sp(ctx: *mut _Unwind_Context) -> libc::uintptr_t {
                extern "C" {
                    pub fn _Unwind_GetGR(ctx: *mut _Unwind_Context, index: libc::c_int) -> libc::uintptr_t;
                }
                _Unwind_GetGR(ctx, 15)
            }
        } else {
            use core::ptr::addr_of_mut;

            // On android and arm, the function `_Unwind_GetIP` and a bunch of
            // others are macros, so we define functions containing the
            // expansion of the macros.
            //
            // TODO: link to the header file that defines these macros, if you
            // can find it. (I, fitzgen, cannot find the header file that some
            // of these macro expansions were originally borrowed from.)
            #[repr(C)]
            enum _Unwind_VRS_Result {
                _UVRSR_OK = 0,
                _UVRSR_NOT_IMPLEMENTED = 1,
                _UVRSR_FAILED = 2,
            }
            #[repr(C)]
            enum _Unwind_VRS_RegClass {
                _UVRSC_CORE = 0,
                _UVRSC_VFP = 1,
                _UVRSC_FPA = 2,
                _UVRSC_WMMXD = 3,
                _UVRSC_WMMXC = 4,
            }
            #[repr(C)]
            enum _Unwind_VRS_DataRepresentation {
                _UVRSD_UINT32 = 0,
                _UVRSD_VFPX = 1,
                _UVRSD_FPAX = 2,
                _UVRSD_UINT64 = 3,
                _UVRSD_FLOAT = 4,
                _UVRSD_DOUBLE = 5,
            }

            type _Unwind_Word = libc::c_uint;
            extern "C" {
                fn _Unwind_VRS_Get(
                    ctx: *mut _Unwind_Context,
                    klass: _Unwind_VRS_RegClass,
                    word: _Unwind_Word,
                    repr: _Unwind_VRS_DataRepresentation,
                    data: *mut c_void,
                ) -> _Unwind_VRS_Result;
            }

            pub unsafe fn _Unwind_GetIP(ctx: *mut _Unwind_Context) -> libc::uintptr_t {
                let mut val: _Unwind_Word = 0;
                let ptr = addr_of_mut!(val);
                let _ = _Unwind_VRS_Get(
                    ctx,
                    _Unwind_VRS_RegClass::_UVRSC_CORE,
                    15,
                    _Unwind_VRS_DataRepresentation::_UVRSD_UINT32,
                    ptr.cast::<c_void>(),
                );
                (val & !1) as libc::uintptr_t
            }

            // R13 is the stack pointer on arm.
            const SP: _Unwind_Word = 13;

            pub unsafe fn get_sp(ctx: *mut _Unwind_Context) -> libc::uintptr_t {
                let mut val: _Unwind_Word = 0;
                let ptr = addr_of_mut!(val);
                let _ = _Unwind_VRS_Get(
                    ctx,
                    _Unwind_VRS_RegClass::_UVRSC_CORE,
                    SP,
                    _Unwind_VRS_DataRepresentation::_UVRSD_UINT32,
                    ptr.cast::<c_void>(),
                );
                val as libc::uintptr_t
            }

            // This function also doesn't exist on Android or ARM/Linux, so make it
            // a no-op.
            pub unsafe fn _Unwind_FindEnclosingFunction(pc: *mut c_void) -> *mut c_void {
                pc
            }
        }
    }
}
