//! Empty implementation of unwinding used when no other implementation is
//! appropriate.

use core::ffi::c_void;
use core::ptr::null_mut;

#[inline(always)]
pub fn trace(_cb: &mut dyn FnMut(&super::Frame) -> bool) {}

#[derive(Clone)]
pub struct Frame;

impl Frame {
    pub fn ip(&self) -> *mut c_void {
        null_mut()
    }

    pub fn sp(&self) -> *mut c_void {
        null_mut()
    }

    pub fn symbol_address(&self) -> *mut c_void {
        null_mut()
    }

    pub fn module_base_address(&self) -> Option<*mut c_void> {
        None
    }
}
