use core::fmt::{self, Write};
use core::mem::{size_of, transmute};
use core::slice::from_raw_parts;
use libc::c_char;

extern "C" {
    // dl_iterate_phdr takes a callback that will receive a dl_phdr_info pointer
    // for every DSO that has been linked into the process. dl_iterate_phdr also
    // ensures that the dynamic linker is locked from start to finish of the
    // iteration. If the callback returns a non-zero value the iteration is
    // terminated early. 'data' will be passed as the third argument to the
    // callback on each call. 'size' gives the size of the dl_phdr_info.
    #[allow(improper_ctypes)]
    fn dl_iterate_phdr(
        f: extern "C" fn(info: &dl_phdr_info, size: usize, data: &mut DsoPrinter<'_, '_>) -> i32,
        data: &mut DsoPrinter<'_, '_>,
    ) -> i32;
}

// We need to parse out the build ID and some basic program header data
// which means that we need a bit of stuff from the ELF spec as well.

const PT_LOAD: u32 = 1;
const PT_NOTE: u32 = 4;

// Now we have to replicate, bit for bit, the structure of the dl_phdr_info
// type used by fuchsia's current dynamic linker. Chromium also has this ABI
// boundary as well as crashpad. Eventually we'd like to move these cases to
// use elf-search but we'd need to provide that in the SDK and that has not
// yet been done. Thus we (and they) are stuck having to use this method
// which incurs a tight coupling with the fuchsia libc.

#[allow(non_camel_case_types)]
#[repr(C)]
struct dl_phdr_info {
    addr: *const u8,
    name: *const c_char,
    phdr: *const Elf_Phdr,
    phnum: u16,
    adds: u64,
    subs: u64,
    tls_modid: usize,
    tls_data: *const u8,
}

impl dl_phdr_info {
    fn program_headers(&self) -> PhdrIter<'_> {
        PhdrIter {
            phdrs: self.phdr_slice(),
            base: self.addr,
        }
    }
    // We have no way of knowing of checking if e_phoff and e_phnum are valid.
    // libc should ensure this for us however so it's safe to form a slice here.
    fn phdr_slice(&self) -> &[Elf_Phdr] {
        unsafe { from_raw_parts(self.phdr, self.phnum as usize) }
    }
}

struct PhdrIter<'a> {
    phdrs: &'a [Elf_Phdr],
    base: *const u8,
}

impl<'a> Iterator for PhdrIter<'a> {
    type Item = Phdr<'a>;
    fn next(&mut self) -> Option<Self::Item> {
        self.phdrs.split_first().map(|(phdr, new_phdrs)| {
            self.phdrs = new_phdrs;
            Phdr {
                phdr,
                base: self.base,
            }
        })
    }
}

// Elf_Phdr represents a 64-bit ELF program header in the endianness of the target
// architecture.
#[allow(non_camel_case_types)]
#[derive(Clone, Debug)]
#[repr(C)]
struct Elf_Phdr {
    p_type: u32,
    p_flags: u32,
    p_offset: u64,
    p_vaddr: u64,
    p_paddr: u64,
    p_filesz: u64,
    p_memsz: u64,
    p_align: u64,
}

// Phdr represents a valid ELF program header and its contents.
struct Phdr<'a> {
    phdr: &'a Elf_Phdr,
    base: *const u8,
}

impl<'a> Phdr<'a> {
    // We have no way of checking if p_addr or p_memsz are valid. Fuchsia's libc
    // parses the notes first however so by virtue of being here these headers
    // must be valid. NoteIter does not require the underlying data to be valid
    // but it does require the bounds to be valid. We trust that libc has ensured
    // that this is the case for us here.
    fn notes(&self) -> NoteIter<'a> {
        unsafe {
            NoteIter::new(
                self.base.add(self.phdr.p_offset as usize),
                self.phdr.p_memsz as usize,
            )
        }
    }
}

// The note type for build IDs.
const NT_GNU_BUILD_ID: u32 = 3;

// Elf_Nhdr represents an ELF note header in the endianness of the target.
#[allow(non_camel_case_types)]
#[repr(C)]
struct Elf_Nhdr {
    n_namesz: u32,
    n_descsz: u32,
    n_type: u32,
}

// Note represents an ELF note (header + contents). The name is left as a u8
// slice because it is not always null terminated and rust makes it easy enough
// to check that the bytes match eitherway.
struct Note<'a> {
    name: &'a [u8],
    desc: &'a [u8],
    tipe: u32,
}

// NoteIter lets you safely iterate over a note segment. It terminates as soon
// as an error occurs or there are no more notes. If you iterate over invalid
// data it will function as though no notes were found.
struct NoteIter<'a> {
    base: &'a [u8],
    error: bool,
}

impl<'a> NoteIter<'a> {
    // It is an invariant of function that the pointer and size given denote a
    // valid range of bytes that can all be read. The contents of these bytes
    // can be anything but the range must be valid for this to be safe.
    unsafe fn new(base: *const u8, size: usize) -> Self {
        NoteIter {
            base: from_raw_parts(base, size),
            error: false,
        }
    }
}

// align_to aligns 'x' to 'to'-byte alignment assuming 'to' is a power of 2.
// This follows a standard pattern in C/C++ ELF parsing code where
// (x + to - 1) & -to is used. Rust does not let you negate usize so I use
// 2's-complement conversion to recreate that.
fn align_to(x: usize, to: usize) -> usize {
    (x + to - 1) & (!to + 1)
}

// take_bytes_align4 consumes num bytes from the slice (if present) and
// additionally ensures that the final slice is properlly aligned. If an
// either the number of bytes requested is too large or the slice can't be
// realigned afterwards due to not enough remaining bytes existing, None is
// returned and the slice is not modified.
fn take_bytes_align4<'a>(num: usize, bytes: &mut &'a [u8]) -> Option<&'a [u8]> {
    if bytes.len() < align_to(num, 4) {
        return None;
    }
    let (out, bytes_new) = bytes.split_at(num);
    *bytes = &bytes_new[align_to(num, 4) - num..];
    Some(out)
}

// This function has no real invariants the caller must uphold other than
// perhaps that 'bytes' should be aligned for performance (and on some
// architectures correctness). The values in the Elf_Nhdr fields might
// be nonsense but this function ensures no such thing.
fn take_nhdr<'a>(bytes: &mut &'a [u8]) -> Option<&'a Elf_Nhdr> {
    if size_of::<Elf_Nhdr>() > bytes.len() {
        return None;
    }
    // This is safe as long as there is enough space and we just confirmed that
    // in the if statement above so this should not be unsafe.
    let out = unsafe { transmute::<*const u8, &'a Elf_Nhdr>(bytes.as_ptr()) };
    // Note that sice_of::<Elf_Nhdr>() is always 4-byte aligned.
    *bytes = &bytes[size_of::<Elf_Nhdr>()..];
    Some(out)
}

impl<'a> Iterator for NoteIter<'a> {
    type Item = Note<'a>;
    fn next(&mut self) -> Option<Self::Item> {
        // Check if we've reached the end.
        if self.base.len() == 0 || self.error {
            return None;
        }
        // We transmute out an nhdr but we carefully consider the resulting
        // struct. We don't trust the namesz or descsz and we make no unsafe
        // decisions based on the type. So even if we get out complete garbage
        // we should still be safe.
        let nhdr = take_nhdr(&mut self.base)?;
        let name = take_bytes_align4(nhdr.n_namesz as usize, &mut self.base)?;
        let desc = take_bytes_align4(nhdr.n_descsz as usize, &mut self.base)?;
        Some(Note {
            name: name,
            desc: desc,
            tipe: nhdr.n_type,
        })
    }
}

struct Perm(u32);

/// Indicates that a segment is executable.
const PERM_X: u32 = 0b00000001;
/// Indicates that a segment is writable.
const PERM_W: u32 = 0b00000010;
/// Indicates that a segment is readable.
const PERM_R: u32 = 0b00000100;

impl core::fmt::Display for Perm {
    fn fmt(&self, f: &mut fmt::Formatter<'_>) -> fmt::Result {
        let v = self.0;
        if v & PERM_R != 0 {
            f.write_char('r')?
        }
        if v & PERM_W != 0 {
            f.write_char('w')?
        }
        if v & PERM_X != 0 {
            f.write_char('x')?
        }
        Ok(())
    }
}

/// Represents an ELF segment at runtime.
struct Segment {
    /// Gives the runtime virtual address of this segment's contents.
    addr: usize,
    /// Gives the memory size of this segment's contents.
    size: usize,
    /// Gives the module virtual address of this segment with the ELF file.
    mod_rel_addr: usize,
    /// Gives the permissions found in the ELF file. These permissions are not
    /// necessarily the permissions present at runtime however.
    flags: Perm,
}

/// Lets one iterate over Segments from a DSO.
struct SegmentIter<'a> {
    phdrs: &'a [Elf_Phdr],
    base: usize,
}

impl Iterator for SegmentIter<'_> {
    type Item = Segment;

    fn next(&mut self) -> Option<Self::Item> {
        self.phdrs.split_first().and_then(|(phdr, new_phdrs)| {
            self.phdrs = new_phdrs;
            if phdr.p_type != PT_LOAD {
                self.next()
            } else {
                Some(Segment {
                    addr: phdr.p_vaddr as usize + self.base,
                    size: phdr.p_memsz as usize,
                    mod_rel_addr: phdr.p_vaddr as usize,
                    flags: Perm(phdr.p_flags),
                })
            }
        })
    }
}

/// Represents an ELF DSO (Dynamic Shared Object). This type references
/// the data stored in the actual DSO rather than making its own copy.
struct Dso<'a> {
    /// The dynamic linker always gives us a name, even if the name is empty.
    /// In the case of the main executable this name will be empty. In the case
    /// of a shared object it will be the soname (see DT_SONAME).
    name: &'a str,
    /// On Fuchsia virtually all binaries have build IDs but this is not a strict
    /// requirement. There's no way to match up DSO information with a real ELF
    /// file afterwards if there is no build_id so we require that every DSO
    /// have one here. DSO's without a build_id are ignored.
    build_id: &'a [u8],

    base: usize,
    phdrs: &'a [Elf_Phdr],
}

impl Dso<'_> {
    /// Returns an iterator over Segments in this DSO.
    fn segments(&self) -> SegmentIter<'_> {
        SegmentIter {
            phdrs: self.phdrs.as_ref(),
            base: self.base,
        }
    }
}

struct HexSlice<'a> {
    bytes: &'a [u8],
}

impl fmt::Display for HexSlice<'_> {
    fn fmt(&self, f: &mut fmt::Formatter<'_>) -> fmt::Result {
        for byte in self.bytes {
            write!(f, "{byte:02x}")?;
        }
        Ok(())
    }
}

fn get_build_id<'a>(info: &'a dl_phdr_info) -> Option<&'a [u8]> {
    for phdr in info.program_headers() {
        if phdr.phdr.p_type == PT_NOTE {
            for note in phdr.notes() {
                if note.tipe == NT_GNU_BUILD_ID && (note.name == b"GNU\0" || note.name == b"GNU") {
                    return Some(note.desc);
                }
            }
        }
    }
    None
}

/// These errors encode issues that arise while parsing information about
/// each DSO.
enum Error {
    /// NameError means that an error occurred while converting a C style string
    /// into a rust string.
    NameError,
    /// BuildIDError means that we didn't find a build ID. This could either be
    /// because the DSO had no build ID or because the segment containing the
    /// build ID was malformed.
    BuildIDError,
}

/// Calls either 'dso' or 'error' for each DSO linked into the process by the
/// dynamic linker.
///
/// # Arguments
///
/// * `visitor` - A DsoPrinter that will have one of eats methods called foreach DSO.
fn for_each_dso(mut visitor: &mut DsoPrinter<'_, '_>) {
    extern "C" fn callback(
        info: &dl_phdr_info,
        _size: usize,
        visitor: &mut DsoPrinter<'_, '_>,
    ) -> i32 {
        // dl_iterate_phdr ensures that info.name will point to a valid
        // location.
        let name_len = unsafe { libc::strlen(info.name) };
        let name_slice: &[u8] =
            unsafe { core::slice::from_raw_parts(info.name.cast::<u8>(), name_len) };
        let name = match core::str::from_utf8(name_slice) {
            Ok(name) => name,
            Err(_) => {
                return visitor.error(Error::NameError) as i32;
            }
        };
        let build_id = match get_build_id(info) {
            Some(build_id) => build_id,
            None => {
                return visitor.error(Error::BuildIDError) as i32;
            }
        };
        visitor.dso(Dso {
            name: name,
            build_id: build_id,
            phdrs: info.phdr_slice(),
            base: info.addr as usize,
        }) as i32
    }
    unsafe { dl_iterate_phdr(callback, &mut visitor) };
}

struct DsoPrinter<'a, 'b> {
    writer: &'a mut core::fmt::Formatter<'b>,
    module_count: usize,
    error: core::fmt::Result,
}

impl DsoPrinter<'_, '_> {
    fn dso(&mut self, dso: Dso<'_>) -> bool {
        let mut write = || {
            write!(
                self.writer,
                "{{{{{{module:{:#x}:{}:elf:{}}}}}}}\n",
                self.module_count,
                dso.name,
                HexSlice {
                    bytes: dso.build_id.as_ref()
                }
            )?;
            for seg in dso.segments() {
                write!(
                    self.writer,
                    "{{{{{{mmap:{:#x}:{:#x}:load:{:#x}:{}:{:#x}}}}}}}\n",
                    seg.addr, seg.size, self.module_count, seg.flags, seg.mod_rel_addr
                )?;
            }
            self.module_count += 1;
            Ok(())
        };
        match write() {
            Ok(()) => false,
            Err(err) => {
                self.error = Err(err);
                true
            }
        }
    }
    fn error(&mut self, _error: Error) -> bool {
        false
    }
}

/// This function prints the Fuchsia symbolizer markup for all information contained in a DSO.
pub fn print_dso_context(out: &mut core::fmt::Formatter<'_>) -> core::fmt::Result {
    out.write_str("{{{reset:begin}}}\n")?;
    let mut visitor = DsoPrinter {
        writer: out,
        module_count: 0,
        error: Ok(()),
    };
    for_each_dso(&mut visitor);
    visitor.error
}

/// This function prints the Fuchsia symbolizer markup to end the backtrace.
pub fn finish_context(out: &mut core::fmt::Formatter<'_>) -> core::fmt::Result {
    out.write_str("{{{reset:end}}}\n")
}
