#[cfg(feature = "serde")]
use crate::resolve;
use crate::PrintFmt;
use crate::{resolve_frame, trace, BacktraceFmt, Symbol, SymbolName};
use core::ffi::c_void;
use std::fmt;
use std::path::{Path, PathBuf};
use std::prelude::v1::*;

#[cfg(feature = "serde")]
use serde::{Deserialize, Serialize};

/// Representation of an owned and self-contained backtrace.
///
/// This structure can be used to capture a backtrace at various points in a
/// program and later used to inspect what the backtrace was at that time.
///
/// `Backtrace` supports pretty-printing of backtraces through its `Debug`
/// implementation.
///
/// # Required features
///
/// This function requires the `std` feature of the `backtrace` crate to be
/// enabled, and the `std` feature is enabled by default.
#[derive(Clone)]
#[cfg_attr(feature = "serde", derive(Deserialize, Serialize))]
pub struct Backtrace {
    // Frames here are listed from top-to-bottom of the stack
    frames: Vec<BacktraceFrame>,
}

#[derive(Clone, Copy)]
struct TracePtr(*mut c_void);
/// SAFETY: These pointers are always valid within a process and are not used for mutation.
unsafe impl Send for TracePtr {}
/// SAFETY: These pointers are always valid within a process and are not used for mutation.
unsafe impl Sync for TracePtr {}

impl TracePtr {
    fn into_void(self) -> *mut c_void {
        self.0
    }
    #[cfg(feature = "serde")]
    fn from_addr(addr: usize) -> Self {
        TracePtr(addr as *mut c_void)
    }
}

#[cfg(feature = "serde")]
impl<'de> Deserialize<'de> for TracePtr {
    #[inline]
    fn deserialize<D>(deserializer: D) -> Result<Self, D::Error>
    where
        D: serde::Deserializer<'de>,
    {
        struct PrimitiveVisitor;

        impl<'de> serde::de::Visitor<'de> for PrimitiveVisitor {
            type Value = TracePtr;

            fn expecting(&self, formatter: &mut fmt::Formatter<'_>) -> fmt::Result {
                formatter.write_str("usize")
            }

            #[inline]
            fn visit_u8<E>(self, v: u8) -> Result<Self::Value, E>
            where
                E: serde::de::Error,
            {
                Ok(TracePtr(v as usize as *mut c_void))
            }

            #[inline]
            fn visit_u16<E>(self, v: u16) -> Result<Self::Value, E>
            where
                E: serde::de::Error,
            {
                Ok(TracePtr(v as usize as *mut c_void))
            }

            #[inline]
            fn visit_u32<E>(self, v: u32) -> Result<Self::Value, E>
            where
                E: serde::de::Error,
            {
                if usize::BITS >= 32 {
                    Ok(TracePtr(v as usize as *mut c_void))
                } else {
                    Err(E::invalid_type(
                        serde::de::Unexpected::Unsigned(v as _),
                        &self,
                    ))
                }
            }

            #[inline]
            fn visit_u64<E>(self, v: u64) -> Result<Self::Value, E>
            where
                E: serde::de::Error,
            {
                if usize::BITS >= 64 {
                    Ok(TracePtr(v as usize as *mut c_void))
                } else {
                    Err(E::invalid_type(
                        serde::de::Unexpected::Unsigned(v as _),
                        &self,
                    ))
                }
            }
        }

        deserializer.deserialize_u64(PrimitiveVisitor)
    }
}

#[cfg(feature = "serde")]
impl Serialize for TracePtr {
    #[inline]
    fn serialize<S>(&self, serializer: S) -> Result<S::Ok, S::Error>
    where
        S: serde::ser::Serializer,
    {
        serializer.serialize_u64(self.0 as usize as u64)
    }
}

fn _assert_send_sync() {
    fn _assert<T: Send + Sync>() {}
    _assert::<Backtrace>();
}

/// Captured version of a frame in a backtrace.
///
/// This type is returned as a list from `Backtrace::frames` and represents one
/// stack frame in a captured backtrace.
///
/// # Required features
///
/// This function requires the `std` feature of the `backtrace` crate to be
/// enabled, and the `std` feature is enabled by default.
#[derive(Clone)]
pub struct BacktraceFrame {
    frame: Frame,
    symbols: Option<Vec<BacktraceSymbol>>,
}

#[derive(Clone)]
enum Frame {
    Raw(crate::Frame),
    #[cfg(feature = "serde")]
    Deserialized {
        ip: TracePtr,
        symbol_address: TracePtr,
        module_base_address: Option<TracePtr>,
    },
}

impl Frame {
    fn ip(&self) -> *mut c_void {
        match *self {
            Frame::Raw(ref f) => f.ip(),
            #[cfg(feature = "serde")]
            Frame::Deserialized { ip, .. } => ip.into_void(),
        }
    }

    fn symbol_address(&self) -> *mut c_void {
        match *self {
            Frame::Raw(ref f) => f.symbol_address(),
            #[cfg(feature = "serde")]
            Frame::Deserialized { symbol_address, .. } => symbol_address.into_void(),
        }
    }

    fn module_base_address(&self) -> Option<*mut c_void> {
        match *self {
            Frame::Raw(ref f) => f.module_base_address(),
            #[cfg(feature = "serde")]
            Frame::Deserialized {
                module_base_address,
                ..
            } => module_base_address.map(|addr| addr.into_void()),
        }
    }

    /// Resolve all addresses in the frame to their symbolic names.
    fn resolve_symbols(&self) -> Vec<BacktraceSymbol> {
        let mut symbols = Vec::new();
        let sym = |symbol: &Symbol| {
            symbols.push(BacktraceSymbol {
                name: symbol.name().map(|m| m.as_bytes().to_vec()),
                addr: symbol.addr().map(TracePtr),
                filename: symbol.filename().map(|m| m.to_owned()),
                lineno: symbol.lineno(),
                colno: symbol.colno(),
            });
        };
        match *self {
            Frame::Raw(ref f) => resolve_frame(f, sym),
            #[cfg(feature = "serde")]
            Frame::Deserialized { ip, .. } => {
                resolve(ip.into_void(), sym);
            }
        }
        symbols
    }
}

/// Captured version of a symbol in a backtrace.
///
/// This type is returned as a list from `BacktraceFrame::symbols` and
/// represents the metadata for a symbol in a backtrace.
///
/// # Required features
///
/// This function requires the `std` feature of the `backtrace` crate to be
/// enabled, and the `std` feature is enabled by default.
#[derive(Clone)]
#[cfg_attr(feature = "serde", derive(Deserialize, Serialize))]
pub struct BacktraceSymbol {
    name: Option<Vec<u8>>,
    addr: Option<TracePtr>,
    filename: Option<PathBuf>,
    lineno: Option<u32>,
    colno: Option<u32>,
}

impl Backtrace {
    /// Captures a backtrace at the callsite of this function, returning an
    /// owned representation.
    ///
    /// This function is useful for representing a backtrace as an object in
    /// Rust. This returned value can be sent across threads and printed
    /// elsewhere, and the purpose of this value is to be entirely self
    /// contained.
    ///
    /// Note that on some platforms acquiring a full backtrace and resolving it
    /// can be extremely expensive. If the cost is too much for your application
    /// it's recommended to instead use `Backtrace::new_unresolved()` which
    /// avoids the symbol resolution step (which typically takes the longest)
    /// and allows deferring that to a later date.
    ///
    /// # Examples
    ///
    /// ```
    /// use backtrace::Backtrace;
    ///
    /// let current_backtrace = Backtrace::new();
    /// ```
    ///
    /// # Required features
    ///
    /// This function requires the `std` feature of the `backtrace` crate to be
    /// enabled, and the `std` feature is enabled by default.
    #[inline(never)] // want to make sure there's a frame here to remove
    pub fn new() -> Backtrace {
        let mut bt = Self::create(Self::new as usize);
        bt.resolve();
        bt
    }

    /// Similar to `new` except that this does not resolve any symbols, this
    /// simply captures the backtrace as a list of addresses.
    ///
    /// At a later time the `resolve` function can be called to resolve this
    /// backtrace's symbols into readable names. This function exists because
    /// the resolution process can sometimes take a significant amount of time
    /// whereas any one backtrace may only be rarely printed.
    ///
    /// # Examples
    ///
    /// ```
    /// use backtrace::Backtrace;
    ///
    /// let mut current_backtrace = Backtrace::new_unresolved();
    /// println!("{current_backtrace:?}"); // no symbol names
    /// current_backtrace.resolve();
    /// println!("{current_backtrace:?}"); // symbol names now present
    /// ```
    ///
    /// # Required features
    ///
    /// This function requires the `std` feature of the `backtrace` crate to be
    /// enabled, and the `std` feature is enabled by default.
    #[inline(never)] // want to make sure there's a frame here to remove
    pub fn new_unresolved() -> Backtrace {
        Self::create(Self::new_unresolved as usize)
    }

    fn create(ip: usize) -> Backtrace {
        let mut frames = Vec::new();
        trace(|frame| {
            frames.push(BacktraceFrame {
                frame: Frame::Raw(frame.clone()),
                symbols: None,
            });

            // clear inner frames, and start with call site.
            if frame.symbol_address() as usize == ip {
                frames.clear();
            }

            true
        });
        frames.shrink_to_fit();

        Backtrace { frames }
    }

    /// Returns the frames from when this backtrace was captured.
    ///
    /// The first entry of this slice is likely the function `Backtrace::new`,
    /// and the last frame is likely something about how this thread or the main
    /// function started.
    ///
    /// # Required features
    ///
    /// This function requires the `std` feature of the `backtrace` crate to be
    /// enabled, and the `std` feature is enabled by default.
    pub fn frames(&self) -> &[BacktraceFrame] {
        self.frames.as_slice()
    }

    /// If this backtrace was created from `new_unresolved` then this function
    /// will resolve all addresses in the backtrace to their symbolic names.
    ///
    /// If this backtrace has been previously resolved or was created through
    /// `new`, this function does nothing.
    ///
    /// # Required features
    ///
    /// This function requires the `std` feature of the `backtrace` crate to be
    /// enabled, and the `std` feature is enabled by default.
    pub fn resolve(&mut self) {
        self.frames.iter_mut().for_each(BacktraceFrame::resolve);
    }
}

impl From<Vec<BacktraceFrame>> for Backtrace {
    fn from(frames: Vec<BacktraceFrame>) -> Self {
        Backtrace { frames }
    }
}

impl From<crate::Frame> for BacktraceFrame {
    fn from(frame: crate::Frame) -> Self {
        BacktraceFrame {
            frame: Frame::Raw(frame),
            symbols: None,
        }
    }
}

// we don't want implementing `impl From<Backtrace> for Vec<BacktraceFrame>` on purpose,
// because "... additional directions for Vec<T> can weaken type inference ..."
// more information on https://github.com/rust-lang/backtrace-rs/pull/526
impl Into<Vec<BacktraceFrame>> for Backtrace {
    fn into(self) -> Vec<BacktraceFrame> {
        self.frames
    }
}

impl BacktraceFrame {
    /// Same as `Frame::ip`
    ///
    /// # Required features
    ///
    /// This function requires the `std` feature of the `backtrace` crate to be
    /// enabled, and the `std` feature is enabled by default.
    pub fn ip(&self) -> *mut c_void {
        self.frame.ip()
    }

    /// Same as `Frame::symbol_address`
    ///
    /// # Required features
    ///
    /// This function requires the `std` feature of the `backtrace` crate to be
    /// enabled, and the `std` feature is enabled by default.
    pub fn symbol_address(&self) -> *mut c_void {
        self.frame.symbol_address()
    }

    /// Same as `Frame::module_base_address`
    ///
    /// # Required features
    ///
    /// This function requires the `std` feature of the `backtrace` crate to be
    /// enabled, and the `std` feature is enabled by default.
    pub fn module_base_address(&self) -> Option<*mut c_void> {
        self.frame.module_base_address()
    }

    /// Returns the list of symbols that this frame corresponds to.
    ///
    /// Normally there is only one symbol per frame, but sometimes if a number
    /// of functions are inlined into one frame then multiple symbols will be
    /// returned. The first symbol listed is the "innermost function", whereas
    /// the last symbol is the outermost (last caller).
    ///
    /// Note that if this frame came from an unresolved backtrace then this will
    /// return an empty list.
    ///
    /// # Required features
    ///
    /// This function requires the `std` feature of the `backtrace` crate to be
    /// enabled, and the `std` feature is enabled by default.
    pub fn symbols(&self) -> &[BacktraceSymbol] {
        self.symbols.as_ref().map(|s| &s[..]).unwrap_or(&[])
    }

    /// Resolve all addresses in this frame to their symbolic names.
    ///
    /// If this frame has been previously resolved, this function does nothing.
    ///
    /// # Required features
    ///
    /// This function requires the `std` feature of the `backtrace` crate to be
    /// enabled, and the `std` feature is enabled by default.
    pub fn resolve(&mut self) {
        if self.symbols.is_none() {
            self.symbols = Some(self.frame.resolve_symbols());
        }
    }
}

impl BacktraceSymbol {
    /// Same as `Symbol::name`
    ///
    /// # Required features
    ///
    /// This function requires the `std` feature of the `backtrace` crate to be
    /// enabled, and the `std` feature is enabled by default.
    pub fn name(&self) -> Option<SymbolName<'_>> {
        self.name.as_ref().map(|s| SymbolName::new(s))
    }

    /// Same as `Symbol::addr`
    ///
    /// # Required features
    ///
    /// This function requires the `std` feature of the `backtrace` crate to be
    /// enabled, and the `std` feature is enabled by default.
    pub fn addr(&self) -> Option<*mut c_void> {
        self.addr.map(|s| s.into_void())
    }

    /// Same as `Symbol::filename`
    ///
    /// # Required features
    ///
    /// This function requires the `std` feature of the `backtrace` crate to be
    /// enabled, and the `std` feature is enabled by default.
    pub fn filename(&self) -> Option<&Path> {
        self.filename.as_ref().map(|p| &**p)
    }

    /// Same as `Symbol::lineno`
    ///
    /// # Required features
    ///
    /// This function requires the `std` feature of the `backtrace` crate to be
    /// enabled, and the `std` feature is enabled by default.
    pub fn lineno(&self) -> Option<u32> {
        self.lineno
    }

    /// Same as `Symbol::colno`
    ///
    /// # Required features
    ///
    /// This function requires the `std` feature of the `backtrace` crate to be
    /// enabled, and the `std` feature is enabled by default.
    pub fn colno(&self) -> Option<u32> {
        self.colno
    }
}

impl fmt::Debug for Backtrace {
    fn fmt(&self, fmt: &mut fmt::Formatter<'_>) -> fmt::Result {
        let style = if fmt.alternate() {
            PrintFmt::Full
        } else {
            PrintFmt::Short
        };

        // When printing paths we try to strip the cwd if it exists, otherwise
        // we just print the path as-is. Note that we also only do this for the
        // short format, because if it's full we presumably want to print
        // everything.
        let cwd = std::env::current_dir();
        let mut print_path =
            move |fmt: &mut fmt::Formatter<'_>, path: crate::BytesOrWideString<'_>| {
                let path = path.into_path_buf();
                if style == PrintFmt::Full {
                    if let Ok(cwd) = &cwd {
                        if let Ok(suffix) = path.strip_prefix(cwd) {
                            return fmt::Display::fmt(&suffix.display(), fmt);
                        }
                    }
                }
                fmt::Display::fmt(&path.display(), fmt)
            };

        let mut f = BacktraceFmt::new(fmt, style, &mut print_path);
        f.add_context()?;
        for frame in &self.frames {
            f.frame().backtrace_frame(frame)?;
        }
        f.finish()?;
        Ok(())
    }
}

impl Default for Backtrace {
    fn default() -> Backtrace {
        Backtrace::new()
    }
}

impl fmt::Debug for BacktraceFrame {
    fn fmt(&self, fmt: &mut fmt::Formatter<'_>) -> fmt::Result {
        fmt.debug_struct("BacktraceFrame")
            .field("ip", &self.ip())
            .field("symbol_address", &self.symbol_address())
            .finish()
    }
}

impl fmt::Debug for BacktraceSymbol {
    fn fmt(&self, fmt: &mut fmt::Formatter<'_>) -> fmt::Result {
        fmt.debug_struct("BacktraceSymbol")
            .field("name", &self.name())
            .field("addr", &self.addr())
            .field("filename", &self.filename())
            .field("lineno", &self.lineno())
            .field("colno", &self.colno())
            .finish()
    }
}

#[cfg(feature = "serde")]
mod serde_impls {
    use super::*;
    use serde::de::Deserializer;
    use serde::ser::Serializer;
    use serde::{Deserialize, Serialize};

    #[derive(Serialize, Deserialize)]
    struct SerializedFrame {
        ip: usize,
        symbol_address: usize,
        module_base_address: Option<usize>,
        symbols: Option<Vec<BacktraceSymbol>>,
    }

    impl Serialize for BacktraceFrame {
        fn serialize<S>(&self, s: S) -> Result<S::Ok, S::Error>
        where
            S: Serializer,
        {
            let BacktraceFrame { frame, symbols } = self;
            SerializedFrame {
                ip: frame.ip() as usize,
                symbol_address: frame.symbol_address() as usize,
                module_base_address: frame.module_base_address().map(|sym_a| sym_a as usize),
                symbols: symbols.clone(),
            }
            .serialize(s)
        }
    }

    impl<'a> Deserialize<'a> for BacktraceFrame {
        fn deserialize<D>(d: D) -> Result<Self, D::Error>
        where
            D: Deserializer<'a>,
        {
            let frame: SerializedFrame = SerializedFrame::deserialize(d)?;
            Ok(BacktraceFrame {
                frame: Frame::Deserialized {
                    ip: TracePtr::from_addr(frame.ip),
                    symbol_address: TracePtr::from_addr(frame.symbol_address),
                    module_base_address: frame.module_base_address.map(TracePtr::from_addr),
                },
                symbols: frame.symbols,
            })
        }
    }
}

#[cfg(test)]
mod tests {
    use super::*;

    #[test]
    fn test_frame_conversion() {
        let mut frames = vec![];
        crate::trace(|frame| {
            let converted = BacktraceFrame::from(frame.clone());
            frames.push(converted);
            true
        });

        let mut manual = Backtrace::from(frames);
        manual.resolve();
        let frames = manual.frames();

        for frame in frames {
            println!("{:?}", frame.ip());
            println!("{:?}", frame.symbol_address());
            println!("{:?}", frame.module_base_address());
            println!("{:?}", frame.symbols());
        }
    }
}
