//! Empty symbolication strategy used to compile for platforms that have no
//! support.

use super::{BytesOrWideString, ResolveWhat, SymbolName};
use core::ffi::c_void;
use core::marker;

pub unsafe fn resolve(_addr: ResolveWhat<'_>, _cb: &mut dyn FnMut(&super::Symbol)) {}

pub struct Symbol<'a> {
    _marker: marker::PhantomData<&'a i32>,
}

impl Symbol<'_> {
    pub fn name(&self) -> Option<SymbolName<'_>> {
        None
    }

    pub fn addr(&self) -> Option<*mut c_void> {
        None
    }

    pub fn filename_raw(&self) -> Option<BytesOrWideString<'_>> {
        None
    }

    #[cfg(feature = "std")]
    pub fn filename(&self) -> Option<&::std::path::Path> {
        None
    }

    pub fn lineno(&self) -> Option<u32> {
        None
    }

    pub fn colno(&self) -> Option<u32> {
        None
    }
}

pub unsafe fn clear_symbol_cache() {}
