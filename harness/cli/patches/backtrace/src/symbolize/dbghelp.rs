//! Symbolication strategy using `dbghelp.dll` on Windows, only used for MSVC
//!
//! This symbolication strategy, like with backtraces, uses dynamically loaded
//! information from `dbghelp.dll`. (see `src/dbghelp.rs` for info about why
//! it's dynamically loaded).
//!
//! This API selects its resolution strategy based on the frame provided or the
//! information we have at hand. If a frame from `StackWalkEx` is given to us
//! then we use similar APIs to generate correct information about inlined
//! functions. Otherwise if all we have is an address or an older stack frame
//! from `StackWalk64` we use the older APIs for symbolication.
//!
//! There's a good deal of support in this module, but a good chunk of it is
//! converting back and forth between Windows types and Rust types. For example
//! symbols come to us as wide strings which we then convert to utf-8 strings if
//! we can.

#![allow(bad_style)]

use super::super::{dbghelp, windows_sys::*};
use super::{BytesOrWideString, ResolveWhat, SymbolName};
use core::ffi::c_void;
use core::marker;
use core::mem;
use core::ptr;
use core::slice;

// FIXME: replace with ptr::from_ref once MSRV is high enough
#[inline(always)]
#[must_use]
const fn ptr_from_ref<T: ?Sized>(r: &T) -> *const T {
    r
}

// Store an OsString on std so we can provide the symbol name and filename.
pub struct Symbol<'a> {
    name: *const [u8],
    addr: *mut c_void,
    line: Option<u32>,
    filename: Option<*const [u16]>,
    #[cfg(feature = "std")]
    _filename_cache: Option<::std::ffi::OsString>,
    #[cfg(not(feature = "std"))]
    _filename_cache: (),
    _marker: marker::PhantomData<&'a i32>,
}

impl Symbol<'_> {
    pub fn name(&self) -> Option<SymbolName<'_>> {
        Some(SymbolName::new(unsafe { &*self.name }))
    }

    pub fn addr(&self) -> Option<*mut c_void> {
        Some(self.addr)
    }

    pub fn filename_raw(&self) -> Option<BytesOrWideString<'_>> {
        self.filename
            .map(|slice| unsafe { BytesOrWideString::Wide(&*slice) })
    }

    pub fn colno(&self) -> Option<u32> {
        None
    }

    pub fn lineno(&self) -> Option<u32> {
        self.line
    }

    #[cfg(feature = "std")]
    pub fn filename(&self) -> Option<&::std::path::Path> {
        use std::path::Path;

        self._filename_cache.as_ref().map(Path::new)
    }
}

#[repr(C, align(8))]
struct Aligned8<T>(T);

#[cfg(not(target_vendor = "win7"))]
pub unsafe fn resolve(what: ResolveWhat<'_>, cb: &mut dyn FnMut(&super::Symbol)) {
    // Ensure this process's symbols are initialized
    let dbghelp = match dbghelp::init() {
        Ok(dbghelp) => dbghelp,
        Err(()) => return, // oh well...
    };
    match what {
        ResolveWhat::Address(_) => resolve_with_inline(&dbghelp, what.address_or_ip(), None, cb),
        ResolveWhat::Frame(frame) => {
            resolve_with_inline(&dbghelp, frame.ip(), frame.inner.inline_context(), cb)
        }
    };
}

#[cfg(target_vendor = "win7")]
pub unsafe fn resolve(what: ResolveWhat<'_>, cb: &mut dyn FnMut(&super::Symbol)) {
    // Ensure this process's symbols are initialized
    let dbghelp = match dbghelp::init() {
        Ok(dbghelp) => dbghelp,
        Err(()) => return, // oh well...
    };

    let resolve_inner = if (*dbghelp.dbghelp()).SymAddrIncludeInlineTrace().is_some() {
        // We are on a version of dbghelp 6.2+, which contains the more modern
        // Inline APIs.
        resolve_with_inline
    } else {
        // We are on an older version of dbghelp which doesn't contain the Inline
        // APIs.
        resolve_legacy
    };
    match what {
        ResolveWhat::Address(_) => resolve_inner(&dbghelp, what.address_or_ip(), None, cb),
        ResolveWhat::Frame(frame) => {
            resolve_inner(&dbghelp, frame.ip(), frame.inner.inline_context(), cb)
        }
    };
}

/// Resolve the address using the legacy dbghelp API.
///
/// This should work all the way down to Windows XP. The inline context is
/// ignored, since this concept was only introduced in dbghelp 6.2+.
#[cfg(target_vendor = "win7")]
unsafe fn resolve_legacy(
    dbghelp: &dbghelp::Init,
    addr: *mut c_void,
    _inline_context: Option<u32>,
    cb: &mut dyn FnMut(&super::Symbol),
) -> Option<()> {
    let addr = super::adjust_ip(addr) as u64;
    do_resolve(
        |info| dbghelp.SymFromAddrW()(GetCurrentProcess(), addr, &mut 0, info),
        |line| dbghelp.SymGetLineFromAddrW64()(GetCurrentProcess(), addr, &mut 0, line),
        cb,
    );
    Some(())
}

/// Resolve the address using the modern dbghelp APIs.
///
/// Note that calling this function requires having dbghelp 6.2+ loaded - and
/// will panic otherwise.
unsafe fn resolve_with_inline(
    dbghelp: &dbghelp::Init,
    addr: *mut c_void,
    inline_context: Option<u32>,
    cb: &mut dyn FnMut(&super::Symbol),
) -> Option<()> {
    let current_process = GetCurrentProcess();
    // Ensure we have the functions we need. Return if any aren't found.
    let SymFromInlineContextW = (*dbghelp.dbghelp()).SymFromInlineContextW()?;
    let SymGetLineFromInlineContextW = (*dbghelp.dbghelp()).SymGetLineFromInlineContextW()?;

    let addr = super::adjust_ip(addr) as u64;

    let (inlined_frame_count, inline_context) = if let Some(ic) = inline_context {
        (0, ic)
    } else {
        let SymAddrIncludeInlineTrace = (*dbghelp.dbghelp()).SymAddrIncludeInlineTrace()?;
        let SymQueryInlineTrace = (*dbghelp.dbghelp()).SymQueryInlineTrace()?;

        let mut inlined_frame_count = SymAddrIncludeInlineTrace(current_process, addr);

        let mut inline_context = 0;

        // If there is are inlined frames but we can't load them for some reason OR if there are no
        // inlined frames, then we disregard inlined_frame_count and inline_context.
        if (inlined_frame_count > 0
            && SymQueryInlineTrace(
                current_process,
                addr,
                0,
                addr,
                addr,
                &mut inline_context,
                &mut 0,
            ) != TRUE)
            || inlined_frame_count == 0
        {
            inlined_frame_count = 0;
            inline_context = 0;
        }

        (inlined_frame_count, inline_context)
    };

    let last_inline_context = inline_context + 1 + inlined_frame_count;

    for inline_context in inline_context..last_inline_context {
        do_resolve(
            |info| SymFromInlineContextW(current_process, addr, inline_context, &mut 0, info),
            |line| {
                SymGetLineFromInlineContextW(current_process, addr, inline_context, 0, &mut 0, line)
            },
            cb,
        );
    }
    Some(())
}

unsafe fn do_resolve(
    sym_from_addr: impl FnOnce(*mut SYMBOL_INFOW) -> BOOL,
    get_line_from_addr: impl FnOnce(&mut IMAGEHLP_LINEW64) -> BOOL,
    cb: &mut dyn FnMut(&super::Symbol),
) {
    const SIZE: usize = 2 * MAX_SYM_NAME as usize + mem::size_of::<SYMBOL_INFOW>();
    let mut data = Aligned8([0u8; SIZE]);
    let info = &mut *data.0.as_mut_ptr().cast::<SYMBOL_INFOW>();
    info.MaxNameLen = MAX_SYM_NAME as u32;
    // the struct size in C.  the value is different to
    // `size_of::<SYMBOL_INFOW>() - MAX_SYM_NAME + 1` (== 81)
    // due to struct alignment.
    info.SizeOfStruct = 88;

    if sym_from_addr(info) != TRUE {
        return;
    }

    // If the symbol name is greater than MaxNameLen, SymFromAddrW will
    // give a buffer of (MaxNameLen - 1) characters and set NameLen to
    // the real value.
    let name_len = ::core::cmp::min(info.NameLen as usize, info.MaxNameLen as usize - 1);
    let name_ptr = info.Name.as_ptr().cast::<u16>();

    // Reencode the utf-16 symbol to utf-8 so we can use `SymbolName::new` like
    // all other platforms
    let mut name_buffer = [0_u8; 256];
    let mut name_len = WideCharToMultiByte(
        CP_UTF8,
        0,
        name_ptr,
        name_len as i32,
        name_buffer.as_mut_ptr(),
        name_buffer.len() as i32,
        core::ptr::null_mut(),
        core::ptr::null_mut(),
    ) as usize;
    if name_len == 0 {
        // If the returned length is zero that means the buffer wasn't big enough.
        // However, the buffer will be filled with as much as will fit.
        name_len = name_buffer.len();
    } else if name_len > name_buffer.len() {
        // This can't happen.
        return;
    }
    let name = ptr::addr_of!(name_buffer[..name_len]);

    let mut line = mem::zeroed::<IMAGEHLP_LINEW64>();
    line.SizeOfStruct = mem::size_of::<IMAGEHLP_LINEW64>() as u32;

    let mut filename = None;
    let mut lineno = None;
    if get_line_from_addr(&mut line) == TRUE {
        lineno = Some(line.LineNumber);

        let base = line.FileName;
        let mut len = 0;
        while *base.offset(len) != 0 {
            len += 1;
        }

        let len = len as usize;

        filename = Some(ptr_from_ref(slice::from_raw_parts(base, len)));
    }

    cb(&super::Symbol {
        inner: Symbol {
            name,
            addr: info.Address as *mut _,
            line: lineno,
            filename,
            _filename_cache: cache(filename),
            _marker: marker::PhantomData,
        },
    })
}

#[cfg(feature = "std")]
unsafe fn cache(filename: Option<*const [u16]>) -> Option<::std::ffi::OsString> {
    use std::os::windows::ffi::OsStringExt;
    filename.map(|f| ::std::ffi::OsString::from_wide(&*f))
}

#[cfg(not(feature = "std"))]
unsafe fn cache(_filename: Option<*const [u16]>) {}

pub unsafe fn clear_symbol_cache() {}
