//! Support for symbolication using the `gimli` crate on crates.io
//!
//! This is the default symbolication implementation for Rust.

use self::gimli::read::EndianSlice;
use self::gimli::NativeEndian as Endian;
use self::mmap::Mmap;
use self::stash::Stash;
use super::BytesOrWideString;
use super::ResolveWhat;
use super::SymbolName;
use addr2line::gimli;
use core::convert::TryInto;
use core::mem;
use core::u32;
use libc::c_void;
use mystd::ffi::OsString;
use mystd::fs::File;
use mystd::path::Path;
use mystd::prelude::v1::*;

#[cfg(backtrace_in_libstd)]
mod mystd {
    pub use crate::*;
}
#[cfg(not(backtrace_in_libstd))]
extern crate std as mystd;

cfg_if::cfg_if! {
    if #[cfg(windows)] {
        #[path = "gimli/mmap_windows.rs"]
        mod mmap;
    } else if #[cfg(target_vendor = "apple")] {
        #[path = "gimli/mmap_unix.rs"]
        mod mmap;
    } else if #[cfg(any(
        target_os = "android",
        target_os = "freebsd",
        target_os = "fuchsia",
        target_os = "haiku",
        target_os = "hurd",
        target_os = "linux",
        target_os = "openbsd",
        target_os = "solaris",
        target_os = "illumos",
        target_os = "aix",
    ))] {
        #[path = "gimli/mmap_unix.rs"]
        mod mmap;
    } else {
        #[path = "gimli/mmap_fake.rs"]
        mod mmap;
    }
}

mod stash;

const MAPPINGS_CACHE_SIZE: usize = 4;

struct Mapping {
    // 'static lifetime is a lie to hack around lack of support for self-referential structs.
    cx: Context<'static>,
    _map: Mmap,
    stash: Stash,
}

enum Either<A, B> {
    #[allow(dead_code)]
    A(A),
    B(B),
}

impl Mapping {
    /// Creates a `Mapping` by ensuring that the `data` specified is used to
    /// create a `Context` and it can only borrow from that or the `Stash` of
    /// decompressed sections or auxiliary data.
    fn mk<F>(data: Mmap, mk: F) -> Option<Mapping>
    where
        F: for<'a> FnOnce(&'a [u8], &'a Stash) -> Option<Context<'a>>,
    {
        Mapping::mk_or_other(data, move |data, stash| {
            let cx = mk(data, stash)?;
            Some(Either::B(cx))
        })
    }

    /// Creates a `Mapping` from `data`, or if the closure decides to, returns a
    /// different mapping.
    fn mk_or_other<F>(data: Mmap, mk: F) -> Option<Mapping>
    where
        F: for<'a> FnOnce(&'a [u8], &'a Stash) -> Option<Either<Mapping, Context<'a>>>,
    {
        let stash = Stash::new();
        let cx = match mk(&data, &stash)? {
            Either::A(mapping) => return Some(mapping),
            Either::B(cx) => cx,
        };
        Some(Mapping {
            // Convert to 'static lifetimes since the symbols should
            // only borrow `map` and `stash` and we're preserving them below.
            cx: unsafe { core::mem::transmute::<Context<'_>, Context<'static>>(cx) },
            _map: data,
            stash,
        })
    }
}

struct Context<'a> {
    dwarf: addr2line::Context<EndianSlice<'a, Endian>>,
    object: Object<'a>,
    package: Option<gimli::DwarfPackage<EndianSlice<'a, Endian>>>,
}

impl<'data> Context<'data> {
    fn new(
        stash: &'data Stash,
        object: Object<'data>,
        sup: Option<Object<'data>>,
        dwp: Option<Object<'data>>,
    ) -> Option<Context<'data>> {
        let mut sections = gimli::Dwarf::load(|id| -> Result<_, ()> {
            if cfg!(not(target_os = "aix")) {
                let data = object.section(stash, id.name()).unwrap_or(&[]);
                Ok(EndianSlice::new(data, Endian))
            } else if let Some(name) = id.xcoff_name() {
                let data = object.section(stash, name).unwrap_or(&[]);
                Ok(EndianSlice::new(data, Endian))
            } else {
                Ok(EndianSlice::new(&[], Endian))
            }
        })
        .ok()?;

        if let Some(sup) = sup {
            sections
                .load_sup(|id| -> Result<_, ()> {
                    let data = sup.section(stash, id.name()).unwrap_or(&[]);
                    Ok(EndianSlice::new(data, Endian))
                })
                .ok()?;
        }
        let dwarf = addr2line::Context::from_dwarf(sections).ok()?;

        let mut package = None;
        if let Some(dwp) = dwp {
            package = Some(
                gimli::DwarfPackage::load(
                    |id| -> Result<_, gimli::Error> {
                        let data = id
                            .dwo_name()
                            .and_then(|name| dwp.section(stash, name))
                            .unwrap_or(&[]);
                        Ok(EndianSlice::new(data, Endian))
                    },
                    EndianSlice::new(&[], Endian),
                )
                .ok()?,
            );
        }

        Some(Context {
            dwarf,
            object,
            package,
        })
    }

    fn find_frames(
        &'_ self,
        stash: &'data Stash,
        probe: u64,
    ) -> gimli::Result<addr2line::FrameIter<'_, EndianSlice<'data, Endian>>> {
        use addr2line::{LookupContinuation, LookupResult};

        let mut l = self.dwarf.find_frames(probe);
        loop {
            let (load, continuation) = match l {
                LookupResult::Output(output) => break output,
                LookupResult::Load { load, continuation } => (load, continuation),
            };

            l = continuation.resume(handle_split_dwarf(self.package.as_ref(), stash, load));
        }
    }
}

fn mmap(path: &Path) -> Option<Mmap> {
    let file = File::open(path).ok()?;
    let len = file.metadata().ok()?.len().try_into().ok()?;
    unsafe { Mmap::map(&file, len) }
}

cfg_if::cfg_if! {
    if #[cfg(windows)] {
        mod coff;
        use self::coff::{handle_split_dwarf, Object};
    } else if #[cfg(any(target_vendor = "apple"))] {
        mod macho;
        use self::macho::{handle_split_dwarf, Object};
    } else if #[cfg(target_os = "aix")] {
        mod xcoff;
        use self::xcoff::{handle_split_dwarf, Object};
    } else {
        mod elf;
        use self::elf::{handle_split_dwarf, Object};
    }
}

cfg_if::cfg_if! {
    if #[cfg(windows)] {
        mod libs_windows;
        use libs_windows::native_libraries;
    } else if #[cfg(target_vendor = "apple")] {
        mod libs_macos;
        use libs_macos::native_libraries;
    } else if #[cfg(target_os = "illumos")] {
        mod libs_illumos;
        use libs_illumos::native_libraries;
    } else if #[cfg(all(
        any(
            target_os = "linux",
            target_os = "fuchsia",
            target_os = "freebsd",
            target_os = "hurd",
            target_os = "openbsd",
            target_os = "netbsd",
            target_os = "nto",
            target_os = "android",
        ),
        not(target_env = "uclibc"),
    ))] {
        mod libs_dl_iterate_phdr;
        use libs_dl_iterate_phdr::native_libraries;
        #[path = "gimli/parse_running_mmaps_unix.rs"]
        mod parse_running_mmaps;
    } else if #[cfg(target_env = "libnx")] {
        mod libs_libnx;
        use libs_libnx::native_libraries;
    } else if #[cfg(target_os = "haiku")] {
        mod libs_haiku;
        use libs_haiku::native_libraries;
    } else if #[cfg(target_os = "aix")] {
        mod libs_aix;
        use libs_aix::native_libraries;
    } else {
        // Everything else should doesn't know how to load native libraries.
        fn native_libraries() -> Vec<Library> {
            Vec::new()
        }
    }
}

#[derive(Default)]
struct Cache {
    /// All known shared libraries that have been loaded.
    libraries: Vec<Library>,

    /// Mappings cache where we retain parsed dwarf information.
    ///
    /// This list has a fixed capacity for its entire lifetime which never
    /// increases. The `usize` element of each pair is an index into `libraries`
    /// above where `usize::max_value()` represents the current executable. The
    /// `Mapping` is corresponding parsed dwarf information.
    ///
    /// Note that this is basically an LRU cache and we'll be shifting things
    /// around in here as we symbolize addresses.
    mappings: Vec<(usize, Mapping)>,
}

struct Library {
    name: OsString,
    #[cfg(target_os = "aix")]
    /// On AIX, the library mmapped can be a member of a big-archive file.
    /// For example, with a big-archive named libfoo.a containing libbar.so,
    /// one can use `dlopen("libfoo.a(libbar.so)", RTLD_MEMBER | RTLD_LAZY)`
    /// to use the `libbar.so` library. In this case, only `libbar.so` is
    /// mmapped, not the whole `libfoo.a`.
    member_name: OsString,
    /// Segments of this library loaded into memory, and where they're loaded.
    segments: Vec<LibrarySegment>,
    /// The "bias" of this library, typically where it's loaded into memory.
    /// This value is added to each segment's stated address to get the actual
    /// virtual memory address that the segment is loaded into. Additionally
    /// this bias is subtracted from real virtual memory addresses to index into
    /// debuginfo and the symbol table.
    bias: usize,
}

struct LibrarySegment {
    /// The stated address of this segment in the object file. This is not
    /// actually where the segment is loaded, but rather this address plus the
    /// containing library's `bias` is where to find it.
    stated_virtual_memory_address: usize,
    /// The size of this segment in memory.
    len: usize,
}

#[cfg(target_os = "aix")]
fn create_mapping(lib: &Library) -> Option<Mapping> {
    let name = &lib.name;
    let member_name = &lib.member_name;
    Mapping::new(name.as_ref(), member_name)
}

#[cfg(not(target_os = "aix"))]
fn create_mapping(lib: &Library) -> Option<Mapping> {
    let name = &lib.name;
    Mapping::new(name.as_ref())
}

// unsafe because this is required to be externally synchronized
pub unsafe fn clear_symbol_cache() {
    Cache::with_global(|cache| cache.mappings.clear());
}

impl Cache {
    fn new() -> Cache {
        Cache {
            mappings: Vec::with_capacity(MAPPINGS_CACHE_SIZE),
            libraries: native_libraries(),
        }
    }

    // unsafe because this is required to be externally synchronized
    unsafe fn with_global(f: impl FnOnce(&mut Self)) {
        // A very small, very simple LRU cache for debug info mappings.
        //
        // The hit rate should be very high, since the typical stack doesn't cross
        // between many shared libraries.
        //
        // The `addr2line::Context` structures are pretty expensive to create. Its
        // cost is expected to be amortized by subsequent `locate` queries, which
        // leverage the structures built when constructing `addr2line::Context`s to
        // get nice speedups. If we didn't have this cache, that amortization would
        // never happen, and symbolicating backtraces would be ssssllllooooowwww.
        static mut MAPPINGS_CACHE: Option<Cache> = None;

        f(MAPPINGS_CACHE.get_or_insert_with(|| Cache::new()))
    }

    fn avma_to_svma(&self, addr: *const u8) -> Option<(usize, *const u8)> {
        self.libraries
            .iter()
            .enumerate()
            .filter_map(|(i, lib)| {
                // First up, test if this `lib` has any segment containing the
                // `addr` (handling relocation). If this check passes then we
                // can continue below and actually translate the address.
                //
                // Note that we're using `wrapping_add` here to avoid overflow
                // checks. It's been seen in the wild that the SVMA + bias
                // computation overflows. It seems a bit odd that would happen
                // but there's not a huge amount we can do about it other than
                // probably just ignore those segments since they're likely
                // pointing off into space. This originally came up in
                // rust-lang/backtrace-rs#329.
                if !lib.segments.iter().any(|s| {
                    let svma = s.stated_virtual_memory_address;
                    let start = svma.wrapping_add(lib.bias);
                    let end = start.wrapping_add(s.len);
                    let address = addr as usize;
                    start <= address && address < end
                }) {
                    return None;
                }

                // Now that we know `lib` contains `addr`, we can offset with
                // the bias to find the stated virtual memory address.
                let svma = (addr as usize).wrapping_sub(lib.bias);
                Some((i, svma as *const u8))
            })
            .next()
    }

    fn mapping_for_lib<'a>(&'a mut self, lib: usize) -> Option<(&'a mut Context<'a>, &'a Stash)> {
        let idx = self.mappings.iter().position(|(idx, _)| *idx == lib);

        // Invariant: after this conditional completes without early returning
        // from an error, the cache entry for this path is at index 0.

        if let Some(idx) = idx {
            // When the mapping is already in the cache, move it to the front.
            if idx != 0 {
                let entry = self.mappings.remove(idx);
                self.mappings.insert(0, entry);
            }
        } else {
            // When the mapping is not in the cache, create a new mapping,
            // insert it into the front of the cache, and evict the oldest cache
            // entry if necessary.
            let mapping = create_mapping(&self.libraries[lib])?;

            if self.mappings.len() == MAPPINGS_CACHE_SIZE {
                self.mappings.pop();
            }

            self.mappings.insert(0, (lib, mapping));
        }

        let mapping = &mut self.mappings[0].1;
        let cx: &'a mut Context<'static> = &mut mapping.cx;
        let stash: &'a Stash = &mapping.stash;
        // don't leak the `'static` lifetime, make sure it's scoped to just
        // ourselves
        Some((
            unsafe { mem::transmute::<&'a mut Context<'static>, &'a mut Context<'a>>(cx) },
            stash,
        ))
    }
}

pub unsafe fn resolve(what: ResolveWhat<'_>, cb: &mut dyn FnMut(&super::Symbol)) {
    let addr = what.address_or_ip();
    let mut call = |sym: Symbol<'_>| {
        // Extend the lifetime of `sym` to `'static` since we are unfortunately
        // required to here, but it's only ever going out as a reference so no
        // reference to it should be persisted beyond this frame anyway.
        let sym = mem::transmute::<Symbol<'_>, Symbol<'static>>(sym);
        (cb)(&super::Symbol { inner: sym });
    };

    Cache::with_global(|cache| {
        let (lib, addr) = match cache.avma_to_svma(addr.cast_const().cast::<u8>()) {
            Some(pair) => pair,
            None => return,
        };

        // Finally, get a cached mapping or create a new mapping for this file, and
        // evaluate the DWARF info to find the file/line/name for this address.
        let (cx, stash) = match cache.mapping_for_lib(lib) {
            Some((cx, stash)) => (cx, stash),
            None => return,
        };
        let mut any_frames = false;
        if let Ok(mut frames) = cx.find_frames(stash, addr as u64) {
            while let Ok(Some(frame)) = frames.next() {
                any_frames = true;
                let name = match frame.function {
                    Some(f) => Some(f.name.slice()),
                    None => cx.object.search_symtab(addr as u64),
                };
                call(Symbol::Frame {
                    addr: addr as *mut c_void,
                    location: frame.location,
                    name,
                });
            }
        }
        if !any_frames {
            if let Some((object_cx, object_addr)) = cx.object.search_object_map(addr as u64) {
                if let Ok(mut frames) = object_cx.find_frames(stash, object_addr) {
                    while let Ok(Some(frame)) = frames.next() {
                        any_frames = true;
                        call(Symbol::Frame {
                            addr: addr as *mut c_void,
                            location: frame.location,
                            name: frame.function.map(|f| f.name.slice()),
                        });
                    }
                }
            }
        }
        if !any_frames {
            if let Some(name) = cx.object.search_symtab(addr as u64) {
                call(Symbol::Symtab { name });
            }
        }
    });
}

pub enum Symbol<'a> {
    /// We were able to locate frame information for this symbol, and
    /// `addr2line`'s frame internally has all the nitty gritty details.
    Frame {
        addr: *mut c_void,
        location: Option<addr2line::Location<'a>>,
        name: Option<&'a [u8]>,
    },
    /// Couldn't find debug information, but we found it in the symbol table of
    /// the elf executable.
    Symtab { name: &'a [u8] },
}

impl Symbol<'_> {
    pub fn name(&self) -> Option<SymbolName<'_>> {
        match self {
            Symbol::Frame { name, .. } => {
                let name = name.as_ref()?;
                Some(SymbolName::new(name))
            }
            Symbol::Symtab { name, .. } => Some(SymbolName::new(name)),
        }
    }

    pub fn addr(&self) -> Option<*mut c_void> {
        match self {
            Symbol::Frame { addr, .. } => Some(*addr),
            Symbol::Symtab { .. } => None,
        }
    }

    pub fn filename_raw(&self) -> Option<BytesOrWideString<'_>> {
        match self {
            Symbol::Frame { location, .. } => {
                let file = location.as_ref()?.file?;
                Some(BytesOrWideString::Bytes(file.as_bytes()))
            }
            Symbol::Symtab { .. } => None,
        }
    }

    pub fn filename(&self) -> Option<&Path> {
        match self {
            Symbol::Frame { location, .. } => {
                let file = location.as_ref()?.file?;
                Some(Path::new(file))
            }
            Symbol::Symtab { .. } => None,
        }
    }

    pub fn lineno(&self) -> Option<u32> {
        match self {
            Symbol::Frame { location, .. } => location.as_ref()?.line,
            Symbol::Symtab { .. } => None,
        }
    }

    pub fn colno(&self) -> Option<u32> {
        match self {
            Symbol::Frame { location, .. } => location.as_ref()?.column,
            Symbol::Symtab { .. } => None,
        }
    }
}
