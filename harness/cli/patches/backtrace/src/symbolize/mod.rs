use core::{fmt, str};

cfg_if::cfg_if! {
    if #[cfg(feature = "std")] {
        use std::path::Path;
        use std::prelude::v1::*;
    }
}

use super::backtrace::Frame;
use super::types::BytesOrWideString;
use core::ffi::c_void;
use rustc_demangle::{try_demangle, Demangle};

/// Resolve an address to a symbol, passing the symbol to the specified
/// closure.
///
/// This function will look up the given address in areas such as the local
/// symbol table, dynamic symbol table, or DWARF debug info (depending on the
/// activated implementation) to find symbols to yield.
///
/// The closure may not be called if resolution could not be performed, and it
/// also may be called more than once in the case of inlined functions.
///
/// Symbols yielded represent the execution at the specified `addr`, returning
/// file/line pairs for that address (if available).
///
/// Note that if you have a `Frame` then it's recommended to use the
/// `resolve_frame` function instead of this one.
///
/// # Required features
///
/// This function requires the `std` feature of the `backtrace` crate to be
/// enabled, and the `std` feature is enabled by default.
///
/// # Panics
///
/// This function strives to never panic, but if the `cb` provided panics then
/// some platforms will force a double panic to abort the process. Some
/// platforms use a C library which internally uses callbacks which cannot be
/// unwound through, so panicking from `cb` may trigger a process abort.
///
/// # Example
///
/// ```
/// extern crate backtrace;
///
/// fn main() {
///     backtrace::trace(|frame| {
///         let ip = frame.ip();
///
///         backtrace::resolve(ip, |symbol| {
///             // ...
///         });
///
///         false // only look at the top frame
///     });
/// }
/// ```
#[cfg(feature = "std")]
pub fn resolve<F: FnMut(&Symbol)>(addr: *mut c_void, cb: F) {
    let _guard = crate::lock::lock();
    unsafe { resolve_unsynchronized(addr, cb) }
}

/// Resolve a previously capture frame to a symbol, passing the symbol to the
/// specified closure.
///
/// This function performs the same function as `resolve` except that it takes a
/// `Frame` as an argument instead of an address. This can allow some platform
/// implementations of backtracing to provide more accurate symbol information
/// or information about inline frames for example. It's recommended to use this
/// if you can.
///
/// # Required features
///
/// This function requires the `std` feature of the `backtrace` crate to be
/// enabled, and the `std` feature is enabled by default.
///
/// # Panics
///
/// This function strives to never panic, but if the `cb` provided panics then
/// some platforms will force a double panic to abort the process. Some
/// platforms use a C library which internally uses callbacks which cannot be
/// unwound through, so panicking from `cb` may trigger a process abort.
///
/// # Example
///
/// ```
/// extern crate backtrace;
///
/// fn main() {
///     backtrace::trace(|frame| {
///         backtrace::resolve_frame(frame, |symbol| {
///             // ...
///         });
///
///         false // only look at the top frame
///     });
/// }
/// ```
#[cfg(feature = "std")]
pub fn resolve_frame<F: FnMut(&Symbol)>(frame: &Frame, cb: F) {
    let _guard = crate::lock::lock();
    unsafe { resolve_frame_unsynchronized(frame, cb) }
}

pub enum ResolveWhat<'a> {
    Address(*mut c_void),
    Frame(&'a Frame),
}

impl<'a> ResolveWhat<'a> {
    #[allow(dead_code)]
    fn address_or_ip(&self) -> *mut c_void {
        match self {
            ResolveWhat::Address(a) => adjust_ip(*a),
            ResolveWhat::Frame(f) => adjust_ip(f.ip()),
        }
    }
}

// IP values from stack frames are typically (always?) the instruction
// *after* the call that's the actual stack trace. Symbolizing this on
// causes the filename/line number to be one ahead and perhaps into
// the void if it's near the end of the function.
//
// This appears to basically always be the case on all platforms, so we always
// subtract one from a resolved ip to resolve it to the previous call
// instruction instead of the instruction being returned to.
//
// Ideally we would not do this. Ideally we would require callers of the
// `resolve` APIs here to manually do the -1 and account that they want location
// information for the *previous* instruction, not the current. Ideally we'd
// also expose on `Frame` if we are indeed the address of the next instruction
// or the current.
//
// For now though this is a pretty niche concern so we just internally always
// subtract one. Consumers should keep working and getting pretty good results,
// so we should be good enough.
fn adjust_ip(a: *mut c_void) -> *mut c_void {
    if a.is_null() {
        a
    } else {
        (a as usize - 1) as *mut c_void
    }
}

/// Same as `resolve`, only unsafe as it's unsynchronized.
///
/// This function does not have synchronization guarantees but is available when
/// the `std` feature of this crate isn't compiled in. See the `resolve`
/// function for more documentation and examples.
///
/// # Panics
///
/// See information on `resolve` for caveats on `cb` panicking.
pub unsafe fn resolve_unsynchronized<F>(addr: *mut c_void, mut cb: F)
where
    F: FnMut(&Symbol),
{
    imp::resolve(ResolveWhat::Address(addr), &mut cb)
}

/// Same as `resolve_frame`, only unsafe as it's unsynchronized.
///
/// This function does not have synchronization guarantees but is available
/// when the `std` feature of this crate isn't compiled in. See the
/// `resolve_frame` function for more documentation and examples.
///
/// # Panics
///
/// See information on `resolve_frame` for caveats on `cb` panicking.
pub unsafe fn resolve_frame_unsynchronized<F>(frame: &Frame, mut cb: F)
where
    F: FnMut(&Symbol),
{
    imp::resolve(ResolveWhat::Frame(frame), &mut cb)
}

/// A trait representing the resolution of a symbol in a file.
///
/// This trait is yielded as a trait object to the closure given to the
/// `backtrace::resolve` function, and it is virtually dispatched as it's
/// unknown which implementation is behind it.
///
/// A symbol can give contextual information about a function, for example the
/// name, filename, line number, precise address, etc. Not all information is
/// always available in a symbol, however, so all methods return an `Option`.
pub struct Symbol {
    // TODO: this lifetime bound needs to be persisted eventually to `Symbol`,
    // but that's currently a breaking change. For now this is safe since
    // `Symbol` is only ever handed out by reference and can't be cloned.
    inner: imp::Symbol<'static>,
}

impl Symbol {
    /// Returns the name of this function.
    ///
    /// The returned structure can be used to query various properties about the
    /// symbol name:
    ///
    /// * The `Display` implementation will print out the demangled symbol.
    /// * The raw `str` value of the symbol can be accessed (if it's valid
    ///   utf-8).
    /// * The raw bytes for the symbol name can be accessed.
    pub fn name(&self) -> Option<SymbolName<'_>> {
        self.inner.name()
    }

    /// Returns the starting address of this function.
    pub fn addr(&self) -> Option<*mut c_void> {
        self.inner.addr()
    }

    /// Returns the raw filename as a slice. This is mainly useful for `no_std`
    /// environments.
    pub fn filename_raw(&self) -> Option<BytesOrWideString<'_>> {
        self.inner.filename_raw()
    }

    /// Returns the column number for where this symbol is currently executing.
    ///
    /// Only gimli currently provides a value here and even then only if `filename`
    /// returns `Some`, and so it is then consequently subject to similar caveats.
    pub fn colno(&self) -> Option<u32> {
        self.inner.colno()
    }

    /// Returns the line number for where this symbol is currently executing.
    ///
    /// This return value is typically `Some` if `filename` returns `Some`, and
    /// is consequently subject to similar caveats.
    pub fn lineno(&self) -> Option<u32> {
        self.inner.lineno()
    }

    /// Returns the file name where this function was defined.
    ///
    /// This is currently only available when libbacktrace or gimli is being
    /// used (e.g. unix platforms other) and when a binary is compiled with
    /// debuginfo. If neither of these conditions is met then this will likely
    /// return `None`.
    ///
    /// # Required features
    ///
    /// This function requires the `std` feature of the `backtrace` crate to be
    /// enabled, and the `std` feature is enabled by default.
    #[cfg(feature = "std")]
    #[allow(unreachable_code)]
    pub fn filename(&self) -> Option<&Path> {
        self.inner.filename()
    }
}

impl fmt::Debug for Symbol {
    fn fmt(&self, f: &mut fmt::Formatter<'_>) -> fmt::Result {
        let mut d = f.debug_struct("Symbol");
        if let Some(name) = self.name() {
            d.field("name", &name);
        }
        if let Some(addr) = self.addr() {
            d.field("addr", &addr);
        }

        #[cfg(feature = "std")]
        {
            if let Some(filename) = self.filename() {
                d.field("filename", &filename);
            }
        }

        if let Some(lineno) = self.lineno() {
            d.field("lineno", &lineno);
        }
        d.finish()
    }
}

cfg_if::cfg_if! {
    if #[cfg(feature = "cpp_demangle")] {
        // Maybe a parsed C++ symbol, if parsing the mangled symbol as Rust
        // failed.
        struct OptionCppSymbol<'a>(Option<::cpp_demangle::BorrowedSymbol<'a>>);

        impl<'a> OptionCppSymbol<'a> {
            fn parse(input: &'a [u8]) -> OptionCppSymbol<'a> {
                OptionCppSymbol(::cpp_demangle::BorrowedSymbol::new(input).ok())
            }

            fn none() -> OptionCppSymbol<'a> {
                OptionCppSymbol(None)
            }
        }
    }
}

/// A wrapper around a symbol name to provide ergonomic accessors to the
/// demangled name, the raw bytes, the raw string, etc.
pub struct SymbolName<'a> {
    bytes: &'a [u8],
    demangled: Option<Demangle<'a>>,
    #[cfg(feature = "cpp_demangle")]
    cpp_demangled: OptionCppSymbol<'a>,
}

impl<'a> SymbolName<'a> {
    /// Creates a new symbol name from the raw underlying bytes.
    pub fn new(bytes: &'a [u8]) -> SymbolName<'a> {
        let str_bytes = str::from_utf8(bytes).ok();
        let demangled = str_bytes.and_then(|s| try_demangle(s).ok());

        #[cfg(feature = "cpp_demangle")]
        let cpp = if demangled.is_none() {
            OptionCppSymbol::parse(bytes)
        } else {
            OptionCppSymbol::none()
        };

        SymbolName {
            bytes,
            demangled,
            #[cfg(feature = "cpp_demangle")]
            cpp_demangled: cpp,
        }
    }

    /// Returns the raw (mangled) symbol name as a `str` if the symbol is valid utf-8.
    ///
    /// Use the `Display` implementation if you want the demangled version.
    pub fn as_str(&self) -> Option<&'a str> {
        self.demangled
            .as_ref()
            .map(|s| s.as_str())
            .or_else(|| str::from_utf8(self.bytes).ok())
    }

    /// Returns the raw symbol name as a list of bytes
    pub fn as_bytes(&self) -> &'a [u8] {
        self.bytes
    }
}

fn format_symbol_name(
    fmt: fn(&str, &mut fmt::Formatter<'_>) -> fmt::Result,
    mut bytes: &[u8],
    f: &mut fmt::Formatter<'_>,
) -> fmt::Result {
    while bytes.len() > 0 {
        match str::from_utf8(bytes) {
            Ok(name) => {
                fmt(name, f)?;
                break;
            }
            Err(err) => {
                fmt("\u{FFFD}", f)?;

                match err.error_len() {
                    Some(len) => bytes = &bytes[err.valid_up_to() + len..],
                    None => break,
                }
            }
        }
    }
    Ok(())
}

impl<'a> fmt::Display for SymbolName<'a> {
    fn fmt(&self, f: &mut fmt::Formatter<'_>) -> fmt::Result {
        if let Some(ref s) = self.demangled {
            return s.fmt(f);
        }

        #[cfg(feature = "cpp_demangle")]
        {
            if let Some(ref cpp) = self.cpp_demangled.0 {
                return cpp.fmt(f);
            }
        }

        format_symbol_name(fmt::Display::fmt, self.bytes, f)
    }
}

impl<'a> fmt::Debug for SymbolName<'a> {
    fn fmt(&self, f: &mut fmt::Formatter<'_>) -> fmt::Result {
        if let Some(ref s) = self.demangled {
            return s.fmt(f);
        }

        #[cfg(all(feature = "std", feature = "cpp_demangle"))]
        {
            use std::fmt::Write;

            // This may to print if the demangled symbol isn't actually
            // valid, so handle the error here gracefully by not propagating
            // it outwards.
            if let Some(ref cpp) = self.cpp_demangled.0 {
                let mut s = String::new();
                if write!(s, "{cpp}").is_ok() {
                    return s.fmt(f);
                }
            }
        }

        format_symbol_name(fmt::Debug::fmt, self.bytes, f)
    }
}

/// Attempt to reclaim that cached memory used to symbolicate addresses.
///
/// This method will attempt to release any global data structures that have
/// otherwise been cached globally or in the thread which typically represent
/// parsed DWARF information or similar.
///
/// # Caveats
///
/// While this function is always available it doesn't actually do anything on
/// most implementations. Libraries like dbghelp or libbacktrace do not provide
/// facilities to deallocate state and manage the allocated memory. For now the
/// `std` feature of this crate is the only feature where this
/// function has any effect.
#[cfg(feature = "std")]
pub fn clear_symbol_cache() {
    let _guard = crate::lock::lock();
    unsafe {
        imp::clear_symbol_cache();
    }
}

cfg_if::cfg_if! {
    if #[cfg(miri)] {
        mod miri;
        use miri as imp;
    } else if #[cfg(all(windows, target_env = "msvc", not(target_vendor = "uwp")))] {
        mod dbghelp;
        use dbghelp as imp;
    } else if #[cfg(all(
        any(unix, all(windows, target_env = "gnu")),
        not(target_vendor = "uwp"),
        not(target_os = "emscripten"),
        any(not(backtrace_in_libstd), feature = "backtrace"),
    ))] {
        mod gimli;
        use gimli as imp;
    } else {
        mod noop;
        use noop as imp;
    }
}
