// Haiku implements the image_info struct and the get_next_image_info()
// functions to iterate through the loaded executable images. The
// image_info struct contains a pointer to the start of the .text
// section within the virtual address space, as well as the size of
// that section. All the read-only segments of the ELF-binary are in
// that part of the address space.

use super::mystd::borrow::ToOwned;
use super::mystd::ffi::{CStr, OsStr};
use super::mystd::mem::MaybeUninit;
use super::mystd::os::unix::prelude::*;
use super::{Library, LibrarySegment, Vec};

pub(super) fn native_libraries() -> Vec<Library> {
    let mut libraries: Vec<Library> = Vec::new();

    unsafe {
        let mut info = MaybeUninit::<libc::image_info>::zeroed();
        let mut cookie: i32 = 0;
        // Load the first image to get a valid info struct
        let mut status =
            libc::get_next_image_info(libc::B_CURRENT_TEAM, &mut cookie, info.as_mut_ptr());
        if status != libc::B_OK {
            return libraries;
        }
        let mut info = info.assume_init();

        while status == libc::B_OK {
            let mut segments = Vec::new();
            segments.push(LibrarySegment {
                stated_virtual_memory_address: 0,
                len: info.text_size as usize,
            });

            let bytes = CStr::from_ptr(info.name.as_ptr()).to_bytes();
            let name = OsStr::from_bytes(bytes).to_owned();
            libraries.push(Library {
                name: name,
                segments: segments,
                bias: info.text as usize,
            });

            status = libc::get_next_image_info(libc::B_CURRENT_TEAM, &mut cookie, &mut info);
        }
    }

    libraries
}
