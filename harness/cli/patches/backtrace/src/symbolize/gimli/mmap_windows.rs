use super::super::super::windows_sys::*;

use super::mystd::fs::File;
use super::mystd::os::windows::prelude::*;
use core::ffi::c_void;
use core::ops::Deref;
use core::ptr;
use core::slice;

pub struct Mmap {
    // keep the file alive to prevent it from being deleted which would cause
    // us to read bad data.
    _file: File,
    ptr: *mut c_void,
    len: usize,
}

impl Mmap {
    pub unsafe fn map(file: &File, len: usize) -> Option<Mmap> {
        let file = file.try_clone().ok()?;
        let mapping = CreateFileMappingA(
            file.as_raw_handle(),
            ptr::null_mut(),
            PAGE_READONLY,
            0,
            0,
            ptr::null(),
        );
        if mapping.is_null() {
            return None;
        }
        let ptr = MapViewOfFile(mapping, FILE_MAP_READ, 0, 0, len);
        CloseHandle(mapping);
        if ptr.Value.is_null() {
            return None;
        }
        Some(Mmap {
            _file: file,
            ptr: ptr.Value,
            len,
        })
    }
}
impl Deref for Mmap {
    type Target = [u8];

    fn deref(&self) -> &[u8] {
        unsafe { slice::from_raw_parts(self.ptr.cast_const().cast::<u8>(), self.len) }
    }
}

impl Drop for Mmap {
    fn drop(&mut self) {
        unsafe {
            let r = UnmapViewOfFile(MEMORY_MAPPED_VIEW_ADDRESS { Value: self.ptr });
            debug_assert!(r != 0);
        }
    }
}
