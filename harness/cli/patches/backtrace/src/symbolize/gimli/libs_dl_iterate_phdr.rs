// Other Unix (e.g. Linux) platforms use ELF as an object file format
// and typically implement an API called `dl_iterate_phdr` to load
// native libraries.

use super::mystd::borrow::ToOwned;
use super::mystd::env;
use super::mystd::ffi::{CStr, OsStr};
use super::mystd::os::unix::prelude::*;
use super::{Library, LibrarySegment, OsString, Vec};
use core::slice;

pub(super) fn native_libraries() -> Vec<Library> {
    let mut ret = Vec::new();
    unsafe {
        libc::dl_iterate_phdr(Some(callback), core::ptr::addr_of_mut!(ret).cast());
    }
    return ret;
}

fn infer_current_exe(base_addr: usize) -> OsString {
    cfg_if::cfg_if! {
        if #[cfg(not(target_os = "hurd"))] {
                if let Ok(entries) = super::parse_running_mmaps::parse_maps() {
                let opt_path = entries
                    .iter()
                    .find(|e| e.ip_matches(base_addr) && e.pathname().len() > 0)
                    .map(|e| e.pathname())
                    .cloned();
                if let Some(path) = opt_path {
                    return path;
                }
            }
        }
    }
    env::current_exe().map(|e| e.into()).unwrap_or_default()
}

/// # Safety
/// `info` must be a valid pointer.
/// `vec` must be a valid pointer to `Vec<Library>`
#[forbid(unsafe_op_in_unsafe_fn)]
unsafe extern "C" fn callback(
    info: *mut libc::dl_phdr_info,
    _size: libc::size_t,
    vec: *mut libc::c_void,
) -> libc::c_int {
    // SAFETY: We are guaranteed these fields:
    let dlpi_addr = unsafe { (*info).dlpi_addr };
    let dlpi_name = unsafe { (*info).dlpi_name };
    let dlpi_phdr = unsafe { (*info).dlpi_phdr };
    let dlpi_phnum = unsafe { (*info).dlpi_phnum };
    // SAFETY: We assured this.
    let libs = unsafe { &mut *vec.cast::<Vec<Library>>() };
    // most implementations give us the main program first
    let is_main = libs.is_empty();
    // we may be statically linked, which means we are main and mostly one big blob of code
    let is_static = dlpi_addr == 0;
    // sometimes we get a null or 0-len CStr, based on libc's whims, but these mean the same thing
    let no_given_name = dlpi_name.is_null()
        // SAFETY: we just checked for null
        || unsafe { *dlpi_name == 0 };
    let name = if is_static {
        // don't try to look up our name from /proc/self/maps, it'll get silly
        env::current_exe().unwrap_or_default().into_os_string()
    } else if is_main && no_given_name {
        infer_current_exe(dlpi_addr as usize)
    } else {
        // this fallback works even if we are main, because some platforms give the name anyways
        if dlpi_name.is_null() {
            OsString::new()
        } else {
            // SAFETY: we just checked for nullness
            OsStr::from_bytes(unsafe { CStr::from_ptr(dlpi_name) }.to_bytes()).to_owned()
        }
    };
    let headers = if dlpi_phdr.is_null() || dlpi_phnum == 0 {
        &[]
    } else {
        // SAFETY: We just checked for nullness or 0-len slices
        unsafe { slice::from_raw_parts(dlpi_phdr, dlpi_phnum as usize) }
    };
    libs.push(Library {
        name,
        segments: headers
            .iter()
            .map(|header| LibrarySegment {
                len: (*header).p_memsz as usize,
                stated_virtual_memory_address: (*header).p_vaddr as usize,
            })
            .collect(),
        bias: dlpi_addr as usize,
    });
    0
}
