use super::mystd::ffi::{OsStr, OsString};
use super::mystd::fs;
use super::mystd::os::unix::ffi::{OsStrExt, OsStringExt};
use super::mystd::path::{Path, PathBuf};
use super::Either;
use super::{gimli, Context, Endian, EndianSlice, Mapping, Stash, Vec};
use alloc::sync::Arc;
use core::convert::{TryFrom, TryInto};
use core::str;
use object::elf::{ELFCOMPRESS_ZLIB, ELF_NOTE_GNU, NT_GNU_BUILD_ID, SHF_COMPRESSED};
use object::read::elf::{CompressionHeader, FileHeader, SectionHeader, SectionTable, Sym};
use object::read::StringTable;
use object::{BigEndian, Bytes, NativeEndian};

#[cfg(target_pointer_width = "32")]
type Elf = object::elf::FileHeader32<NativeEndian>;
#[cfg(target_pointer_width = "64")]
type Elf = object::elf::FileHeader64<NativeEndian>;

impl Mapping {
    pub fn new(path: &Path) -> Option<Mapping> {
        let map = super::mmap(path)?;
        Mapping::mk_or_other(map, |map, stash| {
            let object = Object::parse(&map)?;

            // Try to locate an external debug file using the build ID.
            if let Some(path_debug) = object.build_id().and_then(locate_build_id) {
                if let Some(mapping) = Mapping::new_debug(path, path_debug, None) {
                    return Some(Either::A(mapping));
                }
            }

            // Try to locate an external debug file using the GNU debug link section.
            if let Some((path_debug, crc)) = object.gnu_debuglink_path(path) {
                if let Some(mapping) = Mapping::new_debug(path, path_debug, Some(crc)) {
                    return Some(Either::A(mapping));
                }
            }

            let dwp = Mapping::load_dwarf_package(path, stash);

            Context::new(stash, object, None, dwp).map(Either::B)
        })
    }

    /// Load debuginfo from an external debug file.
    fn new_debug(original_path: &Path, path: PathBuf, crc: Option<u32>) -> Option<Mapping> {
        let map = super::mmap(&path)?;
        Mapping::mk(map, |map, stash| {
            let object = Object::parse(&map)?;

            if let Some(_crc) = crc {
                // TODO: check crc
            }

            // Try to locate a supplementary object file.
            let mut sup = None;
            if let Some((path_sup, build_id_sup)) = object.gnu_debugaltlink_path(&path) {
                if let Some(map_sup) = super::mmap(&path_sup) {
                    let map_sup = stash.cache_mmap(map_sup);
                    if let Some(sup_) = Object::parse(map_sup) {
                        if sup_.build_id() == Some(build_id_sup) {
                            sup = Some(sup_);
                        }
                    }
                }
            }

            let dwp = Mapping::load_dwarf_package(original_path, stash);

            Context::new(stash, object, sup, dwp)
        })
    }

    /// Try to locate a DWARF package file.
    fn load_dwarf_package<'data>(path: &Path, stash: &'data Stash) -> Option<Object<'data>> {
        let mut path_dwp = path.to_path_buf();
        let dwp_extension = path
            .extension()
            .map(|previous_extension| {
                let mut previous_extension = previous_extension.to_os_string();
                previous_extension.push(".dwp");
                previous_extension
            })
            .unwrap_or_else(|| "dwp".into());
        path_dwp.set_extension(dwp_extension);
        if let Some(map_dwp) = super::mmap(&path_dwp) {
            let map_dwp = stash.cache_mmap(map_dwp);
            if let Some(dwp_) = Object::parse(map_dwp) {
                return Some(dwp_);
            }
        }

        None
    }
}

struct ParsedSym {
    address: u64,
    size: u64,
    name: u32,
}

pub struct Object<'a> {
    /// Zero-sized type representing the native endianness.
    ///
    /// We could use a literal instead, but this helps ensure correctness.
    endian: NativeEndian,
    /// The entire file data.
    data: &'a [u8],
    sections: SectionTable<'a, Elf>,
    strings: StringTable<'a>,
    /// List of pre-parsed and sorted symbols by base address.
    syms: Vec<ParsedSym>,
}

impl<'a> Object<'a> {
    fn parse(data: &'a [u8]) -> Option<Object<'a>> {
        let elf = Elf::parse(data).ok()?;
        let endian = elf.endian().ok()?;
        let sections = elf.sections(endian, data).ok()?;
        let mut syms = sections
            .symbols(endian, data, object::elf::SHT_SYMTAB)
            .ok()?;
        if syms.is_empty() {
            syms = sections
                .symbols(endian, data, object::elf::SHT_DYNSYM)
                .ok()?;
        }
        let strings = syms.strings();

        let mut syms = syms
            .iter()
            // Only look at function/object symbols. This mirrors what
            // libbacktrace does and in general we're only symbolicating
            // function addresses in theory. Object symbols correspond
            // to data, and maybe someone's crazy enough to have a
            // function go into static data?
            .filter(|sym| {
                let st_type = sym.st_type();
                st_type == object::elf::STT_FUNC || st_type == object::elf::STT_OBJECT
            })
            // skip anything that's in an undefined section header,
            // since it means it's an imported function and we're only
            // symbolicating with locally defined functions.
            .filter(|sym| sym.st_shndx(endian) != object::elf::SHN_UNDEF)
            .map(|sym| {
                let address = sym.st_value(endian).into();
                let size = sym.st_size(endian).into();
                let name = sym.st_name(endian);
                ParsedSym {
                    address,
                    size,
                    name,
                }
            })
            .collect::<Vec<_>>();
        syms.sort_unstable_by_key(|s| s.address);
        Some(Object {
            endian,
            data,
            sections,
            strings,
            syms,
        })
    }

    pub fn section(&self, stash: &'a Stash, name: &str) -> Option<&'a [u8]> {
        if let Some(section) = self.section_header(name) {
            let mut data = Bytes(section.data(self.endian, self.data).ok()?);

            // Check for DWARF-standard (gABI) compression, i.e., as generated
            // by ld's `--compress-debug-sections=zlib-gabi` flag.
            let flags: u64 = section.sh_flags(self.endian).into();
            if (flags & u64::from(SHF_COMPRESSED)) == 0 {
                // Not compressed.
                return Some(data.0);
            }

            let header = data.read::<<Elf as FileHeader>::CompressionHeader>().ok()?;
            if header.ch_type(self.endian) != ELFCOMPRESS_ZLIB {
                // Zlib compression is the only known type.
                return None;
            }
            let size = usize::try_from(header.ch_size(self.endian)).ok()?;
            let buf = stash.allocate(size);
            decompress_zlib(data.0, buf)?;
            return Some(buf);
        }

        // Check for the nonstandard GNU compression format, i.e., as generated
        // by ld's `--compress-debug-sections=zlib-gnu` flag. This means that if
        // we're actually asking for `.debug_info` then we need to look up a
        // section named `.zdebug_info`.
        if !name.starts_with(".debug_") {
            return None;
        }
        let debug_name = name[7..].as_bytes();
        let compressed_section = self
            .sections
            .iter()
            .filter_map(|header| {
                let name = self.sections.section_name(self.endian, header).ok()?;
                if name.starts_with(b".zdebug_") && &name[8..] == debug_name {
                    Some(header)
                } else {
                    None
                }
            })
            .next()?;
        let mut data = Bytes(compressed_section.data(self.endian, self.data).ok()?);
        if data.read_bytes(8).ok()?.0 != b"ZLIB\0\0\0\0" {
            return None;
        }
        let size = usize::try_from(data.read::<object::U32Bytes<_>>().ok()?.get(BigEndian)).ok()?;
        let buf = stash.allocate(size);
        decompress_zlib(data.0, buf)?;
        Some(buf)
    }

    fn section_header(&self, name: &str) -> Option<&<Elf as FileHeader>::SectionHeader> {
        self.sections
            .section_by_name(self.endian, name.as_bytes())
            .map(|(_index, section)| section)
    }

    pub fn search_symtab<'b>(&'b self, addr: u64) -> Option<&'b [u8]> {
        // Same sort of binary search as Windows above
        let i = match self.syms.binary_search_by_key(&addr, |sym| sym.address) {
            Ok(i) => i,
            Err(i) => i.checked_sub(1)?,
        };
        let sym = self.syms.get(i)?;
        if sym.address <= addr && addr <= sym.address + sym.size {
            self.strings.get(sym.name).ok()
        } else {
            None
        }
    }

    pub(super) fn search_object_map(&self, _addr: u64) -> Option<(&Context<'_>, u64)> {
        None
    }

    fn build_id(&self) -> Option<&'a [u8]> {
        for section in self.sections.iter() {
            if let Ok(Some(mut notes)) = section.notes(self.endian, self.data) {
                while let Ok(Some(note)) = notes.next() {
                    if note.name() == ELF_NOTE_GNU && note.n_type(self.endian) == NT_GNU_BUILD_ID {
                        return Some(note.desc());
                    }
                }
            }
        }
        None
    }

    // The contents of the ".gnu_debuglink" section is documented at:
    // https://sourceware.org/gdb/onlinedocs/gdb/Separate-Debug-Files.html
    fn gnu_debuglink_path(&self, path: &Path) -> Option<(PathBuf, u32)> {
        let section = self.section_header(".gnu_debuglink")?;
        let data = section.data(self.endian, self.data).ok()?;
        let len = data.iter().position(|x| *x == 0)?;
        let filename = &data[..len];
        let offset = (len + 1 + 3) & !3;
        let crc_bytes = data
            .get(offset..offset + 4)
            .and_then(|bytes| bytes.try_into().ok())?;
        let crc = u32::from_ne_bytes(crc_bytes);
        let path_debug = locate_debuglink(path, filename)?;
        Some((path_debug, crc))
    }

    // The format of the ".gnu_debugaltlink" section is based on gdb.
    fn gnu_debugaltlink_path(&self, path: &Path) -> Option<(PathBuf, &'a [u8])> {
        let section = self.section_header(".gnu_debugaltlink")?;
        let data = section.data(self.endian, self.data).ok()?;
        let len = data.iter().position(|x| *x == 0)?;
        let filename = &data[..len];
        let build_id = &data[len + 1..];
        let path_sup = locate_debugaltlink(path, filename, build_id)?;
        Some((path_sup, build_id))
    }
}

fn decompress_zlib(input: &[u8], output: &mut [u8]) -> Option<()> {
    use miniz_oxide::inflate::core::inflate_flags::{
        TINFL_FLAG_PARSE_ZLIB_HEADER, TINFL_FLAG_USING_NON_WRAPPING_OUTPUT_BUF,
    };
    use miniz_oxide::inflate::core::{decompress, DecompressorOxide};
    use miniz_oxide::inflate::TINFLStatus;

    let (status, in_read, out_read) = decompress(
        &mut DecompressorOxide::new(),
        input,
        output,
        0,
        TINFL_FLAG_USING_NON_WRAPPING_OUTPUT_BUF | TINFL_FLAG_PARSE_ZLIB_HEADER,
    );
    if status == TINFLStatus::Done && in_read == input.len() && out_read == output.len() {
        Some(())
    } else {
        None
    }
}

const DEBUG_PATH: &[u8] = b"/usr/lib/debug";

fn debug_path_exists() -> bool {
    cfg_if::cfg_if! {
        if #[cfg(any(target_os = "freebsd", target_os = "hurd", target_os = "linux"))] {
            use core::sync::atomic::{AtomicU8, Ordering};
            static DEBUG_PATH_EXISTS: AtomicU8 = AtomicU8::new(0);

            let mut exists = DEBUG_PATH_EXISTS.load(Ordering::Relaxed);
            if exists == 0 {
                exists = if Path::new(OsStr::from_bytes(DEBUG_PATH)).is_dir() {
                    1
                } else {
                    2
                };
                DEBUG_PATH_EXISTS.store(exists, Ordering::Relaxed);
            }
            exists == 1
        } else {
            false
        }
    }
}

/// Locate a debug file based on its build ID.
///
/// The format of build id paths is documented at:
/// https://sourceware.org/gdb/onlinedocs/gdb/Separate-Debug-Files.html
fn locate_build_id(build_id: &[u8]) -> Option<PathBuf> {
    const BUILD_ID_PATH: &[u8] = b"/usr/lib/debug/.build-id/";
    const BUILD_ID_SUFFIX: &[u8] = b".debug";

    if build_id.len() < 2 {
        return None;
    }

    if !debug_path_exists() {
        return None;
    }

    let mut path =
        Vec::with_capacity(BUILD_ID_PATH.len() + BUILD_ID_SUFFIX.len() + build_id.len() * 2 + 1);
    path.extend(BUILD_ID_PATH);
    path.push(hex(build_id[0] >> 4));
    path.push(hex(build_id[0] & 0xf));
    path.push(b'/');
    for byte in &build_id[1..] {
        path.push(hex(byte >> 4));
        path.push(hex(byte & 0xf));
    }
    path.extend(BUILD_ID_SUFFIX);
    Some(PathBuf::from(OsString::from_vec(path)))
}

fn hex(byte: u8) -> u8 {
    if byte < 10 {
        b'0' + byte
    } else {
        b'a' + byte - 10
    }
}

/// Locate a file specified in a `.gnu_debuglink` section.
///
/// `path` is the file containing the section.
/// `filename` is from the contents of the section.
///
/// Search order is based on gdb, documented at:
/// https://sourceware.org/gdb/onlinedocs/gdb/Separate-Debug-Files.html
///
/// gdb also allows the user to customize the debug search path, but we don't.
///
/// gdb also supports debuginfod, but we don't yet.
fn locate_debuglink(path: &Path, filename: &[u8]) -> Option<PathBuf> {
    let path = fs::canonicalize(path).ok()?;
    let parent = path.parent()?;
    let mut f = PathBuf::from(OsString::with_capacity(
        DEBUG_PATH.len() + parent.as_os_str().len() + filename.len() + 2,
    ));
    let filename = Path::new(OsStr::from_bytes(filename));

    // Try "/parent/filename" if it differs from "path"
    f.push(parent);
    f.push(filename);
    if f != path && f.is_file() {
        return Some(f);
    }

    // Try "/parent/.debug/filename"
    let mut s = OsString::from(f);
    s.clear();
    f = PathBuf::from(s);
    f.push(parent);
    f.push(".debug");
    f.push(filename);
    if f.is_file() {
        return Some(f);
    }

    if debug_path_exists() {
        // Try "/usr/lib/debug/parent/filename"
        let mut s = OsString::from(f);
        s.clear();
        f = PathBuf::from(s);
        f.push(OsStr::from_bytes(DEBUG_PATH));
        f.push(parent.strip_prefix("/").unwrap());
        f.push(filename);
        if f.is_file() {
            return Some(f);
        }
    }

    None
}

/// Locate a file specified in a `.gnu_debugaltlink` section.
///
/// `path` is the file containing the section.
/// `filename` and `build_id` are the contents of the section.
///
/// Search order is based on gdb:
/// - filename, which is either absolute or relative to `path`
/// - the build ID path under `BUILD_ID_PATH`
///
/// gdb also allows the user to customize the debug search path, but we don't.
///
/// gdb also supports debuginfod, but we don't yet.
fn locate_debugaltlink(path: &Path, filename: &[u8], build_id: &[u8]) -> Option<PathBuf> {
    let filename = Path::new(OsStr::from_bytes(filename));
    if filename.is_absolute() {
        if filename.is_file() {
            return Some(filename.into());
        }
    } else {
        let path = fs::canonicalize(path).ok()?;
        let parent = path.parent()?;
        let mut f = PathBuf::from(parent);
        f.push(filename);
        if f.is_file() {
            return Some(f);
        }
    }

    locate_build_id(build_id)
}

fn convert_path<R: gimli::Reader>(r: &R) -> Result<PathBuf, gimli::Error> {
    let bytes = r.to_slice()?;
    Ok(PathBuf::from(OsStr::from_bytes(&bytes)))
}

pub(super) fn handle_split_dwarf<'data>(
    package: Option<&gimli::DwarfPackage<EndianSlice<'data, Endian>>>,
    stash: &'data Stash,
    load: addr2line::SplitDwarfLoad<EndianSlice<'data, Endian>>,
) -> Option<Arc<gimli::Dwarf<EndianSlice<'data, Endian>>>> {
    if let Some(dwp) = package.as_ref() {
        if let Ok(Some(cu)) = dwp.find_cu(load.dwo_id, &load.parent) {
            return Some(Arc::new(cu));
        }
    }

    let mut path = PathBuf::new();
    if let Some(p) = load.comp_dir.as_ref() {
        path.push(convert_path(p).ok()?);
    }

    path.push(convert_path(load.path.as_ref()?).ok()?);

    if let Some(map_dwo) = super::mmap(&path) {
        let map_dwo = stash.cache_mmap(map_dwo);
        if let Some(dwo) = Object::parse(map_dwo) {
            return gimli::Dwarf::load(|id| -> Result<_, ()> {
                let data = id
                    .dwo_name()
                    .and_then(|name| dwo.section(stash, name))
                    .unwrap_or(&[]);
                Ok(EndianSlice::new(data, Endian))
            })
            .ok()
            .map(|mut dwo_dwarf| {
                dwo_dwarf.make_dwo(&load.parent);
                Arc::new(dwo_dwarf)
            });
        }
    }

    None
}
