use super::mystd::fs::File;
use super::mystd::os::unix::prelude::*;
use core::ops::Deref;
use core::ptr;
use core::slice;

#[cfg(not(all(target_os = "linux", target_env = "gnu")))]
use libc::mmap as mmap64;
#[cfg(all(target_os = "linux", target_env = "gnu"))]
use libc::mmap64;

pub struct Mmap {
    ptr: *mut libc::c_void,
    len: usize,
}

impl Mmap {
    pub unsafe fn map(file: &File, len: usize) -> Option<Mmap> {
        let ptr = mmap64(
            ptr::null_mut(),
            len,
            libc::PROT_READ,
            libc::MAP_PRIVATE,
            file.as_raw_fd(),
            0,
        );
        if ptr == libc::MAP_FAILED {
            return None;
        }
        Some(Mmap { ptr, len })
    }
}

impl Deref for Mmap {
    type Target = [u8];

    fn deref(&self) -> &[u8] {
        unsafe { slice::from_raw_parts(self.ptr as *const u8, self.len) }
    }
}

impl Drop for Mmap {
    fn drop(&mut self) {
        unsafe {
            let r = libc::munmap(self.ptr, self.len);
            debug_assert_eq!(r, 0);
        }
    }
}
