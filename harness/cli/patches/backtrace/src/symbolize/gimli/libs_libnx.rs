use super::{Library, LibrarySegment, Vec};

// DevkitA64 doesn't natively support debug info, but the build system will
// place debug info at the path `romfs:/debug_info.elf`.
pub(super) fn native_libraries() -> Vec<Library> {
    extern "C" {
        static __start__: u8;
    }

    let bias = core::ptr::addr_of!(__start__) as usize;

    let mut ret = Vec::new();
    let mut segments = Vec::new();
    segments.push(LibrarySegment {
        stated_virtual_memory_address: 0,
        len: usize::max_value() - bias,
    });

    let path = "romfs:/debug_info.elf";
    ret.push(Library {
        name: path.into(),
        segments,
        bias,
    });

    ret
}
