use super::super::super::windows_sys::*;
use super::mystd::os::windows::prelude::*;
use super::{coff, mmap, Library, LibrarySegment, OsString};
use alloc::vec;
use alloc::vec::Vec;
use core::mem;
use core::mem::MaybeUninit;

// For loading native libraries on Windows, see some discussion on
// rust-lang/rust#71060 for the various strategies here.
pub(super) fn native_libraries() -> Vec<Library> {
    let mut ret = Vec::new();
    unsafe {
        add_loaded_images(&mut ret);
    }
    return ret;
}

unsafe fn add_loaded_images(ret: &mut Vec<Library>) {
    let snap = CreateToolhelp32Snapshot(TH32CS_SNAPMODULE, 0);
    if snap == INVALID_HANDLE_VALUE {
        return;
    }

    let mut me = MaybeUninit::<MODULEENTRY32W>::zeroed().assume_init();
    me.dwSize = mem::size_of_val(&me) as u32;
    if Module32FirstW(snap, &mut me) == TRUE {
        loop {
            if let Some(lib) = load_library(&me) {
                ret.push(lib);
            }

            if Module32NextW(snap, &mut me) != TRUE {
                break;
            }
        }
    }

    CloseHandle(snap);
}

unsafe fn load_library(me: &MODULEENTRY32W) -> Option<Library> {
    let pos = me
        .szExePath
        .iter()
        .position(|i| *i == 0)
        .unwrap_or(me.szExePath.len());
    let name = OsString::from_wide(&me.szExePath[..pos]);

    // MinGW libraries currently don't support ASLR
    // (rust-lang/rust#16514), but DLLs can still be relocated around in
    // the address space. It appears that addresses in debug info are
    // all as-if this library was loaded at its "image base", which is a
    // field in its COFF file headers. Since this is what debuginfo
    // seems to list we parse the symbol table and store addresses as if
    // the library was loaded at "image base" as well.
    //
    // The library may not be loaded at "image base", however.
    // (presumably something else may be loaded there?) This is where
    // the `bias` field comes into play, and we need to figure out the
    // value of `bias` here. Unfortunately though it's not clear how to
    // acquire this from a loaded module. What we do have, however, is
    // the actual load address (`modBaseAddr`).
    //
    // As a bit of a cop-out for now we mmap the file, read the file
    // header information, then drop the mmap. This is wasteful because
    // we'll probably reopen the mmap later, but this should work well
    // enough for now.
    //
    // Once we have the `image_base` (desired load location) and the
    // `base_addr` (actual load location) we can fill in the `bias`
    // (difference between the actual and desired) and then the stated
    // address of each segment is the `image_base` since that's what the
    // file says.
    //
    // For now it appears that unlike ELF/MachO we can make do with one
    // segment per library, using `modBaseSize` as the whole size.
    let mmap = mmap(name.as_ref())?;
    let image_base = coff::get_image_base(&mmap)?;
    let base_addr = me.modBaseAddr as usize;
    Some(Library {
        name,
        bias: base_addr.wrapping_sub(image_base),
        segments: vec![LibrarySegment {
            stated_virtual_memory_address: image_base,
            len: me.modBaseSize as usize,
        }],
    })
}
