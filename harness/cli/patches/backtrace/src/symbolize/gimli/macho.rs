use super::{gimli, Box, Context, Endian, EndianSlice, Mapping, Path, Stash, Vec};
use alloc::sync::Arc;
use core::convert::TryInto;
use object::macho;
use object::read::macho::{MachHeader, Nlist, Section, Segment as _};
use object::{Bytes, NativeEndian};

#[cfg(target_pointer_width = "32")]
type Mach = object::macho::MachHeader32<NativeEndian>;
#[cfg(target_pointer_width = "64")]
type Mach = object::macho::MachHeader64<NativeEndian>;
type MachSegment = <Mach as MachHeader>::Segment;
type MachSection = <Mach as MachHeader>::Section;
type MachNlist = <Mach as MachHeader>::Nlist;

impl Mapping {
    // The loading path for macOS is so different we just have a completely
    // different implementation of the function here. On macOS we need to go
    // probing the filesystem for a bunch of files.
    pub fn new(path: &Path) -> Option<Mapping> {
        // First up we need to load the unique UUID which is stored in the macho
        // header of the file we're reading, specified at `path`.
        let map = super::mmap(path)?;
        let (macho, data) = find_header(&map)?;
        let endian = macho.endian().ok()?;
        let uuid = macho.uuid(endian, data, 0).ok()?;

        // Next we need to look for a `*.dSYM` file. For now we just probe the
        // containing directory and look around for something that matches
        // `*.dSYM`. Once it's found we root through the dwarf resources that it
        // contains and try to find a macho file which has a matching UUID as
        // the one of our own file. If we find a match that's the dwarf file we
        // want to return.
        if let Some(uuid) = uuid {
            if let Some(parent) = path.parent() {
                if let Some(mapping) = Mapping::load_dsym(parent, uuid) {
                    return Some(mapping);
                }
            }
        }

        // Looks like nothing matched our UUID, so let's at least return our own
        // file. This should have the symbol table for at least some
        // symbolication purposes.
        Mapping::mk(map, |data, stash| {
            let (macho, data) = find_header(data)?;
            let endian = macho.endian().ok()?;
            let obj = Object::parse(macho, endian, data)?;
            Context::new(stash, obj, None, None)
        })
    }

    fn load_dsym(dir: &Path, uuid: [u8; 16]) -> Option<Mapping> {
        for entry in dir.read_dir().ok()? {
            let entry = entry.ok()?;
            let filename = match entry.file_name().into_string() {
                Ok(name) => name,
                Err(_) => continue,
            };
            if !filename.ends_with(".dSYM") {
                continue;
            }
            let candidates = entry.path().join("Contents/Resources/DWARF");
            if let Some(mapping) = Mapping::try_dsym_candidate(&candidates, uuid) {
                return Some(mapping);
            }
        }
        None
    }

    fn try_dsym_candidate(dir: &Path, uuid: [u8; 16]) -> Option<Mapping> {
        // Look for files in the `DWARF` directory which have a matching uuid to
        // the original object file. If we find one then we found the debug
        // information.
        for entry in dir.read_dir().ok()? {
            let entry = entry.ok()?;
            let map = super::mmap(&entry.path())?;
            let candidate = Mapping::mk(map, |data, stash| {
                let (macho, data) = find_header(data)?;
                let endian = macho.endian().ok()?;
                let entry_uuid = macho.uuid(endian, data, 0).ok()??;
                if entry_uuid != uuid {
                    return None;
                }
                let obj = Object::parse(macho, endian, data)?;
                Context::new(stash, obj, None, None)
            });
            if let Some(candidate) = candidate {
                return Some(candidate);
            }
        }

        None
    }
}

fn find_header(data: &'_ [u8]) -> Option<(&'_ Mach, &'_ [u8])> {
    use object::endian::BigEndian;

    let desired_cpu = || {
        if cfg!(target_arch = "x86") {
            Some(macho::CPU_TYPE_X86)
        } else if cfg!(target_arch = "x86_64") {
            Some(macho::CPU_TYPE_X86_64)
        } else if cfg!(target_arch = "arm") {
            Some(macho::CPU_TYPE_ARM)
        } else if cfg!(target_arch = "aarch64") {
            Some(macho::CPU_TYPE_ARM64)
        } else {
            None
        }
    };

    let mut data = Bytes(data);
    match data
        .clone()
        .read::<object::endian::U32<NativeEndian>>()
        .ok()?
        .get(NativeEndian)
    {
        macho::MH_MAGIC_64 | macho::MH_CIGAM_64 | macho::MH_MAGIC | macho::MH_CIGAM => {}

        macho::FAT_MAGIC | macho::FAT_CIGAM => {
            let mut header_data = data;
            let endian = BigEndian;
            let header = header_data.read::<macho::FatHeader>().ok()?;
            let nfat = header.nfat_arch.get(endian);
            let arch = (0..nfat)
                .filter_map(|_| header_data.read::<macho::FatArch32>().ok())
                .find(|arch| desired_cpu() == Some(arch.cputype.get(endian)))?;
            let offset = arch.offset.get(endian);
            let size = arch.size.get(endian);
            data = data
                .read_bytes_at(offset.try_into().ok()?, size.try_into().ok()?)
                .ok()?;
        }

        macho::FAT_MAGIC_64 | macho::FAT_CIGAM_64 => {
            let mut header_data = data;
            let endian = BigEndian;
            let header = header_data.read::<macho::FatHeader>().ok()?;
            let nfat = header.nfat_arch.get(endian);
            let arch = (0..nfat)
                .filter_map(|_| header_data.read::<macho::FatArch64>().ok())
                .find(|arch| desired_cpu() == Some(arch.cputype.get(endian)))?;
            let offset = arch.offset.get(endian);
            let size = arch.size.get(endian);
            data = data
                .read_bytes_at(offset.try_into().ok()?, size.try_into().ok()?)
                .ok()?;
        }

        _ => return None,
    }

    Mach::parse(data.0, 0).ok().map(|h| (h, data.0))
}

// This is used both for executables/libraries and source object files.
pub struct Object<'a> {
    endian: NativeEndian,
    data: &'a [u8],
    dwarf: Option<&'a [MachSection]>,
    syms: Vec<(&'a [u8], u64)>,
    syms_sort_by_name: bool,
    // Only set for executables/libraries, and not the source object files.
    object_map: Option<object::ObjectMap<'a>>,
    // The outer Option is for lazy loading, and the inner Option allows load errors to be cached.
    object_mappings: Box<[Option<Option<Mapping>>]>,
}

impl<'a> Object<'a> {
    fn parse(mach: &'a Mach, endian: NativeEndian, data: &'a [u8]) -> Option<Object<'a>> {
        let is_object = mach.filetype(endian) == object::macho::MH_OBJECT;
        let mut dwarf = None;
        let mut syms = Vec::new();
        let mut syms_sort_by_name = false;
        let mut commands = mach.load_commands(endian, data, 0).ok()?;
        let mut object_map = None;
        let mut object_mappings = Vec::new();
        while let Ok(Some(command)) = commands.next() {
            if let Some((segment, section_data)) = MachSegment::from_command(command).ok()? {
                // Object files should have all sections in a single unnamed segment load command.
                if segment.name() == b"__DWARF" || (is_object && segment.name() == b"") {
                    dwarf = segment.sections(endian, section_data).ok();
                }
            } else if let Some(symtab) = command.symtab().ok()? {
                let symbols = symtab.symbols::<Mach, _>(endian, data).ok()?;
                syms = symbols
                    .iter()
                    .filter_map(|nlist: &MachNlist| {
                        let name = nlist.name(endian, symbols.strings()).ok()?;
                        if name.len() > 0 && nlist.is_definition() {
                            Some((name, u64::from(nlist.n_value(endian))))
                        } else {
                            None
                        }
                    })
                    .collect();
                if is_object {
                    // We never search object file symbols by address.
                    // Instead, we already know the symbol name from the executable, and we
                    // need to search by name to find the matching symbol in the object file.
                    syms.sort_unstable_by_key(|(name, _)| *name);
                    syms_sort_by_name = true;
                } else {
                    syms.sort_unstable_by_key(|(_, addr)| *addr);
                    let map = symbols.object_map(endian);
                    object_mappings.resize_with(map.objects().len(), || None);
                    object_map = Some(map);
                }
            }
        }

        Some(Object {
            endian,
            data,
            dwarf,
            syms,
            syms_sort_by_name,
            object_map,
            object_mappings: object_mappings.into_boxed_slice(),
        })
    }

    pub fn section(&self, _: &Stash, name: &str) -> Option<&'a [u8]> {
        let name = name.as_bytes();
        let dwarf = self.dwarf?;
        let section = dwarf.into_iter().find(|section| {
            let section_name = section.name();
            section_name == name || {
                section_name.starts_with(b"__")
                    && name.starts_with(b".")
                    && &section_name[2..] == &name[1..]
            }
        })?;
        Some(section.data(self.endian, self.data).ok()?)
    }

    pub fn search_symtab<'b>(&'b self, addr: u64) -> Option<&'b [u8]> {
        debug_assert!(!self.syms_sort_by_name);
        let i = match self.syms.binary_search_by_key(&addr, |(_, addr)| *addr) {
            Ok(i) => i,
            Err(i) => i.checked_sub(1)?,
        };
        let (sym, _addr) = self.syms.get(i)?;
        Some(sym)
    }

    /// Try to load a context for an object file.
    ///
    /// If dsymutil was not run, then the DWARF may be found in the source object files.
    pub(super) fn search_object_map<'b>(&'b mut self, addr: u64) -> Option<(&Context<'b>, u64)> {
        // `object_map` contains a map from addresses to symbols and object paths.
        // Look up the address and get a mapping for the object.
        let object_map = self.object_map.as_ref()?;
        let symbol = object_map.get(addr)?;
        let object_index = symbol.object_index();
        let mapping = self.object_mappings.get_mut(object_index)?;
        if mapping.is_none() {
            // No cached mapping, so create it.
            *mapping = Some(object_mapping(object_map.objects().get(object_index)?));
        }
        let cx: &'b Context<'static> = &mapping.as_ref()?.as_ref()?.cx;
        // Don't leak the `'static` lifetime, make sure it's scoped to just ourselves.
        let cx = unsafe { core::mem::transmute::<&'b Context<'static>, &'b Context<'b>>(cx) };

        // We must translate the address in order to be able to look it up
        // in the DWARF in the object file.
        debug_assert!(cx.object.syms.is_empty() || cx.object.syms_sort_by_name);
        let i = cx
            .object
            .syms
            .binary_search_by_key(&symbol.name(), |(name, _)| *name)
            .ok()?;
        let object_symbol = cx.object.syms.get(i)?;
        let object_addr = addr
            .wrapping_sub(symbol.address())
            .wrapping_add(object_symbol.1);
        Some((cx, object_addr))
    }
}

fn object_mapping(file: &object::read::ObjectMapFile<'_>) -> Option<Mapping> {
    use super::mystd::ffi::OsStr;
    use super::mystd::os::unix::prelude::*;

    let map = super::mmap(Path::new(OsStr::from_bytes(file.path())))?;
    let member_name = file.member();
    Mapping::mk(map, |data, stash| {
        let data = match member_name {
            Some(member_name) => {
                let archive = object::read::archive::ArchiveFile::parse(data).ok()?;
                let member = archive
                    .members()
                    .filter_map(Result::ok)
                    .find(|m| m.name() == member_name)?;
                member.data(data).ok()?
            }
            None => data,
        };
        let (macho, data) = find_header(data)?;
        let endian = macho.endian().ok()?;
        let obj = Object::parse(macho, endian, data)?;
        Context::new(stash, obj, None, None)
    })
}

pub(super) fn handle_split_dwarf<'data>(
    _package: Option<&gimli::DwarfPackage<EndianSlice<'data, Endian>>>,
    _stash: &'data Stash,
    _load: addr2line::SplitDwarfLoad<EndianSlice<'data, Endian>>,
) -> Option<Arc<gimli::Dwarf<EndianSlice<'data, Endian>>>> {
    None
}
