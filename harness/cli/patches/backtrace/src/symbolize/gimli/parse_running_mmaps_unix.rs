// Note: This file is only currently used on targets that call out to the code
// in `mod libs_dl_iterate_phdr` (e.g. linux, freebsd, ...); it may be more
// general purpose, but it hasn't been tested elsewhere.

use super::mystd::fs::File;
use super::mystd::io::Read;
use super::mystd::str::FromStr;
use super::{OsString, String, Vec};

#[derive(PartialEq, Eq, Debug)]
pub(super) struct MapsEntry {
    /// start (inclusive) and limit (exclusive) of address range.
    address: (usize, usize),
    /// The perms field are the permissions for the entry
    ///
    /// r = read
    /// w = write
    /// x = execute
    /// s = shared
    /// p = private (copy on write)
    perms: [char; 4],
    /// Offset into the file (or "whatever").
    offset: usize,
    /// device (major, minor)
    dev: (usize, usize),
    /// inode on the device. 0 indicates that no inode is associated with the memory region (e.g. uninitalized data aka BSS).
    inode: usize,
    /// Usually the file backing the mapping.
    ///
    /// Note: The man page for proc includes a note about "coordination" by
    /// using readelf to see the Offset field in ELF program headers. pnkfelix
    /// is not yet sure if that is intended to be a comment on pathname, or what
    /// form/purpose such coordination is meant to have.
    ///
    /// There are also some pseudo-paths:
    /// "[stack]": The initial process's (aka main thread's) stack.
    /// "[stack:<tid>]": a specific thread's stack. (This was only present for a limited range of Linux verisons; it was determined to be too expensive to provide.)
    /// "[vdso]": Virtual dynamically linked shared object
    /// "[heap]": The process's heap
    ///
    /// The pathname can be blank, which means it is an anonymous mapping
    /// obtained via mmap.
    ///
    /// Newlines in pathname are replaced with an octal escape sequence.
    ///
    /// The pathname may have "(deleted)" appended onto it if the file-backed
    /// path has been deleted.
    ///
    /// Note that modifications like the latter two indicated above imply that
    /// in general the pathname may be ambiguous. (I.e. you cannot tell if the
    /// denoted filename actually ended with the text "(deleted)", or if that
    /// was added by the maps rendering.
    pathname: OsString,
}

pub(super) fn parse_maps() -> Result<Vec<MapsEntry>, &'static str> {
    let mut v = Vec::new();
    let mut proc_self_maps =
        File::open("/proc/self/maps").map_err(|_| "Couldn't open /proc/self/maps")?;
    let mut buf = String::new();
    let _bytes_read = proc_self_maps
        .read_to_string(&mut buf)
        .map_err(|_| "Couldn't read /proc/self/maps")?;
    for line in buf.lines() {
        v.push(line.parse()?);
    }

    Ok(v)
}

impl MapsEntry {
    pub(super) fn pathname(&self) -> &OsString {
        &self.pathname
    }

    pub(super) fn ip_matches(&self, ip: usize) -> bool {
        self.address.0 <= ip && ip < self.address.1
    }
}

impl FromStr for MapsEntry {
    type Err = &'static str;

    // Format: address perms offset dev inode pathname
    // e.g.: "ffffffffff600000-ffffffffff601000 --xp 00000000 00:00 0                  [vsyscall]"
    // e.g.: "7f5985f46000-7f5985f48000 rw-p 00039000 103:06 76021795                  /usr/lib/x86_64-linux-gnu/ld-linux-x86-64.so.2"
    // e.g.: "35b1a21000-35b1a22000 rw-p 00000000 00:00 0"
    //
    // Note that paths may contain spaces, so we can't use `str::split` for parsing (until
    // Split::remainder is stabilized #77998).
    fn from_str(s: &str) -> Result<Self, Self::Err> {
        let (range_str, s) = s.trim_start().split_once(' ').unwrap_or((s, ""));
        if range_str.is_empty() {
            return Err("Couldn't find address");
        }

        let (perms_str, s) = s.trim_start().split_once(' ').unwrap_or((s, ""));
        if perms_str.is_empty() {
            return Err("Couldn't find permissions");
        }

        let (offset_str, s) = s.trim_start().split_once(' ').unwrap_or((s, ""));
        if offset_str.is_empty() {
            return Err("Couldn't find offset");
        }

        let (dev_str, s) = s.trim_start().split_once(' ').unwrap_or((s, ""));
        if dev_str.is_empty() {
            return Err("Couldn't find dev");
        }

        let (inode_str, s) = s.trim_start().split_once(' ').unwrap_or((s, ""));
        if inode_str.is_empty() {
            return Err("Couldn't find inode");
        }

        // Pathname may be omitted in which case it will be empty
        let pathname_str = s.trim_start();

        let hex = |s| usize::from_str_radix(s, 16).map_err(|_| "Couldn't parse hex number");
        let address = if let Some((start, limit)) = range_str.split_once('-') {
            (hex(start)?, hex(limit)?)
        } else {
            return Err("Couldn't parse address range");
        };
        let perms: [char; 4] = {
            let mut chars = perms_str.chars();
            let mut c = || chars.next().ok_or("insufficient perms");
            let perms = [c()?, c()?, c()?, c()?];
            if chars.next().is_some() {
                return Err("too many perms");
            }
            perms
        };
        let offset = hex(offset_str)?;
        let dev = if let Some((major, minor)) = dev_str.split_once(':') {
            (hex(major)?, hex(minor)?)
        } else {
            return Err("Couldn't parse dev");
        };
        let inode = hex(inode_str)?;
        let pathname = pathname_str.into();

        Ok(MapsEntry {
            address,
            perms,
            offset,
            dev,
            inode,
            pathname,
        })
    }
}

// Make sure we can parse 64-bit sample output if we're on a 64-bit target.
#[cfg(target_pointer_width = "64")]
#[test]
fn check_maps_entry_parsing_64bit() {
    assert_eq!(
        "ffffffffff600000-ffffffffff601000 --xp 00000000 00:00 0                  \
                [vsyscall]"
            .parse::<MapsEntry>()
            .unwrap(),
        MapsEntry {
            address: (0xffffffffff600000, 0xffffffffff601000),
            perms: ['-', '-', 'x', 'p'],
            offset: 0x00000000,
            dev: (0x00, 0x00),
            inode: 0x0,
            pathname: "[vsyscall]".into(),
        }
    );

    assert_eq!(
        "7f5985f46000-7f5985f48000 rw-p 00039000 103:06 76021795                  \
                /usr/lib/x86_64-linux-gnu/ld-linux-x86-64.so.2"
            .parse::<MapsEntry>()
            .unwrap(),
        MapsEntry {
            address: (0x7f5985f46000, 0x7f5985f48000),
            perms: ['r', 'w', '-', 'p'],
            offset: 0x00039000,
            dev: (0x103, 0x06),
            inode: 0x76021795,
            pathname: "/usr/lib/x86_64-linux-gnu/ld-linux-x86-64.so.2".into(),
        }
    );
    assert_eq!(
        "35b1a21000-35b1a22000 rw-p 00000000 00:00 0"
            .parse::<MapsEntry>()
            .unwrap(),
        MapsEntry {
            address: (0x35b1a21000, 0x35b1a22000),
            perms: ['r', 'w', '-', 'p'],
            offset: 0x00000000,
            dev: (0x00, 0x00),
            inode: 0x0,
            pathname: Default::default(),
        }
    );
}

// (This output was taken from a 32-bit machine, but will work on any target)
#[test]
fn check_maps_entry_parsing_32bit() {
    /* Example snippet of output:
    08056000-08077000 rw-p 00000000 00:00 0          [heap]
    b7c79000-b7e02000 r--p 00000000 08:01 60662705   /usr/lib/locale/locale-archive
    b7e02000-b7e03000 rw-p 00000000 00:00 0
        */
    assert_eq!(
        "08056000-08077000 rw-p 00000000 00:00 0          \
                [heap]"
            .parse::<MapsEntry>()
            .unwrap(),
        MapsEntry {
            address: (0x08056000, 0x08077000),
            perms: ['r', 'w', '-', 'p'],
            offset: 0x00000000,
            dev: (0x00, 0x00),
            inode: 0x0,
            pathname: "[heap]".into(),
        }
    );

    assert_eq!(
        "b7c79000-b7e02000 r--p 00000000 08:01 60662705   \
                /usr/lib/locale/locale-archive"
            .parse::<MapsEntry>()
            .unwrap(),
        MapsEntry {
            address: (0xb7c79000, 0xb7e02000),
            perms: ['r', '-', '-', 'p'],
            offset: 0x00000000,
            dev: (0x08, 0x01),
            inode: 0x60662705,
            pathname: "/usr/lib/locale/locale-archive".into(),
        }
    );
    assert_eq!(
        "b7e02000-b7e03000 rw-p 00000000 00:00 0"
            .parse::<MapsEntry>()
            .unwrap(),
        MapsEntry {
            address: (0xb7e02000, 0xb7e03000),
            perms: ['r', 'w', '-', 'p'],
            offset: 0x00000000,
            dev: (0x00, 0x00),
            inode: 0x0,
            pathname: Default::default(),
        }
    );
    assert_eq!(
        "b7c79000-b7e02000 r--p 00000000 08:01 60662705   \
                /executable/path/with some spaces"
            .parse::<MapsEntry>()
            .unwrap(),
        MapsEntry {
            address: (0xb7c79000, 0xb7e02000),
            perms: ['r', '-', '-', 'p'],
            offset: 0x00000000,
            dev: (0x08, 0x01),
            inode: 0x60662705,
            pathname: "/executable/path/with some spaces".into(),
        }
    );
    assert_eq!(
        "b7c79000-b7e02000 r--p 00000000 08:01 60662705   \
                /executable/path/with  multiple-continuous    spaces  "
            .parse::<MapsEntry>()
            .unwrap(),
        MapsEntry {
            address: (0xb7c79000, 0xb7e02000),
            perms: ['r', '-', '-', 'p'],
            offset: 0x00000000,
            dev: (0x08, 0x01),
            inode: 0x60662705,
            pathname: "/executable/path/with  multiple-continuous    spaces  ".into(),
        }
    );
    assert_eq!(
        "  b7c79000-b7e02000  r--p  00000000  08:01  60662705   \
                /executable/path/starts-with-spaces"
            .parse::<MapsEntry>()
            .unwrap(),
        MapsEntry {
            address: (0xb7c79000, 0xb7e02000),
            perms: ['r', '-', '-', 'p'],
            offset: 0x00000000,
            dev: (0x08, 0x01),
            inode: 0x60662705,
            pathname: "/executable/path/starts-with-spaces".into(),
        }
    );
}
