#![allow(clippy::all)]
// only used on Linux right now, so allow dead code elsewhere
#![cfg_attr(not(target_os = "linux"), allow(dead_code))]

use super::Mmap;
use alloc::vec;
use alloc::vec::Vec;
use core::cell::UnsafeCell;

/// A simple arena allocator for byte buffers.
pub struct Stash {
    buffers: UnsafeCell<Vec<Vec<u8>>>,
    mmaps: UnsafeCell<Vec<Mmap>>,
}

impl Stash {
    pub fn new() -> Stash {
        Stash {
            buffers: UnsafeCell::new(Vec::new()),
            mmaps: UnsafeCell::new(Vec::new()),
        }
    }

    /// Allocates a buffer of the specified size and returns a mutable reference
    /// to it.
    pub fn allocate(&self, size: usize) -> &mut [u8] {
        // SAFETY: this is the only function that ever constructs a mutable
        // reference to `self.buffers`.
        let buffers = unsafe { &mut *self.buffers.get() };
        let i = buffers.len();
        buffers.push(vec![0; size]);
        // SAFETY: we never remove elements from `self.buffers`, so a reference
        // to the data inside any buffer will live as long as `self` does.
        &mut buffers[i]
    }

    /// Stores a `Mmap` for the lifetime of this `Stash`, returning a pointer
    /// which is scoped to just this lifetime.
    pub fn cache_mmap(&self, map: Mmap) -> &[u8] {
        // SAFETY: this is the only location for a mutable pointer to
        // `mmaps`, and this structure isn't threadsafe to shared across
        // threads either. We also never remove elements from `self.mmaps`,
        // so a reference to the data inside the map will live as long as
        // `self` does.
        unsafe {
            let mmaps = &mut *self.mmaps.get();
            mmaps.push(map);
            mmaps.last().unwrap()
        }
    }
}
