use super::{mystd::io::Read, File};
use alloc::vec::Vec;
use core::ops::Deref;

pub struct Mmap {
    vec: Vec<u8>,
}

impl Mmap {
    pub unsafe fn map(mut file: &File, len: usize) -> Option<Mmap> {
        let mut mmap = Mmap {
            vec: Vec::with_capacity(len),
        };
        file.read_to_end(&mut mmap.vec).ok()?;
        Some(mmap)
    }
}

impl Deref for Mmap {
    type Target = [u8];

    fn deref(&self) -> &[u8] {
        &self.vec[..]
    }
}
