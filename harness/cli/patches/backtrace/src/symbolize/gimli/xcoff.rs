use super::mystd::ffi::{OsStr, OsString};
use super::mystd::os::unix::ffi::OsStrExt;
use super::mystd::str;
use super::{gimli, Context, Endian, EndianSlice, Mapping, Path, Stash, Vec};
use alloc::sync::Arc;
use core::ops::Deref;
use object::read::archive::ArchiveFile;
use object::read::xcoff::{FileHeader, SectionHeader, XcoffFile, XcoffSymbol};
use object::Object as _;
use object::ObjectSection as _;
use object::ObjectSymbol as _;
use object::SymbolFlags;

#[cfg(target_pointer_width = "32")]
type Xcoff = object::xcoff::FileHeader32;
#[cfg(target_pointer_width = "64")]
type Xcoff = object::xcoff::FileHeader64;

impl Mapping {
    pub fn new(path: &Path, member_name: &OsString) -> Option<Mapping> {
        let map = super::mmap(path)?;
        Mapping::mk(map, |data, stash| {
            if member_name.is_empty() {
                Context::new(stash, Object::parse(data)?, None, None)
            } else {
                let archive = ArchiveFile::parse(data).ok()?;
                for member in archive
                    .members()
                    .filter_map(|m| m.ok())
                    .filter(|m| OsStr::from_bytes(m.name()) == member_name)
                {
                    let member_data = member.data(data).ok()?;
                    if let Some(obj) = Object::parse(member_data) {
                        return Context::new(stash, obj, None, None);
                    }
                }
                None
            }
        })
    }
}

struct ParsedSym<'a> {
    address: u64,
    size: u64,
    name: &'a str,
}

pub struct Object<'a> {
    syms: Vec<ParsedSym<'a>>,
    file: XcoffFile<'a, Xcoff>,
}

pub struct Image {
    pub offset: usize,
    pub base: u64,
    pub size: usize,
}

pub fn parse_xcoff(data: &[u8]) -> Option<Image> {
    let mut offset = 0;
    let header = Xcoff::parse(data, &mut offset).ok()?;
    let _ = header.aux_header(data, &mut offset).ok()?;
    let sections = header.sections(data, &mut offset).ok()?;
    if let Some(section) = sections.iter().find(|s| {
        if let Ok(name) = str::from_utf8(&s.s_name()[0..5]) {
            name == ".text"
        } else {
            false
        }
    }) {
        Some(Image {
            offset: section.s_scnptr() as usize,
            base: section.s_paddr() as u64,
            size: section.s_size() as usize,
        })
    } else {
        None
    }
}

pub fn parse_image(path: &Path, member_name: &OsString) -> Option<Image> {
    let map = super::mmap(path)?;
    let data = map.deref();
    if member_name.is_empty() {
        return parse_xcoff(data);
    } else {
        let archive = ArchiveFile::parse(data).ok()?;
        for member in archive
            .members()
            .filter_map(|m| m.ok())
            .filter(|m| OsStr::from_bytes(m.name()) == member_name)
        {
            let member_data = member.data(data).ok()?;
            if let Some(image) = parse_xcoff(member_data) {
                return Some(image);
            }
        }
        None
    }
}

impl<'a> Object<'a> {
    fn get_concrete_size(file: &XcoffFile<'a, Xcoff>, sym: &XcoffSymbol<'a, '_, Xcoff>) -> u64 {
        match sym.flags() {
            SymbolFlags::Xcoff {
                n_sclass: _,
                x_smtyp: _,
                x_smclas: _,
                containing_csect: Some(index),
            } => {
                if let Ok(tgt_sym) = file.symbol_by_index(index) {
                    Self::get_concrete_size(file, &tgt_sym)
                } else {
                    0
                }
            }
            _ => sym.size(),
        }
    }

    fn parse(data: &'a [u8]) -> Option<Object<'a>> {
        let file = XcoffFile::parse(data).ok()?;
        let mut syms = file
            .symbols()
            .filter_map(|sym| {
                let name = sym.name().map_or("", |v| v);
                let address = sym.address();
                let size = Self::get_concrete_size(&file, &sym);
                if name == ".text" || name == ".data" {
                    // We don't want to include ".text" and ".data" symbols.
                    // If they are included, since their ranges cover other
                    // symbols, when searching a symbol for a given address,
                    // ".text" or ".data" is returned. That's not what we expect.
                    None
                } else {
                    Some(ParsedSym {
                        address,
                        size,
                        name,
                    })
                }
            })
            .collect::<Vec<_>>();
        syms.sort_by_key(|s| s.address);
        Some(Object { syms, file })
    }

    pub fn section(&self, _: &Stash, name: &str) -> Option<&'a [u8]> {
        Some(self.file.section_by_name(name)?.data().ok()?)
    }

    pub fn search_symtab<'b>(&'b self, addr: u64) -> Option<&'b [u8]> {
        // Symbols, except ".text" and ".data", are sorted and are not overlapped each other,
        // so we can just perform a binary search here.
        let i = match self.syms.binary_search_by_key(&addr, |sym| sym.address) {
            Ok(i) => i,
            Err(i) => i.checked_sub(1)?,
        };
        let sym = self.syms.get(i)?;
        if (sym.address..sym.address + sym.size).contains(&addr) {
            // On AIX, for a function call, for example, `foo()`, we have
            // two symbols `foo` and `.foo`. `foo` references the function
            // descriptor and `.foo` references the function entry.
            // See https://www.ibm.com/docs/en/xl-fortran-aix/16.1.0?topic=calls-linkage-convention-function
            // for more information.
            // We trim the prefix `.` here, so that the rust demangler can work
            // properly.
            Some(sym.name.trim_start_matches(".").as_bytes())
        } else {
            None
        }
    }

    pub(super) fn search_object_map(&self, _addr: u64) -> Option<(&Context<'_>, u64)> {
        None
    }
}

pub(super) fn handle_split_dwarf<'data>(
    _package: Option<&gimli::DwarfPackage<EndianSlice<'data, Endian>>>,
    _stash: &'data Stash,
    _load: addr2line::SplitDwarfLoad<EndianSlice<'data, Endian>>,
) -> Option<Arc<gimli::Dwarf<EndianSlice<'data, Endian>>>> {
    None
}
