use super::mystd::borrow::ToOwned;
use super::mystd::env;
use super::mystd::ffi::{CStr, OsStr};
use super::mystd::io::Error;
use super::mystd::os::unix::prelude::*;
use super::xcoff;
use super::{Library, LibrarySegment, Vec};
use alloc::vec;
use core::mem;

const EXE_IMAGE_BASE: u64 = 0x100000000;

/// On AIX, we use `loadquery` with `L_GETINFO` flag to query libraries mmapped.
/// See https://www.ibm.com/docs/en/aix/7.2?topic=l-loadquery-subroutine for
/// detailed information of `loadquery`.
pub(super) fn native_libraries() -> Vec<Library> {
    let mut ret = Vec::new();
    unsafe {
        let mut buffer = vec![mem::zeroed::<libc::ld_info>(); 64];
        loop {
            if libc::loadquery(
                libc::L_GETINFO,
                buffer.as_mut_ptr().cast::<libc::c_char>(),
                (mem::size_of::<libc::ld_info>() * buffer.len()) as u32,
            ) != -1
            {
                break;
            } else {
                match Error::last_os_error().raw_os_error() {
                    Some(libc::ENOMEM) => {
                        buffer.resize(buffer.len() * 2, mem::zeroed::<libc::ld_info>());
                    }
                    Some(_) => {
                        // If other error occurs, return empty libraries.
                        return Vec::new();
                    }
                    _ => unreachable!(),
                }
            }
        }
        let mut current = buffer.as_mut_ptr();
        loop {
            let text_base = (*current).ldinfo_textorg as usize;
            let filename_ptr: *const libc::c_char = &(*current).ldinfo_filename[0];
            let bytes = CStr::from_ptr(filename_ptr).to_bytes();
            let member_name_ptr = filename_ptr.offset((bytes.len() + 1) as isize);
            let mut filename = OsStr::from_bytes(bytes).to_owned();
            if text_base == EXE_IMAGE_BASE as usize {
                if let Ok(exe) = env::current_exe() {
                    filename = exe.into_os_string();
                }
            }
            let bytes = CStr::from_ptr(member_name_ptr).to_bytes();
            let member_name = OsStr::from_bytes(bytes).to_owned();
            if let Some(image) = xcoff::parse_image(filename.as_ref(), &member_name) {
                ret.push(Library {
                    name: filename,
                    member_name,
                    segments: vec![LibrarySegment {
                        stated_virtual_memory_address: image.base as usize,
                        len: image.size,
                    }],
                    bias: (text_base + image.offset).wrapping_sub(image.base as usize),
                });
            }
            if (*current).ldinfo_next == 0 {
                break;
            }
            current = current
                .cast::<libc::c_char>()
                .offset((*current).ldinfo_next as isize)
                .cast::<libc::ld_info>();
        }
    }
    return ret;
}
