use super::mystd::borrow::ToOwned;
use super::mystd::ffi::{CStr, OsStr};
use super::mystd::os::unix::prelude::*;
use super::{Library, LibrarySegment, Vec};
use core::mem;
use object::NativeEndian;

#[cfg(target_pointer_width = "64")]
use object::elf::{FileHeader64 as FileHeader, ProgramHeader64 as ProgramHeader};

type EHdr = FileHeader<NativeEndian>;
type PHdr = ProgramHeader<NativeEndian>;

#[repr(C)]
struct LinkMap {
    l_addr: libc::c_ulong,
    l_name: *const libc::c_char,
    l_ld: *const libc::c_void,
    l_next: *const LinkMap,
    l_prev: *const LinkMap,
    l_refname: *const libc::c_char,
}

const RTLD_SELF: *const libc::c_void = -3isize as *const libc::c_void;
const RTLD_DI_LINKMAP: libc::c_int = 2;

extern "C" {
    fn dlinfo(
        handle: *const libc::c_void,
        request: libc::c_int,
        p: *mut libc::c_void,
    ) -> libc::c_int;
}

pub(super) fn native_libraries() -> Vec<Library> {
    let mut libs = Vec::new();

    // Request the current link map from the runtime linker:
    let map = unsafe {
        let mut map: *const LinkMap = mem::zeroed();
        if dlinfo(
            RTLD_SELF,
            RTLD_DI_LINKMAP,
            core::ptr::addr_of_mut!(map).cast::<libc::c_void>(),
        ) != 0
        {
            return libs;
        }
        map
    };

    // Each entry in the link map represents a loaded object:
    let mut l = map;
    while !l.is_null() {
        // Fetch the fully qualified path of the loaded object:
        let bytes = unsafe { CStr::from_ptr((*l).l_name) }.to_bytes();
        let name = OsStr::from_bytes(bytes).to_owned();

        // The base address of the object loaded into memory:
        let addr = unsafe { (*l).l_addr };

        // Use the ELF header for this object to locate the program
        // header:
        let e: *const EHdr = unsafe { (*l).l_addr as *const EHdr };
        let phoff = unsafe { (*e).e_phoff }.get(NativeEndian);
        let phnum = unsafe { (*e).e_phnum }.get(NativeEndian);
        let etype = unsafe { (*e).e_type }.get(NativeEndian);

        let phdr: *const PHdr = (addr + phoff) as *const PHdr;
        let phdr = unsafe { core::slice::from_raw_parts(phdr, phnum as usize) };

        libs.push(Library {
            name,
            segments: phdr
                .iter()
                .map(|p| {
                    let memsz = p.p_memsz.get(NativeEndian);
                    let vaddr = p.p_vaddr.get(NativeEndian);
                    LibrarySegment {
                        len: memsz as usize,
                        stated_virtual_memory_address: vaddr as usize,
                    }
                })
                .collect(),
            bias: if etype == object::elf::ET_EXEC {
                // Program header addresses for the base executable are
                // already absolute.
                0
            } else {
                // Other addresses are relative to the object base.
                addr as usize
            },
        });

        l = unsafe { (*l).l_next };
    }

    libs
}
