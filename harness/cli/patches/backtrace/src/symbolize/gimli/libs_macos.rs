#![allow(deprecated)]

use super::mystd::ffi::{CStr, OsStr};
use super::mystd::os::unix::prelude::*;
use super::mystd::prelude::v1::*;
use super::{Library, LibrarySegment};
use core::convert::TryInto;
use core::mem;

// FIXME: replace with ptr::from_ref once MSRV is high enough
#[inline(always)]
#[must_use]
const fn ptr_from_ref<T: ?Sized>(r: &T) -> *const T {
    r
}

pub(super) fn native_libraries() -> Vec<Library> {
    let mut ret = Vec::new();
    let images = unsafe { libc::_dyld_image_count() };
    for i in 0..images {
        ret.extend(native_library(i));
    }
    return ret;
}

fn native_library(i: u32) -> Option<Library> {
    use object::macho;
    use object::read::macho::{MachHeader, Segment};
    use object::NativeEndian;

    // Fetch the name of this library which corresponds to the path of
    // where to load it as well.
    let name = unsafe {
        let name = libc::_dyld_get_image_name(i);
        if name.is_null() {
            return None;
        }
        CStr::from_ptr(name)
    };

    // Load the image header of this library and delegate to `object` to
    // parse all the load commands so we can figure out all the segments
    // involved here.
    let (mut load_commands, endian) = unsafe {
        let header = libc::_dyld_get_image_header(i);
        if header.is_null() {
            return None;
        }
        match (*header).magic {
            macho::MH_MAGIC => {
                let endian = NativeEndian;
                let header = &*header.cast::<macho::MachHeader32<NativeEndian>>();
                let data = core::slice::from_raw_parts(
                    ptr_from_ref(header).cast::<u8>(),
                    mem::size_of_val(header) + header.sizeofcmds.get(endian) as usize,
                );
                (header.load_commands(endian, data, 0).ok()?, endian)
            }
            macho::MH_MAGIC_64 => {
                let endian = NativeEndian;
                let header = &*header.cast::<macho::MachHeader64<NativeEndian>>();
                let data = core::slice::from_raw_parts(
                    ptr_from_ref(header).cast::<u8>(),
                    mem::size_of_val(header) + header.sizeofcmds.get(endian) as usize,
                );
                (header.load_commands(endian, data, 0).ok()?, endian)
            }
            _ => return None,
        }
    };

    // Iterate over the segments and register known regions for segments
    // that we find. Additionally record information bout text segments
    // for processing later, see comments below.
    let mut segments = Vec::new();
    let mut first_text = 0;
    let mut text_fileoff_zero = false;
    while let Some(cmd) = load_commands.next().ok()? {
        if let Some((seg, _)) = cmd.segment_32().ok()? {
            if seg.name() == b"__TEXT" {
                first_text = segments.len();
                if seg.fileoff(endian) == 0 && seg.filesize(endian) > 0 {
                    text_fileoff_zero = true;
                }
            }
            segments.push(LibrarySegment {
                len: seg.vmsize(endian).try_into().ok()?,
                stated_virtual_memory_address: seg.vmaddr(endian).try_into().ok()?,
            });
        }
        if let Some((seg, _)) = cmd.segment_64().ok()? {
            if seg.name() == b"__TEXT" {
                first_text = segments.len();
                if seg.fileoff(endian) == 0 && seg.filesize(endian) > 0 {
                    text_fileoff_zero = true;
                }
            }
            segments.push(LibrarySegment {
                len: seg.vmsize(endian).try_into().ok()?,
                stated_virtual_memory_address: seg.vmaddr(endian).try_into().ok()?,
            });
        }
    }

    // Determine the "slide" for this library which ends up being the
    // bias we use to figure out where in memory objects are loaded.
    // This is a bit of a weird computation though and is the result of
    // trying a few things in the wild and seeing what sticks.
    //
    // The general idea is that the `bias` plus a segment's
    // `stated_virtual_memory_address` is going to be where in the
    // actual address space the segment resides. The other thing we rely
    // on though is that a real address minus the `bias` is the index to
    // look up in the symbol table and debuginfo.
    //
    // It turns out, though, that for system loaded libraries these
    // calculations are incorrect. For native executables, however, it
    // appears correct. Lifting some logic from LLDB's source it has
    // some special-casing for the first `__TEXT` section loaded from
    // file offset 0 with a nonzero size. For whatever reason when this
    // is present it appears to mean that the symbol table is relative
    // to just the vmaddr slide for the library. If it's *not* present
    // then the symbol table is relative to the vmaddr slide plus the
    // segment's stated address.
    //
    // To handle this situation if we *don't* find a text section at
    // file offset zero then we increase the bias by the first text
    // sections's stated address and decrease all stated addresses by
    // that amount as well. That way the symbol table is always appears
    // relative to the library's bias amount. This appears to have the
    // right results for symbolizing via the symbol table.
    //
    // Honestly I'm not entirely sure whether this is right or if
    // there's something else that should indicate how to do this. For
    // now though this seems to work well enough (?) and we should
    // always be able to tweak this over time if necessary.
    //
    // For some more information see #318
    let mut slide = unsafe { libc::_dyld_get_image_vmaddr_slide(i) as usize };
    if !text_fileoff_zero {
        let adjust = segments[first_text].stated_virtual_memory_address;
        for segment in segments.iter_mut() {
            segment.stated_virtual_memory_address -= adjust;
        }
        slide += adjust;
    }

    Some(Library {
        name: OsStr::from_bytes(name.to_bytes()).to_owned(),
        segments,
        bias: slide,
    })
}
