use super::{gimli, Context, Endian, EndianSlice, Mapping, Path, Stash, Vec};
use alloc::sync::Arc;
use core::convert::TryFrom;
use object::pe::{ImageDosHeader, ImageSymbol};
use object::read::coff::ImageSymbol as _;
use object::read::pe::{ImageNtHeaders, ImageOptionalHeader, SectionTable};
use object::read::StringTable;
use object::LittleEndian as LE;

#[cfg(target_pointer_width = "32")]
type Pe = object::pe::ImageNtHeaders32;
#[cfg(target_pointer_width = "64")]
type Pe = object::pe::ImageNtHeaders64;

impl Mapping {
    pub fn new(path: &Path) -> Option<Mapping> {
        let map = super::mmap(path)?;
        Mapping::mk(map, |data, stash| {
            Context::new(stash, Object::parse(data)?, None, None)
        })
    }
}

pub struct Object<'a> {
    data: &'a [u8],
    sections: SectionTable<'a>,
    symbols: Vec<(usize, &'a ImageSymbol)>,
    strings: StringTable<'a>,
}

pub fn get_image_base(data: &[u8]) -> Option<usize> {
    let dos_header = ImageDosHeader::parse(data).ok()?;
    let mut offset = dos_header.nt_headers_offset().into();
    let (nt_headers, _) = Pe::parse(data, &mut offset).ok()?;
    usize::try_from(nt_headers.optional_header().image_base()).ok()
}

impl<'a> Object<'a> {
    fn parse(data: &'a [u8]) -> Option<Object<'a>> {
        let dos_header = ImageDosHeader::parse(data).ok()?;
        let mut offset = dos_header.nt_headers_offset().into();
        let (nt_headers, _) = Pe::parse(data, &mut offset).ok()?;
        let sections = nt_headers.sections(data, offset).ok()?;
        let symtab = nt_headers.symbols(data).ok()?;
        let strings = symtab.strings();
        let image_base = usize::try_from(nt_headers.optional_header().image_base()).ok()?;

        // Collect all the symbols into a local vector which is sorted
        // by address and contains enough data to learn about the symbol
        // name. Note that we only look at function symbols and also
        // note that the sections are 1-indexed because the zero section
        // is special (apparently).
        let mut symbols = Vec::new();
        for (_, sym) in symtab.iter() {
            if sym.derived_type() != object::pe::IMAGE_SYM_DTYPE_FUNCTION {
                continue;
            }
            let Some(section_index) = sym.section() else {
                continue;
            };
            let addr = usize::try_from(sym.value.get(LE)).ok()?;
            let section = sections.section(section_index).ok()?;
            let va = usize::try_from(section.virtual_address.get(LE)).ok()?;
            symbols.push((addr + va + image_base, sym));
        }
        symbols.sort_unstable_by_key(|x| x.0);
        Some(Object {
            data,
            sections,
            strings,
            symbols,
        })
    }

    pub fn section(&self, _: &Stash, name: &str) -> Option<&'a [u8]> {
        Some(
            self.sections
                .section_by_name(self.strings, name.as_bytes())?
                .1
                .pe_data(self.data)
                .ok()?,
        )
    }

    pub fn search_symtab<'b>(&'b self, addr: u64) -> Option<&'b [u8]> {
        // Note that unlike other formats COFF doesn't embed the size of
        // each symbol. As a last ditch effort search for the *closest*
        // symbol to a particular address and return that one. This gets
        // really wonky once symbols start getting removed because the
        // symbols returned here can be totally incorrect, but we have
        // no idea of knowing how to detect that.
        let addr = usize::try_from(addr).ok()?;
        let i = match self.symbols.binary_search_by_key(&addr, |p| p.0) {
            Ok(i) => i,
            // typically `addr` isn't in the array, but `i` is where
            // we'd insert it, so the previous position must be the
            // greatest less than `addr`
            Err(i) => i.checked_sub(1)?,
        };
        self.symbols[i].1.name(self.strings).ok()
    }

    pub(super) fn search_object_map(&self, _addr: u64) -> Option<(&Context<'_>, u64)> {
        None
    }
}

pub(super) fn handle_split_dwarf<'data>(
    _package: Option<&gimli::DwarfPackage<EndianSlice<'data, Endian>>>,
    _stash: &'data Stash,
    _load: addr2line::SplitDwarfLoad<EndianSlice<'data, Endian>>,
) -> Option<Arc<gimli::Dwarf<EndianSlice<'data, Endian>>>> {
    None
}
