use core::ffi::c_void;
use core::marker::PhantomData;

use super::super::backtrace::miri::{resolve_addr, Frame};
use super::BytesOrWideString;
use super::{ResolveWhat, SymbolName};

pub unsafe fn resolve(what: ResolveWhat<'_>, cb: &mut dyn FnMut(&super::Symbol)) {
    let sym = match what {
        ResolveWhat::Address(addr) => Symbol {
            inner: resolve_addr(addr),
            _unused: PhantomData,
        },
        ResolveWhat::Frame(frame) => Symbol {
            inner: frame.inner.clone(),
            _unused: PhantomData,
        },
    };
    cb(&super::Symbol { inner: sym })
}

pub struct Symbol<'a> {
    inner: Frame,
    _unused: PhantomData<&'a ()>,
}

impl<'a> Symbol<'a> {
    pub fn name(&self) -> Option<SymbolName<'_>> {
        Some(SymbolName::new(&self.inner.inner.name))
    }

    pub fn addr(&self) -> Option<*mut c_void> {
        Some(self.inner.addr)
    }

    pub fn filename_raw(&self) -> Option<BytesOrWideString<'_>> {
        Some(BytesOrWideString::Bytes(&self.inner.inner.filename))
    }

    pub fn lineno(&self) -> Option<u32> {
        Some(self.inner.inner.lineno)
    }

    pub fn colno(&self) -> Option<u32> {
        Some(self.inner.inner.colno)
    }

    #[cfg(feature = "std")]
    pub fn filename(&self) -> Option<&std::path::Path> {
        Some(std::path::Path::new(
            core::str::from_utf8(&self.inner.inner.filename).unwrap(),
        ))
    }
}

pub unsafe fn clear_symbol_cache() {}
