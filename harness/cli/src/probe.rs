//! Probes (NOT for registration): kept as the source of the measurements in the group report.
//!
//! * `probe_trivial` — step-1 probe: does the crate graph of watchexec-cli compile under kani at all.
//! * `c17_simple_format_one_event` — C17 text emission, ONE concrete event with one path and one fs kind:
//!   `events_to_simple_format` goes through `core::fmt` (`writeln!` with two `Display` arguments) and
//!   `Path::to_string_lossy` (`Utf8Chunks`). Measured: still in symbolic execution at the 600 s cap
//!   (504 loop unwindings logged, 325 of them in `Utf8Chunks::next`, 134 in the `find_map` over `event.tags`).
#![allow(dead_code)]
use std::collections::HashMap;
use std::hash as stdhash;
#[allow(unused_imports)] // used in `#[kani::stub(..)]` paths only
use std::panic as stdpanic;
use std::path::PathBuf;

use watchexec_cli::verif::events_to_simple_format;
use watchexec_events::filekind::{CreateKind, FileEventKind};
use watchexec_events::{Event, Tag};

pub fn random_state_stub() -> stdhash::RandomState {
    unsafe { std::mem::transmute::<(u64, u64), stdhash::RandomState>((0, 0)) }
}

#[kani::proof]
#[kani::stub(stdpanic::catch_unwind, crate::util::catch_unwind_stub)]
#[kani::stub(miette::eyreish::capture_handler, crate::util::capture_handler_stub)]
#[kani::stub(stdhash::RandomState::new, random_state_stub)]
#[kani::unwind(12)]
pub fn c17_simple_format_one_event() {
    let mut tags = Vec::with_capacity(2);
    tags.push(Tag::Path { path: PathBuf::from("/a"), file_type: None });
    tags.push(Tag::FileEventKind(FileEventKind::Create(CreateKind::File)));
    let ev = [Event { tags, metadata: HashMap::with_hasher(random_state_stub()) }];
    let r = events_to_simple_format(&ev);
    assert!(r.is_ok(), "C17: text emission failed");
    if let Ok(s) = &r {
        let b = s.as_bytes();
        let want = b"create:/a\n";
        assert!(b.len() == want.len(), "C17: one (kind, path) pair is not exactly one line");
        let mut i = 0;
        while i < want.len() {
            assert!(b[i] == want[i], "C17: line is not kind:path");
            i += 1;
        }
        kani::cover!(b.len() == 10, "one line emitted");
    }
    std::mem::forget(r);
    std::mem::forget(ev);
}

#[kani::proof]
pub fn probe_trivial() {
    let x: u8 = kani::any();
    kani::cover!(x == 3, "probe");
    assert!(x as u16 + 1 > 0);
}
