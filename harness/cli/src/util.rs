//! Standing stubs and helpers shared by the harnesses of this group.
use std::any::Any;
use std::panic::UnwindSafe;

/// Kani ICE work-around (intrinsics.rs:243): any reachable thread-local destructor drags in
/// `catch_unwind`; under Kani's panic=abort semantics `Ok(f())` is exact.
pub fn catch_unwind_stub<F: FnOnce() -> R + UnwindSafe, R>(f: F) -> Result<R, Box<dyn Any + Send>> {
    Ok(f())
}

pub fn no_format(_: std::fmt::Arguments<'_>) -> String {
    String::new()
}

#[macro_export]
macro_rules! split {
    ($n:expr, |$v:ident| $body:block) => {{
        let __c: usize = kani::any();
        kani::assume(__c < $n);
        let mut __i = 0usize;
        while __i < $n {
            if __c == __i {
                let $v: usize = __i;
                $body
            }
            __i += 1;
        }
    }};
}

/// kani-compiler 0.68 ICEs (`assert_is_rust_box_like`, utils.rs:234) on `miette::eyreish::capture_handler`'s
/// `Box::new(get_default_printer)` (a boxed zero-sized fn item), i.e. on every reachable construction of a
/// `miette::Report`. The default printer only matters when a report is *printed*; serve the plain debug handler,
/// which is what `miette::set_hook(|_| Box::new(DebugReportHandler::new()))` would install.
pub fn capture_handler_stub(_error: &(dyn miette::Diagnostic + 'static)) -> Box<dyn miette::ReportHandler> {
    Box::new(miette::DebugReportHandler::new())
}
