//! Symbolic values of the CLI argument enums (none of them implements `kani::Arbitrary`).
use watchexec_cli::verif::{EmitEvents, OnBusyUpdate, WrapMode};
use watchexec_signals::Signal;

pub fn any_signal() -> Signal {
    let k: u8 = kani::any();
    match k {
        0 => Signal::Hangup,
        1 => Signal::ForceStop,
        2 => Signal::Interrupt,
        3 => Signal::Quit,
        4 => Signal::Terminate,
        5 => Signal::User1,
        6 => Signal::User2,
        _ => Signal::Custom(kani::any()),
    }
}

pub fn any_opt_signal() -> Option<Signal> {
    if kani::any() {
        Some(any_signal())
    } else {
        None
    }
}

pub fn any_busy() -> OnBusyUpdate {
    let k: u8 = kani::any();
    match k {
        0 => OnBusyUpdate::Queue,
        1 => OnBusyUpdate::DoNothing,
        2 => OnBusyUpdate::Restart,
        _ => OnBusyUpdate::Signal,
    }
}

pub fn any_emit() -> EmitEvents {
    let k: u8 = kani::any();
    match k {
        0 => EmitEvents::Environment,
        1 => EmitEvents::Stdio,
        2 => EmitEvents::File,
        3 => EmitEvents::JsonStdio,
        4 => EmitEvents::JsonFile,
        _ => EmitEvents::None,
    }
}

pub fn any_wrap() -> WrapMode {
    let k: u8 = kani::any();
    match k {
        0 => WrapMode::Group,
        1 => WrapMode::Session,
        _ => WrapMode::None,
    }
}
