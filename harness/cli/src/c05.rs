//! C05 (CLI half): `EventsArgs::normalise` — the `--restart` / `--signal` shorthands select the busy-update mode,
//! `--no-environment` and `--only-emit-events` select the emission mode, nothing else changes.
#[allow(unused_imports)] // used in `#[kani::stub(..)]` paths only
use std::panic as stdpanic;

use watchexec_cli::verif::{
    baseline_command, baseline_events, baseline_filtering, events_normalise, EmitEvents, OnBusyUpdate,
};
use watchexec_signals::Signal;

use crate::gen::*;

fn same_signal(a: Option<Signal>, b: Option<Signal>) -> bool {
    match (a, b) {
        (None, None) => true,
        (Some(x), Some(y)) => x == y,
        _ => false,
    }
}

/// Every (mode, restart, signal, emit, no_environment, only_emit_events, stdin_quit, postpone) combination;
/// `Signal::Custom` over all of i32. `--watch-file` absent (the `stdin_quit && watch_file == "-"` exit is the
/// only other branch; `PathBuf ==` walks `Components`).
#[kani::proof]
#[kani::stub(stdpanic::catch_unwind, crate::util::catch_unwind_stub)]
pub fn c05_events_normalise() {
    let mut command = baseline_command();
    let filtering = baseline_filtering();
    let mut events = baseline_events();

    let mode0 = any_busy();
    let restart: bool = kani::any();
    let signal = any_opt_signal();
    let emit0 = any_emit();
    let no_env: bool = kani::any();
    let only: bool = kani::any();
    let stdin_quit: bool = kani::any();
    let postpone: bool = kani::any();

    events.on_busy_update = mode0;
    events.restart = restart;
    events.signal = signal;
    events.emit_events_to = emit0;
    events.stdin_quit = stdin_quit;
    events.postpone = postpone;
    command.no_environment = no_env;

    let r = events_normalise(&mut events, &command, &filtering, only);
    assert!(r.is_ok(), "C05: EventsArgs::normalise failed without --watch-file");

    // busy-update mode
    let mode = events.on_busy_update as u8;
    if signal.is_some() {
        assert!(mode == OnBusyUpdate::Signal as u8, "C05: --signal does not select on-busy-update=signal");
    } else if restart {
        assert!(mode == OnBusyUpdate::Restart as u8, "C05: --restart does not select on-busy-update=restart");
    } else {
        assert!(mode == mode0 as u8, "C05: on-busy-update changed without --restart/--signal");
    }

    // emission mode
    let e1 = if no_env { EmitEvents::None } else { emit0 };
    let expect = if only && !matches!(e1, EmitEvents::JsonStdio | EmitEvents::Stdio) {
        EmitEvents::JsonStdio
    } else {
        e1
    };
    assert!(events.emit_events_to as u8 == expect as u8, "C05: emit-events-to not as documented");

    // the shorthands themselves and the unrelated switches are left alone
    assert!(events.restart == restart, "C05: normalise changed --restart");
    assert!(same_signal(events.signal, signal), "C05: normalise changed --signal");
    assert!(events.stdin_quit == stdin_quit && events.postpone == postpone, "C05: normalise changed an unrelated switch");
    assert!(events.signal_map.is_empty() && events.poll.is_none(), "C05: normalise changed an unrelated option");

    // One cover only: under `--concrete-playback` every SATISFIED cover makes CBMC emit one more trace of this
    // 44 MB goto program (~80 s each, all held by kani-driver; 8 covers ran out of 10 GB). Verify-only they are free.
    kani::cover!(
        matches!(signal, Some(Signal::Custom(n)) if n == i32::MIN) && restart && mode == OnBusyUpdate::Signal as u8 && stdin_quit,
        "custom signal wins over restart"
    );
    std::mem::forget(r);
    std::mem::forget(events);
    std::mem::forget(command);
    std::mem::forget(filtering);
}
