//! C12 (CLI half): `FilteringArgs::normalise` — `--ignore-nothing` switches all five ignore sources off, otherwise
//! every `--no-*-ignore` flag removes exactly the source it names (the flags are left as given); `--no-meta`
//! expands to the four non-metadata fs kinds.
//!
//! The function is `async`; with no `--watch-file`, a given `--project-origin` and no filter programs it reaches no
//! suspension point, so ONE poll with a no-op waker must return `Ready`. `dunce::canonicalize` (realpath FFI) is the
//! only environment call on that path and is stubbed to the identity; "/" is used so the native replay agrees.
use std::future::Future;
#[allow(unused_imports)] // used in `#[kani::stub(..)]` paths only
use std::panic as stdpanic;
use std::path::{Path, PathBuf};
use std::pin::pin;
use std::task::{Context, Poll, Waker};

use watchexec_cli::verif::{baseline_command, baseline_filtering, filtering_normalise, FsEvent};

pub fn canonicalize_identity<P: AsRef<Path>>(path: P) -> std::io::Result<PathBuf> {
    Ok(path.as_ref().to_path_buf())
}

#[kani::proof]
#[kani::stub(stdpanic::catch_unwind, crate::util::catch_unwind_stub)]
#[kani::stub(miette::eyreish::capture_handler, crate::util::capture_handler_stub)]
#[kani::stub(dunce::canonicalize, canonicalize_identity)]
#[kani::unwind(6)]
pub fn c12_filtering_normalise_flags() {
    let mut command = baseline_command();
    command.workdir = Some(PathBuf::from("/"));
    let mut f = baseline_filtering();
    f.project_origin = Some(PathBuf::from("/"));

    let vcs: bool = kani::any();
    let project: bool = kani::any();
    let global: bool = kani::any();
    let default: bool = kani::any();
    let discover: bool = kani::any();
    let nothing: bool = kani::any();
    let no_meta: bool = kani::any();
    f.no_vcs_ignore = vcs;
    f.no_project_ignore = project;
    f.no_global_ignore = global;
    f.no_default_ignore = default;
    f.no_discover_ignore = discover;
    f.ignore_nothing = nothing;
    f.filter_fs_meta = no_meta;

    let ready = {
        let fut = filtering_normalise(&mut f, &command);
        let mut fut = pin!(fut);
        let mut cx = Context::from_waker(Waker::noop());
        match fut.as_mut().poll(&mut cx) {
            Poll::Ready(r) => {
                let ok = r.is_ok();
                std::mem::forget(r);
                Some(ok)
            }
            Poll::Pending => None,
        }
    };
    assert!(ready.is_some(), "C12: FilteringArgs::normalise suspended without file inputs");
    assert!(ready == Some(true), "C12: FilteringArgs::normalise failed without file inputs");

    if nothing {
        assert!(
            f.no_vcs_ignore && f.no_project_ignore && f.no_global_ignore && f.no_default_ignore && f.no_discover_ignore,
            "C12: --ignore-nothing leaves an ignore source enabled"
        );
    } else {
        assert!(f.no_vcs_ignore == vcs, "C12: --no-vcs-ignore changed by normalise");
        assert!(f.no_project_ignore == project, "C12: --no-project-ignore changed by normalise");
        assert!(f.no_global_ignore == global, "C12: --no-global-ignore changed by normalise");
        assert!(f.no_default_ignore == default, "C12: --no-default-ignore changed by normalise");
        assert!(f.no_discover_ignore == discover, "C12: --no-discover-ignore changed by normalise");
    }
    assert!(f.ignore_nothing == nothing, "C12: --ignore-nothing changed by normalise");
    assert!(f.filter_fs_meta == no_meta, "C12: --no-meta changed by normalise");
    if no_meta {
        let e = &f.filter_fs_events;
        assert!(
            e.len() == 4 && e[0] == FsEvent::Create && e[1] == FsEvent::Remove && e[2] == FsEvent::Rename && e[3] == FsEvent::Modify,
            "C12: --no-meta does not expand to create/remove/rename/modify"
        );
    } else {
        assert!(f.filter_fs_events.is_empty(), "C12: fs-events filter invented");
    }
    assert!(
        f.ignore_files.is_empty() && f.ignore_patterns.is_empty() && f.filter_patterns.is_empty() && f.filter_files.is_empty(),
        "C12: normalise invented a filter or ignore input"
    );

    kani::cover!(nothing && !vcs && !project && !global && !default && !discover && no_meta, "ignore-nothing from all-false");

    std::mem::forget(f);
    std::mem::forget(command);
}
