//! C18 (CLI half): `interpret_command_args` — how the command words and `--shell` / `--no-shell` / `--wrap-process`
//! become the supervisor `Command`.
use std::os::unix::ffi::OsStrExt;
#[allow(unused_imports)] // used in `#[kani::stub(..)]` paths only
use std::panic as stdpanic;

use watchexec::command::{Program, SpawnOptions};
use watchexec_cli::verif::{baseline_args, interpret_command_args, WrapMode};

use crate::gen::any_wrap;
use crate::split;

/// Two symbolic ASCII bytes (never NUL): the backing store of one test string.
fn sym2() -> [u8; 2] {
    let b: [u8; 2] = kani::any();
    kani::assume(b[0] >= 1 && b[0] < 0x80 && b[1] >= 1 && b[1] < 0x80);
    b
}
/// The string made of the first `len` (<= 2) bytes of `b`.
fn mk(b: &[u8; 2], len: usize) -> String {
    let mut v = Vec::with_capacity(2);
    let mut i = 0;
    while i < len {
        v.push(b[i]);
        i += 1;
    }
    // SAFETY: all bytes are ASCII
    unsafe { String::from_utf8_unchecked(v) }
}
/// `a` equals the first `len` bytes of `b`.
fn is(a: &[u8], b: &[u8; 2], len: usize) -> bool {
    if a.len() != len {
        return false;
    }
    let mut i = 0;
    while i < len {
        if a[i] != b[i] {
            return false;
        }
        i += 1;
    }
    true
}
fn lit(a: &[u8], b: &[u8]) -> bool {
    if a.len() != b.len() {
        return false;
    }
    let mut i = 0;
    while i < b.len() {
        if a[i] != b[i] {
            return false;
        }
        i += 1;
    }
    true
}

fn check_options(o: &SpawnOptions, wrap: WrapMode) {
    assert!(o.grouped == matches!(wrap, WrapMode::Group), "C18: wrap-process=group is not SpawnOptions.grouped");
    assert!(o.session == matches!(wrap, WrapMode::Session), "C18: wrap-process=session is not SpawnOptions.session");
    assert!(!o.reset_sigmask, "C18: reset_sigmask set by the CLI");
}

/// `--no-shell` / `--shell=none`: words 1..=2, each 1..=2 symbolic ASCII bytes (lengths path-split) ⇒
/// `Program::Exec { prog: first, args: rest }` byte for byte.
#[kani::proof]
#[kani::stub(stdpanic::catch_unwind, crate::util::catch_unwind_stub)]
#[kani::stub(miette::eyreish::capture_handler, crate::util::capture_handler_stub)]
#[kani::unwind(6)]
pub fn c18_cli_exec() {
    let b0 = sym2();
    let b1 = sym2();
    let wrap = any_wrap();
    // shapes: (nwords, len0, len1, via --shell=none instead of --no-shell); path-split: a symbolic choice between
    // the two spellings makes `shell` a symbolic Option<String> and the whole match runs on garbage (2.5M steps, OOM)
    const SHAPES: [(usize, usize, usize, bool); 6] =
        [(1, 1, 0, false), (1, 2, 0, false), (2, 1, 2, false), (2, 2, 1, false), (1, 2, 0, true), (2, 2, 1, true)];
    split!(6, |k| {
        let (n, l0, l1, via_none) = SHAPES[k];
        let mut program = Vec::with_capacity(2);
        program.push(mk(&b0, l0));
        if n == 2 {
            program.push(mk(&b1, l1));
        }
        let mut args = baseline_args(program);
        args.command.wrap_process = wrap;
        if via_none {
            args.command.shell = Some(String::from("none"));
        } else {
            args.command.no_shell = true;
        }
        let r = interpret_command_args(&args);
        assert!(r.is_ok(), "C18: no-shell command rejected");
        if let Ok(cmd) = &r {
            check_options(&cmd.options, wrap);
            match &cmd.program {
                Program::Exec { prog, args: argv } => {
                    assert!(is(prog.as_os_str().as_bytes(), &b0, l0), "C18: program is not the first word, byte for byte");
                    assert!(argv.len() == n - 1, "C18: argument count changed");
                    if n == 2 {
                        assert!(is(argv[0].as_bytes(), &b1, l1), "C18: argument is not the word, byte for byte");
                    }
                }
                Program::Shell { .. } => assert!(false, "C18: no-shell command wrapped in a shell"),
            }
        }
        kani::cover!(k == 5 && b0[0] == b' ' && b1[0] == b'\'', "two words via --shell=none, space and quote");
        kani::cover!(k == 0 && b0[0] == b'$', "one one-byte word via --no-shell");
        std::mem::forget(r);
        std::mem::forget(args);
        kani::assume(false);
    });
}

/// `--no-shell` with ONE concrete word that contains blanks, a tab and a quote: it is the program, whole,
/// with no arguments - nothing is split or interpreted. Concrete bytes keep this decidable for changes that add
/// per-character work (seed r4-noshell-single-word-split made the symbolic-byte harness hit its wall cap).
#[kani::proof]
#[kani::stub(stdpanic::catch_unwind, crate::util::catch_unwind_stub)]
#[kani::stub(miette::eyreish::capture_handler, crate::util::capture_handler_stub)]
#[kani::unwind(20)]
pub fn c18_cli_exec_concrete_single_word() {
    let wrap = any_wrap();
    let mut program = Vec::with_capacity(1);
    program.push(String::from("my tools/h\t'x"));
    let mut args = baseline_args(program);
    args.command.wrap_process = wrap;
    args.command.no_shell = true;
    let r = interpret_command_args(&args);
    assert!(r.is_ok(), "C18: no-shell command rejected");
    if let Ok(cmd) = &r {
        check_options(&cmd.options, wrap);
        match &cmd.program {
            Program::Exec { prog, args: argv } => {
                assert!(lit(prog.as_os_str().as_bytes(), b"my tools/h\t'x"), "C18: program is not the first word, byte for byte");
                assert!(argv.is_empty(), "C18: argument count changed");
            }
            Program::Shell { .. } => assert!(false, "C18: no-shell command wrapped in a shell"),
        }
    }
    kani::cover!(r.is_ok(), "single word with blanks kept whole");
    std::mem::forget(r);
    std::mem::forget(args);
}

/// `--shell=sh` given explicitly ⇒ `Program::Shell { shell: sh -c, command: words joined by one space, args: [] }`.
/// One shape (word count, lengths) per harness. Verify-only: ~30-43 s / 1.4 GB each. Under `--concrete-playback`
/// CBMC emits one full trace of this 44 MB goto program per separately falsified cover / Kani reachability check
/// (10-15 traces here) and kani-driver holds them all: both the three-shape `split!` version and a single shape ran
/// out of a 10 GB RLIMIT_AS in kani-driver (8.0 GB RSS at that point); a replay of these harnesses needs more.
fn shell_case(n: usize, l0: usize, l1: usize) {
    let b0 = sym2();
    let b1 = sym2();
    let wrap = any_wrap();
    let mut program = Vec::with_capacity(2);
    program.push(mk(&b0, l0));
    if n == 2 {
        program.push(mk(&b1, l1));
    }
    let mut args = baseline_args(program);
    args.command.wrap_process = wrap;
    args.command.shell = Some(String::from("sh"));
    let r = interpret_command_args(&args);
    assert!(r.is_ok(), "C18: shell command rejected");
    if let Ok(cmd) = &r {
        check_options(&cmd.options, wrap);
        match &cmd.program {
            Program::Shell { shell, command, args: extra } => {
                assert!(lit(shell.prog.as_os_str().as_bytes(), b"sh"), "C18: shell program is not the --shell value");
                assert!(shell.options.is_empty(), "C18: shell options invented");
                match &shell.program_option {
                    Some(o) => assert!(lit(o.as_bytes(), b"-c"), "C18: shell program option is not -c"),
                    None => assert!(false, "C18: shell program option missing"),
                }
                assert!(extra.is_empty(), "C18: extra shell arguments invented");
                let c = command.as_bytes();
                let want = if n == 2 { l0 + 1 + l1 } else { l0 };
                assert!(c.len() == want, "C18: shell command length is not words + single spaces");
                let mut i = 0;
                while i < l0 {
                    assert!(c[i] == b0[i], "C18: shell command does not start with the first word");
                    i += 1;
                }
                if n == 2 {
                    assert!(c[l0] == b' ', "C18: words not joined by a single space");
                    let mut j = 0;
                    while j < l1 {
                        assert!(c[l0 + 1 + j] == b1[j], "C18: shell command does not continue with the second word");
                        j += 1;
                    }
                }
            }
            Program::Exec { .. } => assert!(false, "C18: shell command not wrapped in the shell"),
        }
    }
    kani::cover!(r.is_ok() && b0[0] == b' ' && b1[0] == b';' && matches!(wrap, WrapMode::Session), "shell command built, metacharacters kept");
    std::mem::forget(r);
    std::mem::forget(args);
}

#[kani::proof]
#[kani::stub(stdpanic::catch_unwind, crate::util::catch_unwind_stub)]
#[kani::stub(miette::eyreish::capture_handler, crate::util::capture_handler_stub)]
#[kani::unwind(6)]
pub fn c18_cli_shell_1w2() {
    shell_case(1, 2, 0);
}

#[kani::proof]
#[kani::stub(stdpanic::catch_unwind, crate::util::catch_unwind_stub)]
#[kani::stub(miette::eyreish::capture_handler, crate::util::capture_handler_stub)]
#[kani::unwind(6)]
pub fn c18_cli_shell_2w12() {
    shell_case(2, 1, 2);
}

#[kani::proof]
#[kani::stub(stdpanic::catch_unwind, crate::util::catch_unwind_stub)]
#[kani::stub(miette::eyreish::capture_handler, crate::util::capture_handler_stub)]
#[kani::unwind(6)]
pub fn c18_cli_shell_2w21() {
    shell_case(2, 2, 1);
}

/// Concrete words with whitespace, an empty word and a quote (3 words): the command string is the
/// words joined by single spaces, nothing quoted or dropped. Concrete bytes keep this cheap even when
/// a change adds per-character branches (where the symbolic-byte harnesses above run out of budget);
/// the wrap mode stays symbolic.
#[kani::proof]
#[kani::stub(stdpanic::catch_unwind, crate::util::catch_unwind_stub)]
#[kani::stub(miette::eyreish::capture_handler, crate::util::capture_handler_stub)]
#[kani::unwind(12)]
pub fn c18_cli_shell_concrete_words() {
    let wrap = any_wrap();
    let mut program = Vec::with_capacity(3);
    program.push(String::from("a b"));
    program.push(String::new());
    program.push(String::from("c'd"));
    let mut args = baseline_args(program);
    args.command.wrap_process = wrap;
    args.command.shell = Some(String::from("sh"));
    let r = interpret_command_args(&args);
    assert!(r.is_ok(), "C18: shell command rejected");
    if let Ok(cmd) = &r {
        check_options(&cmd.options, wrap);
        match &cmd.program {
            Program::Shell { shell, command, args: extra } => {
                assert!(lit(shell.prog.as_os_str().as_bytes(), b"sh"), "C18: shell program is not the --shell value");
                assert!(extra.is_empty(), "C18: extra shell arguments invented");
                assert!(lit(command.as_bytes(), b"a b  c'd"), "C18: command words not joined verbatim by single spaces");
            }
            Program::Exec { .. } => assert!(false, "C18: shell command not wrapped in the shell"),
        }
    }
    kani::cover!(r.is_ok(), "concrete three-word command built");
    std::mem::forget(r);
    std::mem::forget(args);
}

/// `--shell="bash  -e\t-u"` (several words, mixed ASCII whitespace): the first word is the shell program, the
/// remaining words are its options in order, the program option is `-c`, and the command words are still joined
/// by single spaces with nothing passed as extra arguments. Concrete strings (see above), wrap mode symbolic.
#[kani::proof]
#[kani::stub(stdpanic::catch_unwind, crate::util::catch_unwind_stub)]
#[kani::stub(miette::eyreish::capture_handler, crate::util::capture_handler_stub)]
#[kani::unwind(14)]
pub fn c18_cli_shell_multiword() {
    let wrap = any_wrap();
    let mut program = Vec::with_capacity(2);
    program.push(String::from("x y"));
    program.push(String::from("-c"));
    let mut args = baseline_args(program);
    args.command.wrap_process = wrap;
    args.command.shell = Some(String::from("bash  -e\t-u"));
    let r = interpret_command_args(&args);
    assert!(r.is_ok(), "C18: multi-word shell rejected");
    if let Ok(cmd) = &r {
        check_options(&cmd.options, wrap);
        match &cmd.program {
            Program::Shell { shell, command, args: extra } => {
                assert!(lit(shell.prog.as_os_str().as_bytes(), b"bash"), "C18: shell program is not the first word of --shell");
                assert!(shell.options.len() == 2, "C18: shell options are not the remaining words of --shell");
                if shell.options.len() == 2 {
                    assert!(lit(shell.options[0].as_bytes(), b"-e"), "C18: first shell option altered or reordered");
                    assert!(lit(shell.options[1].as_bytes(), b"-u"), "C18: second shell option altered or reordered");
                }
                match &shell.program_option {
                    Some(o) => assert!(lit(o.as_bytes(), b"-c"), "C18: shell program option is not -c"),
                    None => assert!(false, "C18: shell program option missing"),
                }
                assert!(extra.is_empty(), "C18: extra shell arguments invented");
                assert!(lit(command.as_bytes(), b"x y -c"), "C18: command words not joined verbatim by single spaces");
            }
            Program::Exec { .. } => assert!(false, "C18: shell command not wrapped in the shell"),
        }
    }
    kani::cover!(r.is_ok(), "multi-word shell command built");
    std::mem::forget(r);
    std::mem::forget(args);
}

/// `--shell=""` is rejected (no command is built); one two-byte word, wrap mode symbolic.
#[kani::proof]
#[kani::stub(stdpanic::catch_unwind, crate::util::catch_unwind_stub)]
#[kani::stub(miette::eyreish::capture_handler, crate::util::capture_handler_stub)]
#[kani::unwind(6)]
pub fn c18_cli_empty_shell() {
    let b0 = sym2();
    let mut program = Vec::with_capacity(1);
    program.push(mk(&b0, 2));
    let mut args = baseline_args(program);
    args.command.wrap_process = any_wrap();
    args.command.shell = Some(String::new());
    let r = interpret_command_args(&args);
    assert!(r.is_err(), "C18: empty --shell accepted");
    kani::cover!(r.is_err() && b0[0] == b'a', "empty shell rejected");
    std::mem::forget(r);
    std::mem::forget(args);
}
