//! Harness group `cli`: the synchronous seams of watchexec-cli (argument normalisation and command interpretation):
//! C05 (`EventsArgs::normalise`), C12 (`FilteringArgs::normalise`, one poll), C18 (`interpret_command_args`).
//! `probe` holds measurements only (C17 text emission: infeasible).
#![cfg(kani)]
#![allow(clippy::all)]

pub mod util;
pub mod probe;
pub mod gen;
pub mod c05;
pub mod c12;
pub mod c18;

pub use probe::*;
pub use c05::*;
pub use c12::*;
pub use c18::*;

mod playback {
    #[allow(unused_imports)]
    use super::*;
    include!("playback.rs");
}
