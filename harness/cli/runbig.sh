#!/bin/bash
# For harnesses whose *compilation* (kani-compiler, goto-instrument) needs more than 10 GB of address space:
# 30 GB rlimit for the whole pipeline, plus a watchdog that kills cbmc itself once its RSS passes 10 GB.
# usage: ./runbig.sh <module>::<harness> [timeout] [np]
h="$1"; t="${2:-900}"; n="${h##*::}"; pb="-Z concrete-playback --concrete-playback=print"; sfx=""
[ "$3" = "np" ] && { pb=""; sfx=".np"; }
cd /verif/harness/cli && cp /repo/Cargo.lock .
( while sleep 5; do for p in $(pgrep -x cbmc); do r=$(awk '/VmRSS/{print $2}' /proc/$p/status 2>/dev/null); [ -n "$r" ] && [ "$r" -gt 10000000 ] && { echo "WATCHDOG: cbmc rss $r kB > 10 GB, killing" >> /tmp/cli-$n$sfx.log; kill -9 $p; }; done; done ) &
wd=$!
( ulimit -v 30000000; CARGO_NET_OFFLINE=true /usr/bin/time -v timeout "$t" cargo kani --harness "$h" --exact -Z stubbing -Z unstable-options $pb \
  --target-dir /verif/.target/cli --cbmc-args --max-field-sensitivity-array-size 1024 ) > /tmp/cli-$n$sfx.log 2>&1
kill $wd 2>/dev/null
grep -n "VERIFICATION:-\|Runtime Symex\|\*\* .* failed\|Status: \(FAILURE\|ERROR\|UNSATISFIED\|SATISFIED\)\|Elapsed (wall\|Maximum resident\|^error\|Verification Time\|WATCHDOG\|size of program" /tmp/cli-$n$sfx.log | head -40
grep -n "Failed Checks" /tmp/cli-$n$sfx.log | head -20; grep "variables, .* clauses" /tmp/cli-$n$sfx.log | tail -1
