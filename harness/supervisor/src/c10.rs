//! C10 (a) — one `PriorityReceiver::recv` from arbitrary queue contents and timer states.
use std::pin::pin;
use std::task::Poll;
use std::time::Duration;

use tokio::time::Instant;
use tokio::verif as tv;
use watchexec_supervisor::job::Control;
use watchexec_supervisor::verif::{priority_new, ControlMessage, Flag, Priority, Timer};
use watchexec_supervisor::Signal;

const W0: usize = tv::HARNESS_ID_BASE;

/// Messages are `Control::Signal(Custom(tag))` so that each one is identifiable:
/// tag = priority*10 + sequence number.
fn msg(tag: i32) -> ControlMessage {
    ControlMessage { control: Control::Signal(Signal::Custom(tag)), done: Flag::default() }
}
fn tag_of(m: &ControlMessage) -> i32 {
    match m.control {
        Control::Signal(Signal::Custom(t)) => t,
        Control::Stop => -1,
        Control::ContinueTryGracefulRestart => -2,
        _ => -99,
    }
}

#[kani::proof]
#[kani::unwind(10)]
pub fn c10_recv_priority_order() {
    let (tx, mut rx) = priority_new();
    let nn: usize = kani::any();
    let nh: usize = kani::any();
    let nu: usize = kani::any();
    kani::assume(nn <= 2 && nh <= 2 && nu <= 2);
    for i in 0..2 {
        if i < nn {
            tx.send(msg(i as i32), Priority::Normal);
        }
        if i < nh {
            tx.send(msg(10 + i as i32), Priority::High);
        }
        if i < nu {
            tx.send(msg(20 + i as i32), Priority::Urgent);
        }
    }
    // timer: 0 none, 1 armed in the future, 2 armed and already past (== now or earlier)
    tv::advance_to(1_000);
    let timer_kind: u8 = kani::any();
    kani::assume(timer_kind <= 2);
    let is_restart: bool = kani::any();
    let timer_flag = Flag::default();
    let mut stop_timer = match timer_kind {
        0 => None,
        1 => Some(Timer { until: Instant::from_ns(5_000), done: timer_flag.clone(), is_restart }),
        _ => {
            let at: u64 = kani::any();
            kani::assume(at <= 1_000);
            Some(Timer { until: Instant::from_ns(at), done: timer_flag.clone(), is_restart })
        }
    };
    let _ = Duration::ZERO;

    let got = {
        let fut = rx.recv(&mut stop_timer);
        let mut fut = pin!(fut);
        tv::poll_with(W0, fut.as_mut())
    };
    kani::cover!(timer_kind == 2, "timer already past");
    kani::cover!(timer_kind == 1 && nu == 0 && nh == 0 && nn > 0, "armed timer holds back normal");
    kani::cover!(timer_kind == 0 && nu == 0 && nh == 0 && nn == 2, "normal fifo");

    if timer_kind == 2 {
        // expired timer wins over everything and is consumed
        match got {
            Poll::Ready(Some(m)) => {
                assert!(tag_of(&m) == if is_restart { -2 } else { -1 }, "C10: expired grace timer must yield the forced stop/continue control");
                m.done.raise();
                assert!(timer_flag.raised(), "C10: forced control does not carry the timer's flag");
                assert!(stop_timer.is_none(), "C10: expired timer not cleared");
            }
            _ => panic!("C10: expired grace timer ignored"),
        }
    } else if nu > 0 {
        assert!(matches!(&got, Poll::Ready(Some(m)) if tag_of(m) == 20), "C10: pending urgent control not taken first (FIFO head)");
    } else if nh > 0 {
        assert!(matches!(&got, Poll::Ready(Some(m)) if tag_of(m) == 10), "C10: pending high control not taken before normal (FIFO head)");
    } else if timer_kind == 1 {
        assert!(got.is_pending(), "C10: a normal control was taken while the grace timer is armed");
        assert!(stop_timer.is_some(), "C10: armed timer lost");
    } else if nn > 0 {
        assert!(matches!(&got, Poll::Ready(Some(m)) if tag_of(m) == 0), "C10: normal controls not FIFO");
    } else {
        assert!(got.is_pending(), "C10: recv returned with nothing queued");
    }
    std::mem::forget(rx);
    std::mem::forget(tx);
}

/// Draining: repeated `recv` with no timer returns all queued messages, each exactly once,
/// urgent (FIFO) then high (FIFO) then normal (FIFO).
#[kani::proof]
#[kani::unwind(10)]
pub fn c10_recv_drain_order() {
    let (tx, mut rx) = priority_new();
    let nn: usize = kani::any();
    let nh: usize = kani::any();
    let nu: usize = kani::any();
    kani::assume(nn <= 2 && nh <= 2 && nu <= 2);
    // interleave the sends in a solver-chosen order (per-priority order is what matters)
    let mut sn = 0;
    let mut sh = 0;
    let mut su = 0;
    for _ in 0..6 {
        let which: u8 = kani::any();
        match which {
            0 if sn < nn => {
                tx.send(msg(sn as i32), Priority::Normal);
                sn += 1;
            }
            1 if sh < nh => {
                tx.send(msg(10 + sh as i32), Priority::High);
                sh += 1;
            }
            2 if su < nu => {
                tx.send(msg(20 + su as i32), Priority::Urgent);
                su += 1;
            }
            _ => {}
        }
    }
    kani::assume(sn == nn && sh == nh && su == nu);
    kani::cover!(nn == 2 && nh == 2 && nu == 2, "all queues full");
    let mut stop_timer = None;
    let mut last = 100;
    let mut count = 0;
    for _ in 0..7 {
        let got = {
            let fut = rx.recv(&mut stop_timer);
            let mut fut = pin!(fut);
            tv::poll_with(W0, fut.as_mut())
        };
        match got {
            Poll::Ready(Some(m)) => {
                let t = tag_of(&m);
                // expected global order: 20,21,10,11,0,1 (strictly descending by band, ascending inside)
                let band = t / 10;
                let last_band = last / 10;
                assert!(band < last_band || (band == last_band && t == last + 1) || last == 100, "C10: controls reordered");
                if last == 100 || band < last_band {
                    assert!(t % 10 == 0, "C10: a band did not start at its FIFO head");
                }
                last = t;
                count += 1;
            }
            Poll::Ready(None) => panic!("C10: queue closed while senders alive"),
            Poll::Pending => break,
        }
    }
    assert!(count == nn + nh + nu, "C10: a queued control was lost or duplicated");
    std::mem::forget(rx);
    std::mem::forget(tx);
}
