//! Harness group `supervisor`: C04, C06, C07, C09, C10, C18 over the real
//! `watchexec-supervisor` code and the environment models under /verif/models.
#![cfg(kani)]
#![feature(allocator_api)]
#![feature(get_mut_unchecked)]
#![allow(clippy::all)]

pub mod util;
pub mod task;
pub mod c07;
pub mod c18;

pub use c07::*;
pub use c18::*;

mod playback {
    #[allow(unused_imports)]
    use super::*;
    include!("playback.rs");
}
