//! C07 (a) — tickets and flags: every waiter is woken, for any number of waiters (<= 3),
//! any poll order and any position of the raise.
use std::pin::Pin;

use tokio::verif as tv;
use watchexec_supervisor::verif::{ticket, Flag};

use crate::split;

const W0: usize = tv::HARNESS_ID_BASE;

fn poll_flag(f: &mut Flag, id: usize) -> bool {
    tv::poll_with(id, Pin::new(f)).is_ready()
}

/// Waiter tasks 0..3 each hold their own clone of ONE flag and poll it in any order (3 poll
/// slots, each taken by any waiter or skipped; a waiter may poll repeatedly); after `raise()`
/// every waiter that was left Pending must have been woken, and every clone polls Ready.

fn flag_scenario(s: [usize; 3]) {
    let flag = Flag::default();
    let mut clones = [flag.clone(), flag.clone(), flag.clone()];
    let mut pending = [false; 3];
    let mut k = 0;
    while k < 3 {
        let who = s[k];
        if who < 3 {
            let ready = poll_flag(&mut clones[who], W0 + who);
            assert!(!ready, "C07: flag ready before it was raised");
            pending[who] = true;
        }
        k += 1;
    }
    kani::cover!(pending[0] && pending[1] && pending[2], "three waiters pending");
    kani::cover!(s[0] == 0 && s[1] == 1 && s[2] == 0, "re-poll after another waiter registered");
    flag.raise();
    let mut i = 0;
    while i < 3 {
        if pending[i] {
            assert!(tv::woken(W0 + i), "C07: a waiter of a raised flag was never woken");
        }
        assert!(poll_flag(&mut clones[i], W0 + i), "C07: raised flag does not resolve");
        i += 1;
    }
    kani::cover!(true, "schedule ran to its end");
    std::mem::forget(clones);
    std::mem::forget(flag);
}

/// Waiters are interchangeable, and a skipped slot only shortens the schedule, so every schedule
/// is a renaming of one whose first slot is taken by waiter 0 (or of the empty one): the quick
/// harness fixes s[0] = 0 (16 schedules); the thorough one runs all 64 without that argument.
#[kani::proof]
#[kani::unwind(6)]
pub fn c07_flag_all_waiters_woken() {
    split!(4, |b| {
        split!(4, |c| {
            flag_scenario([0, b, c]);
        })
    });
}

#[kani::proof]
#[kani::unwind(6)]
pub fn c07_flag_all_waiters_woken_full() {
    split!(4, |a| {
        split!(4, |b| {
            split!(4, |c| {
                flag_scenario([a, b, c]);
            })
        })
    });
}

/// Thorough: five waiters (the fifth distinct registration makes the waker list reallocate),
/// three free poll slots among waiters 0..=2 (first slot = waiter 0 by symmetry), then waiters 3
/// and 4 register: 16 schedules.
fn flag_scenario5(s: [usize; 3]) {
    let flag = Flag::default();
    let mut clones = [flag.clone(), flag.clone(), flag.clone(), flag.clone(), flag.clone()];
    let mut pending = [false; 5];
    let mut k = 0;
    while k < 3 {
        let who = s[k];
        if who < 3 {
            let ready = poll_flag(&mut clones[who], W0 + who);
            assert!(!ready, "C07: flag ready before it was raised");
            pending[who] = true;
        }
        k += 1;
    }
    // waiters 3 and 4 always register last, so that up to five distinct wakers are parked
    let mut j = 3;
    while j < 5 {
        let ready = poll_flag(&mut clones[j], W0 + j);
        assert!(!ready, "C07: flag ready before it was raised");
        pending[j] = true;
        j += 1;
    }
    kani::cover!(pending[0] && pending[1] && pending[2], "five waiters pending");
    flag.raise();
    let mut i = 0;
    while i < 5 {
        if pending[i] {
            assert!(tv::woken(W0 + i), "C07: a waiter of a raised flag was never woken");
        }
        assert!(poll_flag(&mut clones[i], W0 + i), "C07: raised flag does not resolve");
        i += 1;
    }
    kani::cover!(true, "schedule ran to its end");
    std::mem::forget(clones);
    std::mem::forget(flag);
}

#[kani::proof]
#[kani::unwind(7)]
pub fn c07_flag_five_waiters() {
    split!(4, |b| {
        split!(4, |c| {
            flag_scenario5([0, b, c]);
        })
    });
}

/// Ticket level: waiters 0 and 1 hold clones of ticket A, waiter 2 holds another ticket of the
/// same job (shares the job-gone flag). Either A's control completes or the job ends.
fn ticket_scenario(s: [usize; 3], job_ends: bool) {
    let gone = Flag::default();
    let done_a = Flag::default();
    let done_b = Flag::default();
    let a = ticket(gone.clone(), done_a.clone());
    let mut t0 = a.clone();
    let mut t1 = a.clone();
    let mut t2 = ticket(gone.clone(), done_b.clone());
    let mut pending = [false; 3];
    let mut k = 0;
    while k < 3 {
        let who = s[k];
        if who < 3 {
            let r = match who {
                0 => tv::poll_with(W0, Pin::new(&mut t0)),
                1 => tv::poll_with(W0 + 1, Pin::new(&mut t1)),
                _ => tv::poll_with(W0 + 2, Pin::new(&mut t2)),
            };
            assert!(r.is_pending(), "C07: ticket resolved before anything was raised");
            pending[who] = true;
        }
        k += 1;
    }
    kani::cover!(pending[0] && pending[1], "two clones pending");
    kani::cover!(pending[0] && pending[2], "two different tickets pending");
    if job_ends {
        gone.raise();
    } else {
        done_a.raise();
    }
    let must = [true, true, job_ends];
    let mut i = 0;
    while i < 3 {
        if must[i] && pending[i] {
            assert!(tv::woken(W0 + i), "C07: a task awaiting a ticket was never woken when it resolved");
        }
        i += 1;
    }
    assert!(tv::poll_with(W0, Pin::new(&mut t0)).is_ready(), "C07: resolved ticket (clone 0) still pending");
    assert!(tv::poll_with(W0 + 1, Pin::new(&mut t1)).is_ready(), "C07: resolved ticket (clone 1) still pending");
    if job_ends {
        assert!(tv::poll_with(W0 + 2, Pin::new(&mut t2)).is_ready(), "C07: ticket still pending after the job ended");
    } else {
        assert!(tv::poll_with(W0 + 2, Pin::new(&mut t2)).is_pending(), "C07: unrelated ticket resolved");
    }
    kani::cover!(true, "schedule ran to its end");
    std::mem::forget((t0, t1, t2, a, gone, done_a, done_b));
}

fn ticket_family(first: usize, job_ends: bool, half: usize) {
    split!(2, |b| {
        split!(4, |c| {
            ticket_scenario([first, 2 * half + b, c], job_ends);
        })
    });
}
// Clones 0 and 1 are interchangeable, so the first slot is waiter 0 or waiter 2 (a leading skip
// is a shorter schedule, covered by a trailing one); one harness per (first slot, what is raised,
// half of the second slot's choices) to spread the 64 schedules over the cores.
macro_rules! ticket_harness {
    ($name:ident, $first:expr, $gone:expr, $half:expr) => {
        #[kani::proof]
        #[kani::unwind(6)]
        pub fn $name() {
            ticket_family($first, $gone, $half);
        }
    };
}
ticket_harness!(c07_ticket_clone_first_control_done_a, 0, false, 0);
ticket_harness!(c07_ticket_clone_first_control_done_b, 0, false, 1);
ticket_harness!(c07_ticket_clone_first_job_gone_a, 0, true, 0);
ticket_harness!(c07_ticket_clone_first_job_gone_b, 0, true, 1);
ticket_harness!(c07_ticket_other_first_control_done_a, 2, false, 0);
ticket_harness!(c07_ticket_other_first_control_done_b, 2, false, 1);
ticket_harness!(c07_ticket_other_first_job_gone_a, 2, true, 0);
ticket_harness!(c07_ticket_other_first_job_gone_b, 2, true, 1);

/// One task (one waker) awaits two different tickets of the same job, as `join!` does: both are
/// polled in each round in either order; one control completes first (the task is woken and
/// re-polls what is still pending), then the other control completes or the job ends. The task
/// must be woken for the second event too. (Registrations of the same waker on the shared
/// job-gone flag must not be lost when one of the tickets resolves.)
fn one_task_two_tickets(a_first: bool, first_done_is_a: bool, then_job_ends: bool) {
    let gone = Flag::default();
    let done_a = Flag::default();
    let done_b = Flag::default();
    let mut ta = ticket(gone.clone(), done_a.clone());
    let mut tb = ticket(gone.clone(), done_b.clone());
    // round 1: both pending
    let (ra, rb) = if a_first {
        let ra = tv::poll_with(W0, Pin::new(&mut ta));
        (ra, tv::poll_with(W0, Pin::new(&mut tb)))
    } else {
        let rb = tv::poll_with(W0, Pin::new(&mut tb));
        (tv::poll_with(W0, Pin::new(&mut ta)), rb)
    };
    assert!(ra.is_pending() && rb.is_pending(), "C07: ticket resolved before anything was raised");
    // first control completes
    tv::clear_woken(W0);
    if first_done_is_a { done_a.raise() } else { done_b.raise() }
    assert!(tv::woken(W0), "C07: task joining two tickets not woken when the first one resolved");
    // round 2: the task re-polls both (join! polls the unfinished ones; polling a finished ticket
    // again is also legal for this future)
    let (ra, rb) = if a_first {
        let ra = tv::poll_with(W0, Pin::new(&mut ta));
        (ra, tv::poll_with(W0, Pin::new(&mut tb)))
    } else {
        let rb = tv::poll_with(W0, Pin::new(&mut tb));
        (tv::poll_with(W0, Pin::new(&mut ta)), rb)
    };
    assert!(ra.is_ready() == first_done_is_a && rb.is_ready() != first_done_is_a, "C07: wrong ticket resolved");
    // second event
    tv::clear_woken(W0);
    if then_job_ends {
        gone.raise();
    } else if first_done_is_a {
        done_b.raise();
    } else {
        done_a.raise();
    }
    kani::cover!(then_job_ends, "job ends while one of the two tickets is outstanding");
    assert!(tv::woken(W0), "C07: task joining two tickets never woken for the outstanding one");
    assert!(tv::poll_with(W0, Pin::new(&mut ta)).is_ready() && tv::poll_with(W0, Pin::new(&mut tb)).is_ready(), "C07: outstanding ticket still pending");
    kani::cover!(true, "schedule ran to its end");
    std::mem::forget((ta, tb, gone, done_a, done_b));
}

#[kani::proof]
#[kani::unwind(6)]
pub fn c07_ticket_one_task_two_tickets() {
    split!(2, |o| {
        split!(2, |f| {
            split!(2, |j| {
                one_task_two_tickets(o == 1, f == 1, j == 1);
            })
        })
    });
}

/// Waker replacement: the same ticket value is polled while pending under one waker and later
/// under another (a future moved between tasks, or polled inside `select!` and then awaited):
/// the most recent waker must be woken when the ticket resolves.
fn waker_replacement(job_ends: bool, third_poll_back: bool) {
    let gone = Flag::default();
    let done = Flag::default();
    let mut t = ticket(gone.clone(), done.clone());
    assert!(tv::poll_with(W0, Pin::new(&mut t)).is_pending(), "C07: ticket resolved before anything was raised");
    assert!(tv::poll_with(W0 + 1, Pin::new(&mut t)).is_pending(), "C07: ticket resolved before anything was raised");
    let last = if third_poll_back {
        assert!(tv::poll_with(W0, Pin::new(&mut t)).is_pending(), "C07: ticket resolved before anything was raised");
        W0
    } else {
        W0 + 1
    };
    tv::clear_woken(W0);
    tv::clear_woken(W0 + 1);
    if job_ends { gone.raise() } else { done.raise() }
    assert!(tv::woken(last), "C07: the task now holding the ticket (latest waker) was never woken");
    assert!(tv::poll_with(last, Pin::new(&mut t)).is_ready(), "C07: resolved ticket still pending");
    kani::cover!(true, "schedule ran to its end");
    std::mem::forget((t, gone, done));
}

#[kani::proof]
#[kani::unwind(6)]
pub fn c07_ticket_waker_replacement() {
    split!(2, |j| {
        split!(2, |b| {
            waker_replacement(j == 1, b == 1);
        })
    });
}
