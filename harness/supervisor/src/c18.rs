//! C18 — the argv handed to the process layer is exactly program + arguments, byte for byte.
use std::borrow::Cow;
use std::ffi::{OsStr, OsString};
use std::os::unix::ffi::{OsStrExt, OsStringExt};
use std::path::PathBuf;

use process_wrap::tokio::WrapKind;
use watchexec_supervisor::command::{Command, Program, Shell, SpawnOptions};

/// A short string with solver-chosen bytes from a set that contains every shell-significant
/// class (space, quotes, `$`, `*`, newline, backslash) plus a 2-byte UTF-8 character.
fn any_string(max: usize) -> String {
    const ALPHABET: [&str; 10] = ["a", " ", "\"", "'", "$", "*", "\n", "\\", "é", "-"];
    let n: usize = kani::any();
    kani::assume(n <= max);
    let mut s = String::new();
    for i in 0..2 {
        if i < n {
            let k: usize = kani::any();
            kani::assume(k < ALPHABET.len());
            s.push_str(ALPHABET[k]);
        }
    }
    s
}

fn bytes_eq(a: &OsStr, b: &[u8]) -> bool {
    let a = a.as_bytes();
    if a.len() != b.len() {
        return false;
    }
    let mut i = 0;
    while i < a.len() {
        if a[i] != b[i] {
            return false;
        }
        i += 1;
    }
    true
}

fn any_options() -> SpawnOptions {
    SpawnOptions { grouped: kani::any(), session: kani::any(), reset_sigmask: kani::any() }
}

fn check_wrappers(sp: &process_wrap::tokio::TokioCommandWrap, o: SpawnOptions) {
    assert!(sp.verif_has(WrapKind::KillOnDrop), "C18: KillOnDrop wrapper missing");
    assert!(sp.verif_has(WrapKind::ProcessSession) == o.session, "C18: session option not honoured");
    assert!(sp.verif_has(WrapKind::ProcessGroup) == (o.grouped && !o.session), "C18: process-group option not honoured");
    assert!(sp.verif_has(WrapKind::ResetSigmask) == o.reset_sigmask, "C18: reset-sigmask option not honoured");
    let want = 1 + (o.session || o.grouped) as usize + o.reset_sigmask as usize;
    assert!(sp.verif_wrap_count() == want, "C18: unexpected extra wrapper");
}

/// Program::Exec with 0..=3 arguments of 0..=2 symbolic characters each.
#[kani::proof]
#[kani::unwind(6)]
pub fn c18_exec_argv_exact() {
    let nargs: usize = kani::any();
    kani::assume(nargs <= 3);
    let a = [any_string(2), any_string(2), any_string(2)];
    let mut args = Vec::new();
    for i in 0..3 {
        if i < nargs {
            args.push(a[i].clone());
        }
    }
    let prog = any_string(2);
    let options = any_options();
    let cmd = Command { program: Program::Exec { prog: PathBuf::from(prog.clone()), args }, options };
    let sp = cmd.to_spawnable();
    let c = sp.command();
    kani::cover!(nargs == 3, "three args");
    kani::cover!(nargs >= 1 && a[0].is_empty(), "empty-string argument");
    assert!(bytes_eq(&c.verif_program, prog.as_bytes()), "C18: program altered");
    assert!(c.verif_args.len() == nargs, "C18: argument count changed (split or dropped)");
    for i in 0..3 {
        if i < nargs {
            assert!(bytes_eq(&c.verif_args[i], a[i].as_bytes()), "C18: argument bytes altered");
        }
    }
    check_wrappers(&sp, options);
    std::mem::forget(sp);
    std::mem::forget(cmd);
}

/// Program::Shell: shell, options.., program option?, command, args..
#[kani::proof]
#[kani::unwind(6)]
pub fn c18_shell_argv_order() {
    let nopts: usize = kani::any();
    let nargs: usize = kani::any();
    kani::assume(nopts <= 2 && nargs <= 2);
    let o = [any_string(2), any_string(2)];
    let a = [any_string(2), any_string(2)];
    let command = any_string(2);
    let shell_prog = any_string(2);
    let progopt: Option<String> = if kani::any() { Some(any_string(2)) } else { None };
    let mut options_v = Vec::new();
    let mut args_v = Vec::new();
    for i in 0..2 {
        if i < nopts {
            options_v.push(o[i].clone());
        }
        if i < nargs {
            args_v.push(a[i].clone());
        }
    }
    let options = any_options();
    let cmd = Command {
        program: Program::Shell {
            shell: Shell {
                prog: PathBuf::from(shell_prog.clone()),
                options: options_v,
                program_option: progopt.clone().map(|s| Cow::Owned(OsString::from_vec(s.into_bytes()))),
            },
            command: command.clone(),
            args: args_v,
        },
        options,
    };
    let sp = cmd.to_spawnable();
    let c = sp.command();
    kani::cover!(nopts == 2 && nargs == 2 && progopt.is_some(), "full shell form");
    kani::cover!(progopt.is_none(), "no program option");
    assert!(bytes_eq(&c.verif_program, shell_prog.as_bytes()), "C18: shell program altered");
    let want = nopts + progopt.is_some() as usize + 1 + nargs;
    assert!(c.verif_args.len() == want, "C18: shell argv length wrong");
    let mut k = 0;
    for i in 0..2 {
        if i < nopts {
            assert!(bytes_eq(&c.verif_args[k], o[i].as_bytes()), "C18: shell option altered or misplaced");
            k += 1;
        }
    }
    if let Some(p) = &progopt {
        assert!(bytes_eq(&c.verif_args[k], p.as_bytes()), "C18: program option altered or misplaced");
        k += 1;
    }
    assert!(bytes_eq(&c.verif_args[k], command.as_bytes()), "C18: command string altered or misplaced");
    k += 1;
    for i in 0..2 {
        if i < nargs {
            assert!(bytes_eq(&c.verif_args[k], a[i].as_bytes()), "C18: extra argument altered or misplaced");
            k += 1;
        }
    }
    check_wrappers(&sp, options);
    std::mem::forget(sp);
    std::mem::forget(cmd);
}
