//! C18 — the argv handed to the process layer is exactly program + arguments, byte for byte.
//!
//! Shape (argument counts, string lengths, presence of the program option) is path-split: a
//! constant on each explored path, so `Vec`/`String` sizes stay concrete. The *bytes* of every
//! string are symbolic over all of ASCII (0x01..=0x7f: every shell metacharacter, whitespace,
//! quote, control character), and one argument may instead be a concrete multi-byte string.
use std::borrow::Cow;
use std::ffi::{OsStr, OsString};
use std::os::unix::ffi::{OsStrExt, OsStringExt};
use std::path::PathBuf;

use process_wrap::tokio::WrapKind;
use watchexec_supervisor::command::{Command, Program, Shell, SpawnOptions};

use crate::split;

/// A string of exactly `len` (<= 2) symbolic ASCII bytes (never NUL).
fn sym_ascii(len: usize) -> String {
    let mut v = Vec::with_capacity(2);
    let mut i = 0;
    while i < len {
        let b: u8 = kani::any();
        kani::assume(b >= 1 && b < 0x80);
        v.push(b);
        i += 1;
    }
    // SAFETY: all bytes are ASCII
    unsafe { String::from_utf8_unchecked(v) }
}

fn bytes_eq(a: &OsStr, b: &[u8]) -> bool {
    let a = a.as_bytes();
    if a.len() != b.len() {
        return false;
    }
    let mut i = 0;
    while i < a.len() {
        if a[i] != b[i] {
            return false;
        }
        i += 1;
    }
    true
}

fn any_options() -> SpawnOptions {
    SpawnOptions { grouped: kani::any(), session: kani::any(), reset_sigmask: kani::any() }
}

fn check_wrappers(sp: &process_wrap::tokio::TokioCommandWrap, o: SpawnOptions) {
    assert!(sp.verif_has(WrapKind::KillOnDrop), "C18: KillOnDrop wrapper missing");
    assert!(sp.verif_has(WrapKind::ProcessSession) == o.session, "C18: session option not honoured");
    assert!(sp.verif_has(WrapKind::ProcessGroup) == (o.grouped && !o.session), "C18: process-group option not honoured");
    assert!(sp.verif_has(WrapKind::ResetSigmask) == o.reset_sigmask, "C18: reset-sigmask option not honoured");
    let want = 1 + (o.session || o.grouped) as usize + o.reset_sigmask as usize;
    assert!(sp.verif_wrap_count() == want, "C18: unexpected extra wrapper");
}

fn exec_scenario(lens: [usize; 3], nargs: usize, unicode_first: bool) {
    let mut a = [sym_ascii(lens[0]), sym_ascii(lens[1]), sym_ascii(lens[2])];
    if unicode_first {
        a[0] = String::from("é 'x'"); // multi-byte + space + quotes, concrete
    }
    let mut args = Vec::with_capacity(3);
    let mut i = 0;
    while i < nargs {
        args.push(a[i].clone());
        i += 1;
    }
    let prog = sym_ascii(1);
    let options = any_options();
    let cmd = Command { program: Program::Exec { prog: PathBuf::from(prog.clone()), args }, options };
    let sp = cmd.to_spawnable();
    let c = sp.command();
    kani::cover!(nargs == 3 && lens[0] == 0, "three args, first empty");
    kani::cover!(nargs >= 1 && lens[0] == 2 && a[0].as_bytes()[0] == b' ' && a[0].as_bytes()[1] == b'*', "argument ' *'");
    assert!(bytes_eq(&c.verif_program, prog.as_bytes()), "C18: program altered");
    assert!(c.verif_args.len() == nargs, "C18: argument count changed (split or dropped)");
    let mut i = 0;
    while i < nargs {
        assert!(bytes_eq(&c.verif_args[i], a[i].as_bytes()), "C18: argument bytes altered");
        i += 1;
    }
    check_wrappers(&sp, options);
    std::mem::forget(sp);
    std::mem::forget(cmd);
    std::mem::forget(a);
}

/// Program::Exec with 0..=3 arguments; lengths (0,1,2) resp. (2,0,1); bytes symbolic.
#[kani::proof]
#[kani::unwind(8)]
pub fn c18_exec_argv_exact() {
    split!(4, |nargs| {
        split!(2, |pat| {
            exec_scenario(if pat == 0 { [0, 1, 2] } else { [2, 0, 1] }, nargs, false);
        })
    });
}

/// Thorough: all 27 length combinations x 0..=3 arguments.
#[kani::proof]
#[kani::unwind(8)]
pub fn c18_exec_argv_exact_full() {
    split!(4, |nargs| {
        split!(3, |l0| {
            split!(3, |l1| {
                split!(3, |l2| {
                    exec_scenario([l0, l1, l2], nargs, false);
                })
            })
        })
    });
}

/// The same with a multi-byte first argument.
#[kani::proof]
#[kani::unwind(8)]
pub fn c18_exec_argv_unicode() {
    split!(3, |n| {
        exec_scenario([0, 1, 2], n + 1, true);
    });
}

fn shell_scenario(nopts: usize, nargs: usize, with_progopt: bool, len: usize) {
    let o = [sym_ascii(len), sym_ascii(2 - len)];
    let a = [sym_ascii(2 - len), sym_ascii(len)];
    let command = sym_ascii(2);
    let shell_prog = sym_ascii(1);
    let progopt: Option<String> = if with_progopt { Some(sym_ascii(2)) } else { None };
    let mut options_v = Vec::with_capacity(2);
    let mut args_v = Vec::with_capacity(2);
    let mut i = 0;
    while i < nopts {
        options_v.push(o[i].clone());
        i += 1;
    }
    let mut i = 0;
    while i < nargs {
        args_v.push(a[i].clone());
        i += 1;
    }
    let options = any_options();
    let cmd = Command {
        program: Program::Shell {
            shell: Shell {
                prog: PathBuf::from(shell_prog.clone()),
                options: options_v,
                program_option: progopt.clone().map(|s| Cow::Owned(OsString::from_vec(s.into_bytes()))),
            },
            command: command.clone(),
            args: args_v,
        },
        options,
    };
    let sp = cmd.to_spawnable();
    let c = sp.command();
    kani::cover!(nopts == 2 && nargs == 2 && with_progopt, "full shell form");
    kani::cover!(!with_progopt, "no program option");
    assert!(bytes_eq(&c.verif_program, shell_prog.as_bytes()), "C18: shell program altered");
    let want = nopts + with_progopt as usize + 1 + nargs;
    assert!(c.verif_args.len() == want, "C18: shell argv length wrong");
    let mut k = 0;
    let mut i = 0;
    while i < nopts {
        assert!(bytes_eq(&c.verif_args[k], o[i].as_bytes()), "C18: shell option altered or misplaced");
        k += 1;
        i += 1;
    }
    if let Some(p) = &progopt {
        assert!(bytes_eq(&c.verif_args[k], p.as_bytes()), "C18: program option altered or misplaced");
        k += 1;
    }
    assert!(bytes_eq(&c.verif_args[k], command.as_bytes()), "C18: command string altered or misplaced");
    k += 1;
    let mut i = 0;
    while i < nargs {
        assert!(bytes_eq(&c.verif_args[k], a[i].as_bytes()), "C18: extra argument altered or misplaced");
        k += 1;
        i += 1;
    }
    check_wrappers(&sp, options);
    std::mem::forget(sp);
    std::mem::forget(cmd);
    std::mem::forget((o, a));
}

/// Program::Shell: shell, options.., program option?, command, args..
#[kani::proof]
#[kani::unwind(8)]
pub fn c18_shell_argv_with_progopt() {
    split!(3, |nopts| {
        split!(3, |nargs| {
            shell_scenario(nopts, nargs, true, 1);
        })
    });
}
#[kani::proof]
#[kani::unwind(8)]
pub fn c18_shell_argv_no_progopt() {
    split!(3, |nopts| {
        split!(3, |nargs| {
            shell_scenario(nopts, nargs, false, 1);
        })
    });
}
/// Thorough: also vary the string lengths.
#[kani::proof]
#[kani::unwind(8)]
pub fn c18_shell_argv_full() {
    split!(3, |nopts| {
        split!(3, |nargs| {
            split!(2, |p| {
                split!(3, |len| {
                    shell_scenario(nopts, nargs, p == 1, len);
                })
            })
        })
    });
}
