//! C18 — the argv handed to the process layer is exactly program + arguments, byte for byte.
//!
//! Shape (argument counts, string lengths, presence of the program option) is path-split: a
//! constant on each explored path, so `Vec`/`String` sizes stay concrete. The *bytes* of every
//! string are symbolic over all of ASCII (0x01..=0x7f: every shell metacharacter, whitespace,
//! quote, control character), and one argument may instead be a concrete multi-byte string.
use std::borrow::Cow;
use std::ffi::{OsStr, OsString};
use std::os::unix::ffi::{OsStrExt, OsStringExt};
use std::path::PathBuf;

use process_wrap::tokio::WrapKind;
use watchexec_supervisor::command::{Command, Program, Shell, SpawnOptions};

use crate::split;

/// Two symbolic ASCII bytes (never NUL): the backing store of one test string.
fn sym2() -> [u8; 2] {
    let b: [u8; 2] = kani::any();
    kani::assume(b[0] >= 1 && b[0] < 0x80 && b[1] >= 1 && b[1] < 0x80);
    b
}
/// The string made of the first `len` (<= 2) bytes of `b`.
fn mk(b: &[u8; 2], len: usize) -> String {
    let mut v = Vec::with_capacity(2);
    let mut i = 0;
    while i < len {
        v.push(b[i]);
        i += 1;
    }
    // SAFETY: all bytes are ASCII
    unsafe { String::from_utf8_unchecked(v) }
}
/// `a` equals the first `len` bytes of `b`.
fn is(a: &OsStr, b: &[u8; 2], len: usize) -> bool {
    let a = a.as_bytes();
    if a.len() != len {
        return false;
    }
    let mut i = 0;
    while i < len {
        if a[i] != b[i] {
            return false;
        }
        i += 1;
    }
    true
}

fn bytes_eq(a: &OsStr, b: &[u8]) -> bool {
    let a = a.as_bytes();
    if a.len() != b.len() {
        return false;
    }
    let mut i = 0;
    while i < a.len() {
        if a[i] != b[i] {
            return false;
        }
        i += 1;
    }
    true
}

fn any_options() -> SpawnOptions {
    SpawnOptions { grouped: kani::any(), session: kani::any(), reset_sigmask: kani::any() }
}

fn check_wrappers(sp: &process_wrap::tokio::TokioCommandWrap, o: SpawnOptions) {
    assert!(sp.verif_has(WrapKind::KillOnDrop), "C18: KillOnDrop wrapper missing");
    assert!(sp.verif_has(WrapKind::ProcessSession) == o.session, "C18: session option not honoured");
    assert!(sp.verif_has(WrapKind::ProcessGroup) == (o.grouped && !o.session), "C18: process-group option not honoured");
    assert!(sp.verif_has(WrapKind::ResetSigmask) == o.reset_sigmask, "C18: reset-sigmask option not honoured");
    let want = 1 + (o.session || o.grouped) as usize + o.reset_sigmask as usize;
    assert!(sp.verif_wrap_count() == want, "C18: unexpected extra wrapper");
}

fn exec_scenario(lens: [usize; 3], nargs: usize, unicode_first: bool) {
    const UNI: &str = "é 'x'"; // multi-byte + space + quotes, concrete
    let b = [sym2(), sym2(), sym2()];
    let pb = sym2();
    let mut args = Vec::with_capacity(3);
    let mut i = 0;
    while i < nargs {
        args.push(if unicode_first && i == 0 { String::from(UNI) } else { mk(&b[i], lens[i]) });
        i += 1;
    }
    let options = any_options();
    let cmd = Command { program: Program::Exec { prog: PathBuf::from(mk(&pb, 1)), args }, options };
    let sp = cmd.to_spawnable();
    let c = sp.command();
    kani::cover!(nargs == 3 && lens[0] == 0, "three args, first empty");
    kani::cover!(nargs >= 1 && lens[0] == 2 && b[0][0] == b' ' && b[0][1] == b'*', "argument ' *'");
    kani::cover!(nargs >= 1 && lens[0] == 1 && b[0][0] == pb[0], "first argument equals the program");
    kani::cover!(nargs == 2 && lens[1] == 2 && b[1][1] == b'\n', "last argument ends in a newline");
    assert!(is(&c.verif_program, &pb, 1), "C18: program altered");
    assert!(c.verif_args.len() == nargs, "C18: argument count changed (split or dropped)");
    let mut i = 0;
    while i < nargs {
        if unicode_first && i == 0 {
            assert!(bytes_eq(&c.verif_args[0], UNI.as_bytes()), "C18: argument bytes altered");
        } else {
            assert!(is(&c.verif_args[i], &b[i], lens[i]), "C18: argument bytes altered");
        }
        i += 1;
    }
    check_wrappers(&sp, options);
    std::mem::forget(sp);
    std::mem::forget(cmd);
}

/// Program::Exec with 0..=3 arguments; three length patterns - (0,1,2), (1,2,0), (2,0,1) - so
/// that every position sees every length (in particular a first argument as long as the
/// program name, which is 1 byte, so the two can be equal); bytes symbolic.
#[kani::proof]
#[kani::unwind(5)]
pub fn c18_exec_argv_exact() {
    split!(4, |nargs| {
        split!(3, |pat| {
            exec_scenario(if pat == 0 { [0, 1, 2] } else if pat == 1 { [1, 2, 0] } else { [2, 0, 1] }, nargs, false);
        })
    });
}

/// Thorough: every combination of argument lengths 0..=2 for 1, 2 and 3 arguments
/// (3 + 9 + 27 shapes; zero arguments is covered by the quick harness).
#[kani::proof]
#[kani::unwind(5)]
pub fn c18_exec_full_1arg() {
    split!(3, |l0| {
        exec_scenario([l0, 0, 0], 1, false);
    });
}
#[kani::proof]
#[kani::unwind(5)]
pub fn c18_exec_full_2args() {
    split!(3, |l0| {
        split!(3, |l1| {
            exec_scenario([l0, l1, 0], 2, false);
        })
    });
}
macro_rules! exec_full_3 {
    ($name:ident, $l0:expr) => {
        #[kani::proof]
        #[kani::unwind(5)]
        pub fn $name() {
            split!(3, |l1| {
                split!(3, |l2| {
                    exec_scenario([$l0, l1, l2], 3, false);
                })
            });
        }
    };
}
exec_full_3!(c18_exec_full_3args_len0, 0);
exec_full_3!(c18_exec_full_3args_len1, 1);
exec_full_3!(c18_exec_full_3args_len2, 2);

/// The same with a multi-byte first argument.
#[kani::proof]
#[kani::unwind(8)]
pub fn c18_exec_argv_unicode() {
    split!(3, |n| {
        exec_scenario([0, 1, 2], n + 1, true);
    });
}

fn shell_scenario(nopts: usize, nargs: usize, with_progopt: bool, len: usize) {
    let ob = [sym2(), sym2()];
    let ab = [sym2(), sym2()];
    let (cb, sb, pb) = (sym2(), sym2(), sym2());
    let olen = [len, 2 - len];
    let alen = [2 - len, len];
    let mut options_v = Vec::with_capacity(2);
    let mut args_v = Vec::with_capacity(2);
    let mut i = 0;
    while i < nopts {
        options_v.push(mk(&ob[i], olen[i]));
        i += 1;
    }
    let mut i = 0;
    while i < nargs {
        args_v.push(mk(&ab[i], alen[i]));
        i += 1;
    }
    let options = any_options();
    let cmd = Command {
        program: Program::Shell {
            shell: Shell {
                prog: PathBuf::from(mk(&sb, 1)),
                options: options_v,
                program_option: if with_progopt { Some(Cow::Owned(OsString::from_vec(mk(&pb, 2).into_bytes()))) } else { None },
            },
            command: mk(&cb, 2),
            args: args_v,
        },
        options,
    };
    let sp = cmd.to_spawnable();
    let c = sp.command();
    kani::cover!(nopts == 2 && nargs == 2 && with_progopt, "full shell form");
    kani::cover!(!with_progopt, "no program option");
    assert!(is(&c.verif_program, &sb, 1), "C18: shell program altered");
    let want = nopts + with_progopt as usize + 1 + nargs;
    assert!(c.verif_args.len() == want, "C18: shell argv length wrong");
    let mut k = 0;
    let mut i = 0;
    while i < nopts {
        assert!(is(&c.verif_args[k], &ob[i], olen[i]), "C18: shell option altered or misplaced");
        k += 1;
        i += 1;
    }
    if with_progopt {
        assert!(is(&c.verif_args[k], &pb, 2), "C18: program option altered or misplaced");
        k += 1;
    }
    assert!(is(&c.verif_args[k], &cb, 2), "C18: command string altered or misplaced");
    k += 1;
    let mut i = 0;
    while i < nargs {
        assert!(is(&c.verif_args[k], &ab[i], alen[i]), "C18: extra argument altered or misplaced");
        k += 1;
        i += 1;
    }
    check_wrappers(&sp, options);
    std::mem::forget(sp);
    std::mem::forget(cmd);
}

/// Program::Shell: shell, options.., program option?, command, args.. One harness per
/// (number of shell options, program option present); the number of extra arguments is
/// path-split inside, all bytes and the spawn options are symbolic.
macro_rules! shell_harness {
    ($name:ident, $nopts:expr, $progopt:expr) => {
        #[kani::proof]
        #[kani::unwind(5)]
        pub fn $name() {
            split!(3, |nargs| {
                shell_scenario($nopts, nargs, $progopt, 1);
            });
        }
    };
}
shell_harness!(c18_shell_0opts_progopt, 0, true);
shell_harness!(c18_shell_1opts_progopt, 1, true);
shell_harness!(c18_shell_2opts_progopt, 2, true);
shell_harness!(c18_shell_0opts_noprogopt, 0, false);
shell_harness!(c18_shell_1opts_noprogopt, 1, false);
shell_harness!(c18_shell_2opts_noprogopt, 2, false);

/// Thorough: other string-length patterns.
macro_rules! shell_harness_len {
    ($name:ident, $len:expr) => {
        #[kani::proof]
        #[kani::unwind(5)]
        pub fn $name() {
            split!(2, |p| {
                split!(2, |n| {
                    shell_scenario(2 * n, 2 - n, p == 1, $len);
                })
            });
        }
    };
}
shell_harness_len!(c18_shell_len0, 0);
shell_harness_len!(c18_shell_len2, 2);

/// The program is a path, not text: a program name made of arbitrary non-NUL bytes (0x01..=0xff, so every
/// sequence that is not valid UTF-8 is included) reaches the process layer byte for byte; one ASCII argument.
/// (Added after seed r4-lossy-program-path, which converts the program through `Path::display`.)
#[kani::proof]
#[kani::unwind(5)]
pub fn c18_exec_nonutf8_program() {
    let pb: [u8; 2] = kani::any();
    kani::assume(pb[0] >= 1 && pb[1] >= 1);
    let ab = sym2();
    let mut pv = Vec::with_capacity(2);
    pv.push(pb[0]);
    pv.push(pb[1]);
    let mut args = Vec::with_capacity(1);
    args.push(mk(&ab, 2));
    let options = any_options();
    let cmd = Command { program: Program::Exec { prog: PathBuf::from(OsString::from_vec(pv)), args }, options };
    let sp = cmd.to_spawnable();
    let c = sp.command();
    kani::cover!(pb[0] == b'p' && pb[1] == 0xff, "program name that is not valid UTF-8");
    assert!(is(&c.verif_program, &pb, 2), "C18: program altered");
    assert!(c.verif_args.len() == 1, "C18: argument count changed (split or dropped)");
    assert!(is(&c.verif_args[0], &ab, 2), "C18: argument bytes altered");
    check_wrappers(&sp, options);
    std::mem::forget(sp);
    std::mem::forget(cmd);
}
