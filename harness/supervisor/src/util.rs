//! Standing stubs and helpers shared by the harnesses of this group.
use std::any::Any;
use std::panic::UnwindSafe;

/// Kani ICE work-around (intrinsics.rs:243): any reachable thread-local destructor drags in
/// `catch_unwind`; under Kani's panic=abort semantics `Ok(f())` is exact.
pub fn catch_unwind_stub<F: FnOnce() -> R + UnwindSafe, R>(f: F) -> Result<R, Box<dyn Any + Send>> {
    Ok(f())
}

/// `std::time::Instant::now` is FFI (`clock_gettime`); serve the model's virtual clock instead.
pub fn instant_now_stub() -> std::time::Instant {
    let ns = tokio::verif::now_ns();
    let secs = (ns / 1_000_000_000) as i64;
    let nanos = (ns % 1_000_000_000) as u32;
    // std::time::Instant on unix is Timespec { tv_sec: i64, tv_nsec: u32 (niche-limited) }
    unsafe { std::mem::transmute::<(i64, u32), std::time::Instant>((secs, nanos)) }
}

pub fn no_format(_: std::fmt::Arguments<'_>) -> String {
    String::new()
}

/// Solver-chosen value in 0..n that is a *constant* on each explored path: the chosen value is
/// dispatched through a chain of equality tests and the continuation is run inside the matching
/// branch, so CBMC's symbolic executor never merges states that differ in this choice. Used for
/// the structural choices (which control, who polls) whose symbolic form makes every heap
/// object that depends on them symbolic (measured: formula size x20..x100); the quantities the
/// properties are about (times, delays, counts, failures, `select!` order) stay symbolic.
#[macro_export]
macro_rules! split {
    ($n:expr, |$v:ident| $body:block) => {{
        let __c: usize = kani::any();
        kani::assume(__c < $n);
        let mut __i = 0usize;
        while __i < $n {
            if __c == __i {
                let $v: usize = __i;
                $body
            }
            __i += 1;
        }
    }};
}
