//! Shared scaffolding for the task-level harnesses: the real `start_job` task future runs on the
//! tokio model's task table; the harness is the executor and the clock.
use std::sync::Arc;

use process_wrap::verif::{self as pw, Behaviour};
use tokio::verif as tv;
use watchexec_supervisor::command::{Command, Program, SpawnOptions};
use watchexec_supervisor::job::{start_job, Job};

pub fn command() -> Arc<Command> {
    Arc::new(Command {
        program: Program::Exec { prog: "p".into(), args: Vec::new() },
        options: SpawnOptions::default(),
    })
}

/// Symbolic behaviour of one child: exits by itself after any time or never; reacts to a
/// signal after any delay or never.
pub fn any_behaviour() -> Behaviour {
    let exits: bool = kani::any();
    let reacts: bool = kani::any();
    Behaviour {
        exits_after: if exits { kani::any::<u32>() as u64 } else { pw::NEVER },
        exit_code: kani::any(),
        reacts_after: if reacts { kani::any::<u32>() as u64 } else { pw::NEVER },
    }
}

pub fn new_job() -> Job {
    let (job, handle) = start_job(command());
    std::mem::forget(handle);
    job
}

/// Run the executor until no task is runnable (at most `max_turns` turns).
/// Returns false if the budget ran out (reported as a bound failure by the callers).
pub fn settle(max_turns: usize) -> bool {
    let mut i = 0;
    while i < max_turns {
        if !tv::turn() {
            return true;
        }
        i += 1;
    }
    !tv::any_runnable()
}

/// PROBE (session 4, not registered unless it finishes): the real job task, one `start()`, executor turns
/// until nothing is runnable: exactly one child spawned, the ticket resolved.
#[kani::proof]
#[kani::unwind(6)]
pub fn task_probe_start() {
    let job = new_job();
    let t = job.start();
    let settled = settle(4);
    assert!(settled, "VERIF-BOUND: executor turn budget exhausted");
    assert!(pw::world().n_spawned() == 1, "C09: start on an idle job did not spawn exactly one process");
    kani::cover!(true, "task ran");
    std::mem::forget(t);
    std::mem::forget(job);
}
