//! Harness group `jobq`: the synchronous seam of C10 / C06 / C07 (the public `Job` API, the
//! priority sender and the grace timer) and single-poll scenarios of `PriorityReceiver::recv`,
//! over the real `watchexec-supervisor` code and the environment models under /verif/models.
#![cfg(kani)]
#![allow(clippy::all)]

#[path = "../../supervisor/src/util.rs"]
pub mod util;
pub mod common;
pub mod api;
pub mod timer;
pub mod recv;
pub mod probe;

pub use api::*;
pub use recv::*;
pub use timer::*;

mod playback {
    #[allow(unused_imports)]
    use super::*;
    include!("playback.rs");
}
