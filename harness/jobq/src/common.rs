//! Shared generators and observers of the `jobq` harnesses.
use std::sync::Arc;
use std::time::Duration;

use tokio::verif as tv;
use watchexec_supervisor::command::{Command, Program, SpawnOptions};
use watchexec_supervisor::job::Control;
use watchexec_supervisor::Signal;

/// Waker id of the (single) harness-level waiter.
pub const W0: usize = tv::HARNESS_ID_BASE;

pub fn command() -> Arc<Command> {
    Arc::new(Command {
        program: Program::Exec { prog: "p".into(), args: Vec::new() },
        options: SpawnOptions::default(),
    })
}

/// Any signal: each first-class one, or `Custom(n)` for any i32.
pub fn any_signal() -> Signal {
    let k: u8 = kani::any();
    match k {
        0 => Signal::Hangup,
        1 => Signal::ForceStop,
        2 => Signal::Interrupt,
        3 => Signal::Quit,
        4 => Signal::Terminate,
        5 => Signal::User1,
        6 => Signal::User2,
        _ => Signal::Custom(kani::any()),
    }
}

/// Any `Duration` (full u64 seconds, any valid nanosecond part).
pub fn any_duration() -> Duration {
    let secs: u64 = kani::any();
    let nanos: u32 = kani::any();
    kani::assume(nanos < 1_000_000_000);
    Duration::new(secs, nanos)
}

/// Shape of a control (variant without the closure payloads).
#[derive(Clone, Copy, PartialEq, Eq, Debug)]
pub enum K {
    Start,
    Stop,
    GracefulStop,
    TryRestart,
    TryGracefulRestart,
    Continue,
    Signal,
    Delete,
    NextEnding,
    SyncFunc,
    AsyncFunc,
    SetSyncSpawnHook,
    SetAsyncSpawnHook,
    UnsetSpawnHook,
    SetSyncErrorHandler,
    SetAsyncErrorHandler,
    UnsetErrorHandler,
}

/// Does `c` have shape `k`, with exactly the payload (`sig`, `grace`) where the shape has one?
pub fn control_is(c: &Control, k: K, sig: Signal, grace: Duration) -> bool {
    match (c, k) {
        (Control::Start, K::Start) => true,
        (Control::Stop, K::Stop) => true,
        (Control::GracefulStop { signal, grace: g }, K::GracefulStop) => *signal == sig && *g == grace,
        (Control::TryRestart, K::TryRestart) => true,
        (Control::TryGracefulRestart { signal, grace: g }, K::TryGracefulRestart) => *signal == sig && *g == grace,
        (Control::ContinueTryGracefulRestart, K::Continue) => true,
        (Control::Signal(s), K::Signal) => *s == sig,
        (Control::Delete, K::Delete) => true,
        (Control::NextEnding, K::NextEnding) => true,
        (Control::SyncFunc(_), K::SyncFunc) => true,
        (Control::AsyncFunc(_), K::AsyncFunc) => true,
        (Control::SetSyncSpawnHook(_), K::SetSyncSpawnHook) => true,
        (Control::SetAsyncSpawnHook(_), K::SetAsyncSpawnHook) => true,
        (Control::UnsetSpawnHook, K::UnsetSpawnHook) => true,
        (Control::SetSyncErrorHandler(_), K::SetSyncErrorHandler) => true,
        (Control::SetAsyncErrorHandler(_), K::SetAsyncErrorHandler) => true,
        (Control::UnsetErrorHandler, K::UnsetErrorHandler) => true,
        _ => false,
    }
}
