//! Family 3 — `PriorityReceiver::recv` (async): one concrete queue/timer scenario per harness,
//! polled with the model waker. Queue contents are concrete in structure; the identifying payload
//! of every message (`Signal::Custom(tag)`), the timer kind (`is_restart`) and the times are
//! symbolic. A message is identified by its tag (the solver is free to choose all tags different)
//! and by its done flag (raising the received one must raise the original).
//!
//! C10: urgent before high before normal; FIFO inside a queue; while the grace timer is armed the
//! normal queue is not read. C06: an expired timer yields the forced control carrying the timer's
//! flag (before anything queued) and clears the timer; an armed timer that has not expired yields
//! nothing; when it fires while `recv` is pending the waiter is woken and gets the forced control.
use std::mem::ManuallyDrop;
use std::pin::Pin;
use std::task::Poll;

use tokio::sync::mpsc::error::TryRecvError;
use tokio::time::Instant;
use tokio::verif as tv;
use watchexec_supervisor::job::Control;
use watchexec_supervisor::verif::{priority_new, ControlMessage, Flag, Priority, PriorityReceiver, PrioritySender, Timer};
use watchexec_supervisor::Signal;

use crate::common::W0;

/// A message with a symbolic identifying tag; returns (tag, its done flag).
fn send(tx: &PrioritySender, p: Priority) -> (i32, Flag) {
    let tag: i32 = kani::any();
    let done = Flag::default();
    tx.send(ControlMessage { control: Control::Signal(Signal::Custom(tag)), done: done.clone() }, p);
    (tag, done)
}

/// The received message is exactly the one sent as (tag, flag).
fn is_msg(m: &ControlMessage, sent: &(i32, Flag)) -> bool {
    let same_tag = matches!(m.control, Control::Signal(Signal::Custom(t)) if t == sent.0);
    if !same_tag || sent.1.raised() {
        return false;
    }
    m.done.raise();
    sent.1.raised()
}

/// The received message is the forced control of a timer with flag `flag`.
fn is_forced(m: &ControlMessage, is_restart: bool, flag: &Flag) -> bool {
    let shape = if is_restart {
        matches!(m.control, Control::ContinueTryGracefulRestart)
    } else {
        matches!(m.control, Control::Stop)
    };
    if !shape || flag.raised() {
        return false;
    }
    m.done.raise();
    flag.raised()
}

/// One fresh `recv` call, polled once; the future is leaked (its drop glue is not the subject).
/// `select!` start index of the scenarios that reach a `select!` once: solver-chosen (usize::MAX),
/// i.e. every polling order tokio's random start index can produce. (Until the model's
/// `UnboundedReceiver::recv` became a named future instead of an `async fn` - a coroutine nested in
/// the `recv` coroutine - none of these scenarios finished symbolic execution in 330-400 s.)
/// Scenarios that poll twice choose the start index of the decisive poll by path-splitting
/// (`split!(3, ..)` + `set_select_start(k)`): constant on each path, all three orders explored.
pub const SELECT_START: usize = usize::MAX;

fn recv_once(rx: &mut PriorityReceiver, st: &mut Option<Timer>) -> Poll<Option<ControlMessage>> {
    let mut fut = ManuallyDrop::new(rx.recv(st));
    let p = unsafe { Pin::new_unchecked(&mut *fut) };
    tv::poll_with(W0, p)
}

fn still_queued(r: Result<ControlMessage, TryRecvError>, sent: &(i32, Flag)) -> bool {
    match r {
        Ok(m) => {
            let ok = is_msg(&m, sent);
            std::mem::forget(m);
            ok
        }
        Err(_) => false,
    }
}

/// Times are CONCRETE: a symbolic `until <= now` makes `recv`'s first branch symbolic, both
/// continuations are explored and merged (measured: 6.5M symex steps, out of memory at 12 GB);
/// the exact boundary is decided symbolically by the Timer harnesses (family 2).
pub const NOW: u64 = 1_000;
pub const UNTIL: u64 = 5_000;

/// Armed timer: deadline strictly later than now.
fn armed_future_timer(flag: &Flag, is_restart: bool) -> (Option<Timer>, u64) {
    tv::advance_to(NOW);
    (Some(Timer { until: Instant::from_ns(UNTIL), done: flag.clone(), is_restart }), UNTIL)
}

/// Expired timer: deadline exactly now (`exactly`) or earlier.
fn armed_past_timer(flag: &Flag, is_restart: bool, exactly: bool) -> Option<Timer> {
    tv::advance_to(NOW);
    let until = if exactly { NOW } else { NOW - 600 };
    Some(Timer { until: Instant::from_ns(until), done: flag.clone(), is_restart })
}

// ------------------------------------------------------------------ no timer

/// No timer; urgent, high and normal each hold one message: the urgent one is returned, the other
/// two stay queued.
#[kani::proof]
#[kani::unwind(8)]
pub fn recv_urgent_beats_high_and_normal() {
    tv::set_select_start(SELECT_START);
    let (tx, mut rx) = priority_new();
    // sent in the "wrong" order on purpose
    let n = send(&tx, Priority::Normal);
    let h = send(&tx, Priority::High);
    let u = send(&tx, Priority::Urgent);
    let mut st: Option<Timer> = None;
    match recv_once(&mut rx, &mut st) {
        Poll::Ready(Some(m)) => {
            assert!(is_msg(&m, &u), "C10: pending urgent control not returned first");
            std::mem::forget(m);
        }
        _ => panic!("C10: recv did not return although controls are queued"),
    }
    assert!(still_queued(rx.high.try_recv(), &h), "C10: high control lost or consumed out of turn");
    assert!(still_queued(rx.normal.try_recv(), &n), "C10: normal control lost or consumed out of turn");
    kani::cover!(true, "scenario ran to its end");
    std::mem::forget((rx, tx, st, n, h, u));
}

/// No timer; high and normal each hold one message: high is returned, normal stays.
#[kani::proof]
#[kani::unwind(8)]
pub fn recv_high_beats_normal() {
    tv::set_select_start(SELECT_START);
    let (tx, mut rx) = priority_new();
    let n = send(&tx, Priority::Normal);
    let h = send(&tx, Priority::High);
    let mut st: Option<Timer> = None;
    match recv_once(&mut rx, &mut st) {
        Poll::Ready(Some(m)) => {
            assert!(is_msg(&m, &h), "C10: pending high control not returned before normal");
            std::mem::forget(m);
        }
        _ => panic!("C10: recv did not return although controls are queued"),
    }
    assert!(still_queued(rx.normal.try_recv(), &n), "C10: normal control lost or consumed out of turn");
    kani::cover!(true, "scenario ran to its end");
    std::mem::forget((rx, tx, st, n, h));
}

/// No timer; two urgent messages, two successive recv calls: FIFO (fast path, no select).
#[kani::proof]
#[kani::unwind(8)]
pub fn recv_urgent_fifo() {
    tv::set_select_start(SELECT_START);
    let (tx, mut rx) = priority_new();
    let a = send(&tx, Priority::Urgent);
    let b = send(&tx, Priority::Urgent);
    let mut st: Option<Timer> = None;
    match recv_once(&mut rx, &mut st) {
        Poll::Ready(Some(m)) => {
            assert!(is_msg(&m, &a), "C10: urgent controls not FIFO (first)");
            std::mem::forget(m);
        }
        _ => panic!("C10: recv did not return although controls are queued"),
    }
    match recv_once(&mut rx, &mut st) {
        Poll::Ready(Some(m)) => {
            assert!(is_msg(&m, &b), "C10: urgent controls not FIFO (second)");
            std::mem::forget(m);
        }
        _ => panic!("C10: recv did not return although controls are queued"),
    }
    kani::cover!(true, "scenario ran to its end");
    std::mem::forget((rx, tx, st, a, b));
}

/// No timer; only the normal queue holds (two) messages: the first recv returns the first one
/// (through the `select!`), the second stays queued.
#[kani::proof]
#[kani::unwind(8)]
pub fn recv_normal_first_of_two() {
    tv::set_select_start(SELECT_START);
    let (tx, mut rx) = priority_new();
    let a = send(&tx, Priority::Normal);
    let b = send(&tx, Priority::Normal);
    let mut st: Option<Timer> = None;
    match recv_once(&mut rx, &mut st) {
        Poll::Ready(Some(m)) => {
            assert!(is_msg(&m, &a), "C10: normal controls not FIFO (first)");
            std::mem::forget(m);
        }
        _ => panic!("C10: recv did not return although a normal control is queued and no timer is armed"),
    }
    assert!(still_queued(rx.normal.try_recv(), &b), "C10: second normal control lost or consumed out of turn");
    kani::cover!(true, "scenario ran to its end");
    std::mem::forget((rx, tx, st, a, b));
}

/// No timer; two normal messages, two successive recv calls (two `select!`s): FIFO.
#[kani::proof]
#[kani::unwind(8)]
pub fn recv_normal_fifo_two_recvs() {
    tv::set_select_start(SELECT_START);
    let (tx, mut rx) = priority_new();
    let a = send(&tx, Priority::Normal);
    let b = send(&tx, Priority::Normal);
    let mut st: Option<Timer> = None;
    match recv_once(&mut rx, &mut st) {
        Poll::Ready(Some(m)) => {
            assert!(is_msg(&m, &a), "C10: normal controls not FIFO (first)");
            std::mem::forget(m);
        }
        _ => panic!("C10: recv did not return although a normal control is queued and no timer is armed"),
    }
    match recv_once(&mut rx, &mut st) {
        Poll::Ready(Some(m)) => {
            assert!(is_msg(&m, &b), "C10: normal controls not FIFO (second)");
            std::mem::forget(m);
        }
        _ => panic!("C10: recv did not return although a normal control is queued and no timer is armed"),
    }
    kani::cover!(true, "scenario ran to its end");
    std::mem::forget((rx, tx, st, a, b));
}

/// No timer, nothing queued: Pending; nothing invented.
#[kani::proof]
#[kani::unwind(8)]
pub fn recv_empty_is_pending() {
    tv::set_select_start(SELECT_START);
    let (tx, mut rx) = priority_new();
    let mut st: Option<Timer> = None;
    let r = recv_once(&mut rx, &mut st);
    assert!(r.is_pending(), "C10: recv returned with nothing queued");
    kani::cover!(true, "scenario ran to its end");
    std::mem::forget((r, rx, tx, st));
}

// ------------------------------------------------------------------ armed timer, not expired

/// Armed timer (deadline in the future), only the normal queue holds a message: Pending, the
/// normal message is NOT consumed, the timer stays armed.
fn recv_armed_timer_holds_back_normal_body(is_restart: bool) {
    tv::set_select_start(SELECT_START);
    let (tx, mut rx) = priority_new();
    let n = send(&tx, Priority::Normal);
    let flag = Flag::default();
    let (mut st, _until) = armed_future_timer(&flag, is_restart);
    let r = recv_once(&mut rx, &mut st);
    assert!(r.is_pending(), "C10: a normal control was returned (or a forced control produced early) while the grace timer is armed");
    assert!(st.is_some(), "C06: armed timer lost");
    assert!(!flag.raised(), "C06: timer flag raised by recv");
    assert!(still_queued(rx.normal.try_recv(), &n), "C10: normal control consumed while the grace timer is armed");
    kani::cover!(true, "scenario ran to its end");
    std::mem::forget((r, rx, tx, st, n, flag));
}

/// Armed timer, urgent + high + normal queued: the urgent one is returned, the timer stays.
fn recv_armed_timer_urgent_passes_body(is_restart: bool) {
    tv::set_select_start(SELECT_START);
    let (tx, mut rx) = priority_new();
    let n = send(&tx, Priority::Normal);
    let h = send(&tx, Priority::High);
    let u = send(&tx, Priority::Urgent);
    let flag = Flag::default();
    let (mut st, _until) = armed_future_timer(&flag, is_restart);
    match recv_once(&mut rx, &mut st) {
        Poll::Ready(Some(m)) => {
            assert!(is_msg(&m, &u), "C10: pending urgent control not returned first while the timer is armed");
            std::mem::forget(m);
        }
        _ => panic!("C10: recv did not return although an urgent control is queued"),
    }
    assert!(st.is_some(), "C06: armed timer lost");
    assert!(still_queued(rx.high.try_recv(), &h), "C10: high control lost or consumed out of turn");
    assert!(still_queued(rx.normal.try_recv(), &n), "C10: normal control lost or consumed out of turn");
    kani::cover!(true, "scenario ran to its end");
    std::mem::forget((rx, tx, st, n, h, u, flag));
}

/// Armed timer, high + normal queued: the high one is returned, the timer stays.
fn recv_armed_timer_high_passes_body(is_restart: bool) {
    tv::set_select_start(SELECT_START);
    let (tx, mut rx) = priority_new();
    let n = send(&tx, Priority::Normal);
    let h = send(&tx, Priority::High);
    let flag = Flag::default();
    let (mut st, _until) = armed_future_timer(&flag, is_restart);
    match recv_once(&mut rx, &mut st) {
        Poll::Ready(Some(m)) => {
            assert!(is_msg(&m, &h), "C10: pending high control not returned while the timer is armed");
            std::mem::forget(m);
        }
        _ => panic!("C10: recv did not return although a high control is queued"),
    }
    assert!(st.is_some(), "C06: armed timer lost");
    assert!(still_queued(rx.normal.try_recv(), &n), "C10: normal control lost or consumed out of turn");
    kani::cover!(true, "scenario ran to its end");
    std::mem::forget((rx, tx, st, n, h, flag));
}

// ------------------------------------------------------------------ expired timer

/// Expired timer (deadline <= now) with urgent + high + normal queued: the forced control with
/// the timer's flag is returned, the timer is cleared, the queues are untouched.
fn expired_timer_first(is_restart: bool, exactly: bool) {
    tv::set_select_start(SELECT_START);
    let (tx, mut rx) = priority_new();
    let n = send(&tx, Priority::Normal);
    let h = send(&tx, Priority::High);
    let u = send(&tx, Priority::Urgent);
    let flag = Flag::default();
    let mut st = armed_past_timer(&flag, is_restart, exactly);
    match recv_once(&mut rx, &mut st) {
        Poll::Ready(Some(m)) => {
            assert!(is_forced(&m, is_restart, &flag), "C06: expired grace timer must yield the forced control carrying the timer's flag");
            std::mem::forget(m);
        }
        _ => panic!("C06: expired grace timer ignored"),
    }
    assert!(st.is_none(), "C06: expired timer not cleared");
    assert!(still_queued(rx.urgent.try_recv(), &u), "C10: urgent control lost or consumed by the timer path");
    assert!(still_queued(rx.high.try_recv(), &h), "C10: high control lost or consumed by the timer path");
    assert!(still_queued(rx.normal.try_recv(), &n), "C10: normal control lost or consumed by the timer path");
    kani::cover!(true, "scenario ran to its end");
    std::mem::forget((rx, tx, st, n, h, u, flag));
}

#[kani::proof]
#[kani::unwind(8)]
pub fn recv_expired_stop_timer_first() {
    crate::split!(2, |e| {
        expired_timer_first(false, e == 1);
        kani::assume(false);
    });
}

#[kani::proof]
#[kani::unwind(8)]
pub fn recv_expired_restart_timer_first() {
    crate::split!(2, |e| {
        expired_timer_first(true, e == 1);
        kani::assume(false);
    });
}

// ------------------------------------------------------------------ resumed polls

/// Armed timer, only normal queued: first poll Pending; the clock reaches the deadline (the model
/// fires due timers): the waiter is woken; the SAME future polled again yields the forced control
/// and clears the timer; the normal message is still queued.
fn recv_timer_fires_while_pending_body(is_restart: bool) {
    tv::set_select_start(SELECT_START);
    let (tx, mut rx) = priority_new();
    let n = send(&tx, Priority::Normal);
    let flag = Flag::default();
    let (mut st, until) = armed_future_timer(&flag, is_restart);
    {
        let mut fut = ManuallyDrop::new(rx.recv(&mut st));
        let r = tv::poll_with(W0, unsafe { Pin::new_unchecked(&mut *fut) });
        assert!(r.is_pending(), "C10: a normal control was returned (or a forced control produced early) while the grace timer is armed");
        std::mem::forget(r);
        // just before the deadline nothing happens
        tv::advance_to(until - 1);
        assert!(!tv::woken(W0), "C06: waiter woken before the grace period has elapsed");
        tv::advance_to(until);
        assert!(tv::woken(W0), "C06: waiter not woken when the grace period elapsed");
        match tv::poll_with(W0, unsafe { Pin::new_unchecked(&mut *fut) }) {
            Poll::Ready(Some(m)) => {
                assert!(is_forced(&m, is_restart, &flag), "C06: expired grace timer must yield the forced control carrying the timer's flag");
                std::mem::forget(m);
            }
            _ => panic!("C06: grace timer expiry while recv is pending did not yield the forced control"),
        }
    }
    assert!(st.is_none(), "C06: expired timer not cleared");
    assert!(still_queued(rx.normal.try_recv(), &n), "C10: normal control lost or consumed by the timer path");
    kani::cover!(true, "scenario ran to its end");
    std::mem::forget((rx, tx, st, n, flag));
}

/// Fresh-call variant of the above (what the job task does when its loop comes round again):
/// Pending; clock reaches the deadline; a NEW recv call yields the forced control.
fn recv_timer_fires_then_new_recv_body(is_restart: bool) {
    tv::set_select_start(SELECT_START);
    let (tx, mut rx) = priority_new();
    let n = send(&tx, Priority::Normal);
    let flag = Flag::default();
    let (mut st, until) = armed_future_timer(&flag, is_restart);
    let r = recv_once(&mut rx, &mut st);
    assert!(r.is_pending(), "C10: a normal control was returned (or a forced control produced early) while the grace timer is armed");
    std::mem::forget(r);
    tv::advance_to(until - 1);
    assert!(!tv::woken(W0), "C06: waiter woken before the grace period has elapsed");
    tv::advance_to(until);
    assert!(tv::woken(W0), "C06: waiter not woken when the grace period elapsed");
    match recv_once(&mut rx, &mut st) {
        Poll::Ready(Some(m)) => {
            assert!(is_forced(&m, is_restart, &flag), "C06: expired grace timer must yield the forced control carrying the timer's flag");
            std::mem::forget(m);
        }
        _ => panic!("C06: expired grace timer ignored"),
    }
    assert!(st.is_none(), "C06: expired timer not cleared");
    assert!(still_queued(rx.normal.try_recv(), &n), "C10: normal control lost or consumed by the timer path");
    kani::cover!(true, "scenario ran to its end");
    std::mem::forget((rx, tx, st, n, flag));
}

/// No timer, nothing queued: Pending; then a normal message arrives: the waiter is woken and the
/// same future yields it.
#[kani::proof]
#[kani::unwind(8)]
pub fn recv_woken_by_normal_send() {
    tv::set_select_start(SELECT_START);
    let (tx, mut rx) = priority_new();
    let mut st: Option<Timer> = None;
    let n;
    {
        let mut fut = ManuallyDrop::new(rx.recv(&mut st));
        let r = tv::poll_with(W0, unsafe { Pin::new_unchecked(&mut *fut) });
        assert!(r.is_pending(), "C10: recv returned with nothing queued");
        std::mem::forget(r);
        n = send(&tx, Priority::Normal);
        assert!(tv::woken(W0), "C10: recv waiter not woken by a normal control");
        match tv::poll_with(W0, unsafe { Pin::new_unchecked(&mut *fut) }) {
            Poll::Ready(Some(m)) => {
                assert!(is_msg(&m, &n), "C10: the control that arrived while waiting was not returned");
                std::mem::forget(m);
            }
            _ => panic!("C10: recv still pending after a control arrived"),
        }
    }
    kani::cover!(true, "scenario ran to its end");
    std::mem::forget((rx, tx, st, n));
}

/// No timer, nothing queued: Pending; then a normal AND an urgent message arrive before the
/// waiter runs again: the urgent one must be returned first - whatever branch the re-poll of the
/// parked `select!` starts with (k = 0, 1, 2: all three explored).
#[kani::proof]
#[kani::unwind(8)]
pub fn recv_urgent_first_after_wait() {
    crate::split!(3, |k| {
        tv::set_select_start(0);
        let (tx, mut rx) = priority_new();
        let mut st: Option<Timer> = None;
        let (a, b);
        {
            let mut fut = ManuallyDrop::new(rx.recv(&mut st));
            let r = tv::poll_with(W0, unsafe { Pin::new_unchecked(&mut *fut) });
            assert!(r.is_pending(), "C10: recv returned with nothing queued");
            std::mem::forget(r);
            a = send(&tx, Priority::Normal);
            b = send(&tx, Priority::Urgent);
            tv::set_select_start(k);
            match tv::poll_with(W0, unsafe { Pin::new_unchecked(&mut *fut) }) {
                Poll::Ready(Some(m)) => {
                    assert!(is_msg(&m, &b), "C10: pending urgent control not returned before the pending normal one (both arrived while recv was waiting)");
                    std::mem::forget(m);
                }
                _ => panic!("C10: recv still pending after controls arrived"),
            }
        }
        kani::cover!(k == 2, "scenario ran to its end");
        std::mem::forget((rx, tx, st, a, b));
        kani::assume(false);
    });
}

/// The same with a normal and a high control arriving while `recv` is parked: high first.
#[kani::proof]
#[kani::unwind(8)]
pub fn recv_high_first_after_wait() {
    crate::split!(3, |k| {
        tv::set_select_start(0);
        let (tx, mut rx) = priority_new();
        let mut st: Option<Timer> = None;
        let (a, b);
        {
            let mut fut = ManuallyDrop::new(rx.recv(&mut st));
            let r = tv::poll_with(W0, unsafe { Pin::new_unchecked(&mut *fut) });
            assert!(r.is_pending(), "C10: recv returned with nothing queued");
            std::mem::forget(r);
            a = send(&tx, Priority::Normal);
            b = send(&tx, Priority::High);
            tv::set_select_start(k);
            match tv::poll_with(W0, unsafe { Pin::new_unchecked(&mut *fut) }) {
                Poll::Ready(Some(m)) => {
                    assert!(is_msg(&m, &b), "C10: pending high control not returned before the pending normal one (both arrived while recv was waiting)");
                    std::mem::forget(m);
                }
                _ => panic!("C10: recv still pending after controls arrived"),
            }
        }
        kani::cover!(k == 2, "scenario ran to its end");
        std::mem::forget((rx, tx, st, a, b));
        kani::assume(false);
    });
}

/// Armed timer, `recv` parked; a high and an urgent control arrive before the re-poll: urgent first,
/// the timer flag untouched.
fn recv_armed_timer_urgent_first_after_wait_body(is_restart: bool) {
    crate::split!(3, |k| {
        tv::set_select_start(0);
        let (tx, mut rx) = priority_new();
        let flag = Flag::default();
        let (mut st, _until) = armed_future_timer(&flag, is_restart);
        let (a, b);
        {
            let mut fut = ManuallyDrop::new(rx.recv(&mut st));
            let r = tv::poll_with(W0, unsafe { Pin::new_unchecked(&mut *fut) });
            assert!(r.is_pending(), "C10: recv returned with nothing queued");
            std::mem::forget(r);
            a = send(&tx, Priority::High);
            b = send(&tx, Priority::Urgent);
            tv::set_select_start(k);
            match tv::poll_with(W0, unsafe { Pin::new_unchecked(&mut *fut) }) {
                Poll::Ready(Some(m)) => {
                    assert!(is_msg(&m, &b), "C10: pending urgent control not returned before the pending high one while the timer is armed (both arrived while recv was waiting)");
                    std::mem::forget(m);
                }
                _ => panic!("C10: recv still pending after controls arrived"),
            }
        }
        assert!(!flag.raised(), "C06: timer flag raised by recv");
        kani::cover!(k == 2, "scenario ran to its end");
        std::mem::forget((rx, tx, st, a, b, flag));
        kani::assume(false);
    });
}

// ------------------------------------------------------------------ timer-kind split
// `is_restart` must be a constant on each path: `Option<Timer>` keeps its discriminant in the
// niche of that bool, a symbolic value makes every `stop_timer` test in `recv` symbolic
// (measured: 3.3M symex steps and no result in 200 s, against ~80k steps / 10 s).
macro_rules! both_timer_kinds {
    ($name:ident, $body:ident) => {
        #[kani::proof]
        #[kani::unwind(8)]
        pub fn $name() {
            crate::split!(2, |r| {
                $body(r == 1);
                kani::assume(false);
            });
        }
    };
}
both_timer_kinds!(recv_armed_timer_holds_back_normal, recv_armed_timer_holds_back_normal_body);
both_timer_kinds!(recv_armed_timer_urgent_passes, recv_armed_timer_urgent_passes_body);
both_timer_kinds!(recv_armed_timer_high_passes, recv_armed_timer_high_passes_body);
both_timer_kinds!(recv_timer_fires_while_pending, recv_timer_fires_while_pending_body);
both_timer_kinds!(recv_timer_fires_then_new_recv, recv_timer_fires_then_new_recv_body);
both_timer_kinds!(recv_armed_timer_urgent_first_after_wait, recv_armed_timer_urgent_first_after_wait_body);
