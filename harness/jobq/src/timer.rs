//! Family 2 — the grace timer (`Timer::{stop, restart}`, `is_past`, `to_control`, `to_sleep`) on
//! the model's virtual clock.
//!
//! C06: the deadline is exactly `now + grace`; `is_past()` is false at every instant before the
//! deadline and true from the deadline on (so the forced control is never produced early and is
//! due exactly at expiry); the forced control is `Stop` for a graceful stop and
//! `ContinueTryGracefulRestart` for a graceful try-restart, and it carries the ORIGINAL done flag
//! (the one the `GracefulStop` / `TryGracefulRestart` ticket waits on).
use std::time::Duration;

use tokio::time::Instant;
use tokio::verif as tv;
use watchexec_supervisor::job::Control;
use watchexec_supervisor::verif::{ControlMessage, Flag, Timer};

use crate::split;

/// Bounds: t0 < 2^62 ns and grace < 2^32 s (+ any nanosecond part), so `t0 + grace` is below
/// 2^63 ns and neither the model's `Instant` (u64 ns, saturating) nor tokio's (panicking) can
/// overflow: inside these bounds both agree.
///
/// `secs_choice` 0..=3: the seconds part of the grace period is one of four constants and the
/// expected deadline is computed by the harness in plain u64 arithmetic (independent of the
/// model's `Instant + Duration`); 4: any u32 number of seconds, the expected deadline is the
/// model's `Instant::from_ns(t0) + grace` (proving a 128-bit and a 64-bit multiplier equivalent
/// is out of reach for SAT: > 10 min at 340k variables, measured). Nanoseconds and t0 are
/// symbolic in every case.
fn timer_scenario(is_restart: bool, secs_choice: usize) {
    let t0: u64 = kani::any();
    kani::assume(t0 < (1u64 << 62));
    tv::advance_to(t0);
    let nanos: u32 = kani::any();
    kani::assume(nanos < 1_000_000_000);
    let (grace, deadline) = match secs_choice {
        4 => {
            let secs: u32 = kani::any();
            let grace = Duration::new(secs as u64, nanos);
            (grace, (Instant::from_ns(t0) + grace).as_ns())
        }
        k => {
            let secs: u64 = [0, 1, 3600, u32::MAX as u64][k];
            (Duration::new(secs, nanos), t0 + secs * 1_000_000_000 + nanos as u64)
        }
    };
    let grace_ns = deadline - t0;

    let flag = Flag::default();
    let timer = if is_restart { Timer::restart(grace, flag.clone()) } else { Timer::stop(grace, flag.clone()) };

    assert!(timer.until == Instant::from_ns(deadline), "C06: timer deadline is not now + grace");
    assert!(timer.is_restart == is_restart, "C06: timer kind (stop / restart) wrong");
    assert!(timer.verif_to_sleep().deadline() == Instant::from_ns(deadline), "C06: timer sleep does not end at the deadline");
    assert!(timer.verif_is_past() == (grace_ns == 0), "C06: fresh timer past although grace has not elapsed (or not past with zero grace)");

    // any later instant
    let t1: u64 = kani::any();
    kani::assume(t1 >= t0 && t1 < (1u64 << 63));
    tv::advance_to(t1);
    let past = timer.verif_is_past();
    if t1 < deadline {
        assert!(!past, "C06: grace timer reported expired before the grace period has elapsed");
    } else {
        assert!(past, "C06: grace timer not expired although the grace period has elapsed");
    }
    kani::cover!(t1 + 1 == deadline, "one nanosecond before the deadline");
    kani::cover!(t1 == deadline && grace_ns > 0, "exactly at the deadline");
    kani::cover!(t1 > deadline, "after the deadline");
    kani::cover!(grace_ns == 0, "zero grace");

    // the forced control
    let ControlMessage { control, done } = timer.verif_to_control();
    if is_restart {
        assert!(matches!(control, Control::ContinueTryGracefulRestart), "C06: expired restart timer must yield ContinueTryGracefulRestart");
    } else {
        assert!(matches!(control, Control::Stop), "C06: expired stop timer must yield the forced Stop");
    }
    assert!(!flag.raised() && !done.raised(), "C06: forced control's flag raised before the control ran");
    done.raise();
    assert!(flag.raised(), "C06: forced control does not carry the original done flag");
    std::mem::forget((control, done, timer, flag));
}

/// Four constant second counts x symbolic nanoseconds, expected deadline in harness arithmetic.
#[kani::proof]
#[kani::unwind(8)]
pub fn timer_deadline_and_forced_control() {
    split!(2, |r| {
        split!(4, |k| {
            timer_scenario(r == 1, k);
            kani::assume(false);
        })
    });
}

/// Any u32 second count, expected deadline from the model's `Instant + Duration`.
#[kani::proof]
#[kani::unwind(8)]
pub fn timer_any_grace() {
    split!(2, |r| {
        timer_scenario(r == 1, 4);
        kani::assume(false);
    });
}
