//! Family 1 — the synchronous public `Job` API against the control queue it feeds.
//!
//! A `Job` handle is built from its parts (`verif::job_from_parts`) so that the harness keeps the
//! `PriorityReceiver`. Every public `Ticket`-returning method is called (path-split: one method,
//! or an ordered pair of methods) with a symbolic signal and grace period; the three queues are
//! then drained with `try_recv` and compared with the documented expansion:
//!
//! * C10: `delete_now` -> urgent queue, `to_wait` -> high queue, everything else -> normal queue;
//!   multi-control operations are enqueued back to back in order; two calls on one queue stay in
//!   call order; nothing appears on another queue.
//! * C06: `restart_with_signal` = [GracefulStop{signal, grace}, Start] on the normal queue (and the
//!   other `*_with_signal` methods carry exactly the given signal and grace period).
//! * C07: the returned ticket is pending until the done flag of the LAST enqueued control of that
//!   call is raised (an earlier one's is not enough, another call's neither), or the job's gone
//!   flag is raised; a dead job enqueues nothing and returns a resolved ticket.
use std::pin::Pin;
use std::time::Duration;

use tokio::sync::mpsc::error::TryRecvError;
use tokio::verif as tv;
use watchexec_supervisor::job::{Control, Job, Ticket};
use watchexec_supervisor::verif::{job_from_parts, priority_new, ControlMessage, Flag, PriorityReceiver};
use watchexec_supervisor::Signal;

use crate::common::*;
use crate::split;

pub const N_METHODS: usize = 20;
const QN: usize = 0;
const QH: usize = 1;
const QU: usize = 2;

fn call(job: &Job, m: usize, sig: Signal, grace: Duration) -> Ticket {
    match m {
        0 => job.control(Control::NextEnding),
        1 => job.start(),
        2 => job.stop(),
        3 => job.stop_with_signal(sig, grace),
        4 => job.restart(),
        5 => job.restart_with_signal(sig, grace),
        6 => job.try_restart(),
        7 => job.try_restart_with_signal(sig, grace),
        8 => job.signal(sig),
        9 => job.delete(),
        10 => job.delete_now(),
        11 => job.to_wait(),
        12 => job.run(|_| {}),
        13 => job.run_async(|_| Box::new(async {})),
        14 => job.set_spawn_hook(|_, _| {}),
        15 => job.set_spawn_async_hook(|_, _| Box::new(async {})),
        16 => job.unset_spawn_hook(),
        17 => job.set_error_handler(|_| {}),
        18 => job.set_async_error_handler(|_| Box::new(async {})),
        _ => job.unset_error_handler(),
    }
}

/// Documented expansion of method `m`: (queue, number of controls, their shapes).
fn expansion(m: usize) -> (usize, usize, [K; 2]) {
    match m {
        0 => (QN, 1, [K::NextEnding, K::Start]),
        1 => (QN, 1, [K::Start, K::Start]),
        2 => (QN, 1, [K::Stop, K::Start]),
        3 => (QN, 1, [K::GracefulStop, K::Start]),
        4 => (QN, 2, [K::Stop, K::Start]),
        5 => (QN, 2, [K::GracefulStop, K::Start]),
        6 => (QN, 1, [K::TryRestart, K::Start]),
        7 => (QN, 1, [K::TryGracefulRestart, K::Start]),
        8 => (QN, 1, [K::Signal, K::Start]),
        9 => (QN, 2, [K::Stop, K::Delete]),
        10 => (QU, 2, [K::Stop, K::Delete]),
        11 => (QH, 1, [K::NextEnding, K::Start]),
        12 => (QN, 1, [K::SyncFunc, K::Start]),
        13 => (QN, 1, [K::AsyncFunc, K::Start]),
        14 => (QN, 1, [K::SetSyncSpawnHook, K::Start]),
        15 => (QN, 1, [K::SetAsyncSpawnHook, K::Start]),
        16 => (QN, 1, [K::UnsetSpawnHook, K::Start]),
        17 => (QN, 1, [K::SetSyncErrorHandler, K::Start]),
        18 => (QN, 1, [K::SetAsyncErrorHandler, K::Start]),
        _ => (QN, 1, [K::UnsetErrorHandler, K::Start]),
    }
}

fn try_recv_q(rx: &mut PriorityReceiver, q: usize) -> Result<ControlMessage, TryRecvError> {
    match q {
        QN => rx.normal.try_recv(),
        QH => rx.high.try_recv(),
        _ => rx.urgent.try_recv(),
    }
}

fn poll_ticket(t: &mut Ticket, id: usize) -> bool {
    tv::poll_with(id, Pin::new(t)).is_ready()
}

/// How the tickets get resolved at the end of a live scenario.
#[derive(Clone, Copy, PartialEq, Eq)]
pub enum End {
    /// the controls complete in call order
    InOrder,
    /// the controls of the later call complete first (only different for two calls)
    Reverse,
    /// the job task ends
    Gone,
}

/// Everything the scenarios share; built once, BEFORE the path split (the paths then only differ
/// in what they do with it).
pub struct Ctx {
    rx: PriorityReceiver,
    gone: Flag,
    job: Job,
    sigs: [Signal; 2],
    graces: [Duration; 2],
}

fn setup() -> Ctx {
    let (tx, rx) = priority_new();
    let gone = Flag::default();
    let job = job_from_parts(command(), tx, gone.clone());
    Ctx { rx, gone, job, sigs: [any_signal(), any_signal()], graces: [any_duration(), any_duration()] }
}

/// `ms[..n]` are the methods called, in order (n = 1 or 2).
fn scenario(cx: &mut Ctx, n: usize, ms: [usize; 2], dead: bool, end: End) {
    let Ctx { rx, gone, job, sigs, graces } = cx;
    let (sigs, graces) = (*sigs, *graces);
    if dead {
        gone.raise();
    }
    assert!(job.is_dead() == dead, "C07: is_dead does not report the gone flag");

    // ---- the calls
    let mut t0 = call(job, ms[0], sigs[0], graces[0]);
    let mut t1 = if n == 2 { Some(call(job, ms[1], sigs[1], graces[1])) } else { None };

    // ---- what the documentation says is now queued: per queue the (shape, call) list in order
    let mut exp_len = [0usize; 3];
    let mut exp_k = [[K::Start; 4]; 3];
    let mut exp_call = [[0usize; 4]; 3];
    // per call: queue and index (in that queue) of its last control, and of its first one
    let mut last_of = [(0usize, 0usize); 2];
    let mut first_of = [(0usize, 0usize); 2];
    let mut count_of = [0usize; 2];
    if !dead {
        let mut c = 0;
        while c < n {
            let (q, cnt, ks) = expansion(ms[c]);
            first_of[c] = (q, exp_len[q]);
            let mut j = 0;
            while j < cnt {
                exp_k[q][exp_len[q]] = ks[j];
                exp_call[q][exp_len[q]] = c;
                last_of[c] = (q, exp_len[q]);
                exp_len[q] += 1;
                j += 1;
            }
            count_of[c] = cnt;
            c += 1;
        }
    }

    // ---- tickets of a live job are pending, of a dead job resolved. In the live two-call scenarios
    // the tickets are not polled here (each `Ticket::poll` is ~18k symex steps); their pending
    // state is asserted below, right before the event that resolves them.
    let registered = n == 1 || dead;
    if registered {
        let r0 = poll_ticket(&mut t0, W0);
        assert!(r0 == dead, "C07: ticket state right after the call (pending for a live job, resolved for a dead one)");
        if let Some(t) = t1.as_mut() {
            let r1 = poll_ticket(t, W0 + 1);
            assert!(r1 == dead, "C07: second ticket state right after the call (pending for a live job, resolved for a dead one)");
        }
    }

    // ---- drain the three queues and compare
    let mut dones: [[Option<Flag>; 4]; 3] = [const { [const { None }; 4] }; 3];
    let mut q = 0;
    while q < 3 {
        let mut i = 0;
        while i < 4 {
            let got = try_recv_q(rx, q);
            if i < exp_len[q] {
                match got {
                    Ok(ControlMessage { control, done }) => {
                        let c = exp_call[q][i];
                        assert!(
                            control_is(&control, exp_k[q][i], sigs[c], graces[c]),
                            "C10: queued control differs from the documented expansion (variant, order or payload)"
                        );
                        assert!(!done.raised(), "C07: done flag of a queued control already raised");
                        dones[q][i] = Some(done);
                        std::mem::forget(control);
                    }
                    Err(_) => panic!("C10: a documented control is missing from its priority queue"),
                }
            } else {
                match got {
                    Ok(m) => {
                        std::mem::forget(m);
                        panic!("C10: unexpected control on a priority queue (wrong priority, duplicate, or sent by a dead job)");
                    }
                    Err(e) => assert!(e == TryRecvError::Empty, "C10: control queue reported closed while the job handle is alive"),
                }
            }
            i += 1;
        }
        q += 1;
    }
    kani::cover!(exp_len[QN] == 4, "four controls on the normal queue");
    kani::cover!(exp_len[QU] == 2 && exp_len[QN] > 0, "urgent and normal queues both used");
    kani::cover!(exp_len[QH] == 1, "high queue used");
    kani::cover!(dead, "dead job");

    // ---- resolution
    if !dead {
        match end {
            End::Gone => {
                if n == 2 {
                    assert!(!poll_ticket(&mut t0, W0), "C07: ticket of a live job resolved before anything completed");
                    assert!(!poll_ticket(t1.as_mut().unwrap(), W0 + 1), "C07: second ticket of a live job resolved before anything completed");
                }
                gone.raise();
                assert!(tv::woken(W0), "C07: ticket waiter not woken when the job ended");
                assert!(poll_ticket(&mut t0, W0), "C07: ticket pending after the job ended");
                if let Some(t) = t1.as_mut() {
                    assert!(tv::woken(W0 + 1), "C07: second ticket waiter not woken when the job ended");
                    assert!(poll_ticket(t, W0 + 1), "C07: second ticket pending after the job ended");
                }
            }
            _ => {
                let mut step = 0;
                while step < n {
                    let c = if end == End::Reverse { n - 1 - step } else { step };
                    // an earlier control of the same call does not resolve the ticket
                    if count_of[c] == 2 {
                        let (fq, fi) = first_of[c];
                        dones[fq][fi].as_ref().unwrap().raise();
                        if n == 1 || step == 1 {
                            let still = if c == 0 { poll_ticket(&mut t0, W0) } else { poll_ticket(t1.as_mut().unwrap(), W0 + 1) };
                            assert!(!still, "C07: multi-control ticket resolved by a control that is not the last one");
                        }
                    }
                    let (lq, li) = last_of[c];
                    dones[lq][li].as_ref().unwrap().raise();
                    if registered || step == 1 {
                        assert!(tv::woken(W0 + c), "C07: ticket waiter not woken when its (last) control completed");
                    }
                    let now = if c == 0 { poll_ticket(&mut t0, W0) } else { poll_ticket(t1.as_mut().unwrap(), W0 + 1) };
                    assert!(now, "C07: ticket still pending after its (last) control completed");
                    // the other call's ticket is unaffected until its own turn
                    if n == 2 && step == 0 {
                        let other = if c == 0 { poll_ticket(t1.as_mut().unwrap(), W0 + 1) } else { poll_ticket(&mut t0, W0) };
                        assert!(!other, "C07: ticket resolved by the completion of another call's control");
                    }
                    step += 1;
                }
            }
        }
    }
    kani::cover!(true, "scenario ran to its end");
    std::mem::forget((t0, t1, dones));
}

// ------------------------------------------------------------------ one call

/// Methods `lo..hi`, one call each.
fn one_call(lo: usize, hi: usize, dead: bool, end: End) {
    let mut cx = setup();
    split!(hi - lo, |m| {
        scenario(&mut cx, 1, [lo + m, 0], dead, end);
        kani::assume(false);
    });
}

macro_rules! one_call_harness {
    ($name:ident, $lo:expr, $hi:expr, $dead:expr, $end:expr) => {
        #[kani::proof]
        #[kani::unwind(12)]
        pub fn $name() {
            one_call($lo, $hi, $dead, $end);
        }
    };
}
// live job, the controls complete (methods 0..10: control .. delete; 10..20: delete_now .. unset_error_handler)
one_call_harness!(api_one_call_done_a, 0, 10, false, End::InOrder);
one_call_harness!(api_one_call_done_b, 10, N_METHODS, false, End::InOrder);
// live job, the job ends instead
one_call_harness!(api_one_call_gone_a, 0, 10, false, End::Gone);
one_call_harness!(api_one_call_gone_b, 10, N_METHODS, false, End::Gone);
// dead job
one_call_harness!(api_one_call_dead_a, 0, 10, true, End::InOrder);
one_call_harness!(api_one_call_dead_b, 10, N_METHODS, true, End::InOrder);

// ------------------------------------------------------------------ two calls

/// One representative per (queue, number of controls) class, with payload where there is one:
/// stop_with_signal (normal, 1), restart_with_signal (normal, 2), to_wait (high, 1),
/// delete_now (urgent, 2), run (normal, 1, closure payload).
const REPS: [usize; 5] = [3, 5, 11, 10, 12];

/// Ordered pairs of representatives `REPS[lo..hi] x REPS`.
fn two_calls(lo: usize, hi: usize, dead: bool, end: End) {
    let mut cx = setup();
    split!(hi - lo, |a| {
        split!(REPS.len(), |b| {
            scenario(&mut cx, 2, [REPS[lo + a], REPS[b]], dead, end);
            kani::assume(false);
        })
    });
}

macro_rules! two_call_harness {
    ($name:ident, $lo:expr, $hi:expr, $dead:expr, $end:expr) => {
        #[kani::proof]
        #[kani::unwind(12)]
        pub fn $name() {
            two_calls($lo, $hi, $dead, $end);
        }
    };
}
// one harness per first call (5 second calls each) and resolution order
two_call_harness!(api_two_calls_in_order_0, 0, 1, false, End::InOrder);
two_call_harness!(api_two_calls_in_order_1, 1, 2, false, End::InOrder);
two_call_harness!(api_two_calls_in_order_2, 2, 3, false, End::InOrder);
two_call_harness!(api_two_calls_in_order_3, 3, 4, false, End::InOrder);
two_call_harness!(api_two_calls_in_order_4, 4, 5, false, End::InOrder);
two_call_harness!(api_two_calls_reverse_0, 0, 1, false, End::Reverse);
two_call_harness!(api_two_calls_reverse_1, 1, 2, false, End::Reverse);
two_call_harness!(api_two_calls_reverse_2, 2, 3, false, End::Reverse);
two_call_harness!(api_two_calls_reverse_3, 3, 4, false, End::Reverse);
two_call_harness!(api_two_calls_reverse_4, 4, 5, false, End::Reverse);
two_call_harness!(api_two_calls_gone_a, 0, 2, false, End::Gone);
two_call_harness!(api_two_calls_gone_b, 2, 5, false, End::Gone);
two_call_harness!(api_two_calls_dead, 0, 5, true, End::InOrder);
