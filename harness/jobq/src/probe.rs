//! temporary cost probes
use std::pin::Pin;
use std::time::Duration;
use tokio::verif as tv;
use watchexec_supervisor::job::{Control, Job, Ticket};
use watchexec_supervisor::verif::{job_from_parts, priority_new, ControlMessage, Flag, PriorityReceiver};
use crate::common::*;

#[kani::proof]
#[kani::unwind(8)]
pub fn p_a_call_only() {
    let (tx, rx) = priority_new();
    let gone = Flag::default();
    let job = job_from_parts(command(), tx, gone.clone());
    let t = job.start();
    std::mem::forget((t, rx, job, gone));
}

#[kani::proof]
#[kani::unwind(8)]
pub fn p_b_call_drain() {
    let (tx, mut rx) = priority_new();
    let gone = Flag::default();
    let job = job_from_parts(command(), tx, gone.clone());
    let t = job.start();
    match rx.normal.try_recv() {
        Ok(ControlMessage { control, done }) => {
            assert!(matches!(control, Control::Start), "C10: x");
            std::mem::forget((control, done));
        }
        Err(_) => panic!("C10: missing"),
    }
    std::mem::forget((t, rx, job, gone));
}

#[kani::proof]
#[kani::unwind(8)]
pub fn p_c_call_drain_ticket() {
    let (tx, mut rx) = priority_new();
    let gone = Flag::default();
    let job = job_from_parts(command(), tx, gone.clone());
    let mut t = job.start();
    assert!(tv::poll_with(W0, Pin::new(&mut t)).is_pending(), "C07: a");
    match rx.normal.try_recv() {
        Ok(ControlMessage { control, done }) => {
            assert!(matches!(control, Control::Start), "C10: x");
            done.raise();
            std::mem::forget((control, done));
        }
        Err(_) => panic!("C10: missing"),
    }
    assert!(tv::poll_with(W0, Pin::new(&mut t)).is_ready(), "C07: b");
    std::mem::forget((t, rx, job, gone));
}

#[kani::proof]
#[kani::unwind(8)]
pub fn p_d_no_command() {
    let (tx, rx) = priority_new();
    let gone = Flag::default();
    std::mem::forget((tx, rx, gone));
}

#[kani::proof]
#[kani::unwind(8)]
pub fn p_e_job_only() {
    let (tx, rx) = priority_new();
    let gone = Flag::default();
    let job = job_from_parts(command(), tx, gone.clone());
    std::mem::forget((rx, job, gone));
}

#[kani::proof]
#[kani::unwind(8)]
pub fn p_f_send_direct() {
    use watchexec_supervisor::verif::Priority;
    let (tx, rx) = priority_new();
    let done = Flag::default();
    tx.send(ControlMessage { control: Control::Start, done: done.clone() }, Priority::Normal);
    std::mem::forget((rx, tx, done));
}
