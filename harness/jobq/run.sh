#!/bin/bash
# usage: [PLAY=1] run.sh <module::harness> [timeout_s]
# PLAY=1: exactly the driver's flags (with concrete playback); default: verify-only (no --trace output)
h="$1"; to="${2:-900}"
name="${h##*::}"
if [ -n "$PLAY" ]; then pf="-Z concrete-playback --concrete-playback=print"; suf="-play"; else pf=""; suf=""; fi
cd /verif/harness/jobq && cp /repo/Cargo.lock . && \
( ulimit -v 12000000; CARGO_NET_OFFLINE=true /usr/bin/time -v timeout "$to" cargo kani --harness "$h" --exact -Z stubbing \
  $pf -Z unstable-options --target-dir /verif/.target/jobq \
  --cbmc-args --max-field-sensitivity-array-size 1024 ) > /tmp/jobq-$name$suf.log 2>&1
echo "== $h exit=$? $suf"
grep -E "VERIFICATION:|Runtime Symex|variables, .* clauses|failed|Status: (ERROR|FAILURE|UNSATISFIED|SATISFIED)|Elapsed \(wall|Maximum resident|Verification Time|size of program expression" /tmp/jobq-$name$suf.log | sed 's/^[0-9]* variables/N variables/' | sort | uniq -c | sort -rn | head -${LINES_MAX:-14}
grep -E "^[0-9]+ variables" /tmp/jobq-$name$suf.log | tail -1
