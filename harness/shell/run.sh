#!/bin/bash
# usage: run.sh <module::harness> [timeout-secs] [field-sens-size] [extra cbmc args...]
# Same flags as the driver; log goes to /tmp/shell-<name>.log
h=$1; t=${2:-900}; fs=${3:-1024}; shift; shift; shift
cd ${HDIR:-/verif/harness/shell} && cp ${REPO:-/repo}/Cargo.lock .
# PB=1: with the concrete-playback flags (slow: one trace per reachable check); default verify-only
PBFLAGS=""; [ "$PB" = "1" ] && PBFLAGS="-Z concrete-playback --concrete-playback=print"
TAG=${TAG:-shell}
n=${h##*::}
( ulimit -v 12000000; /usr/bin/time -v env CARGO_NET_OFFLINE=true timeout $t cargo kani --harness $h --exact -Z stubbing -Z unstable-options \
  $PBFLAGS --target-dir ${TD:-/verif/.target/shell} \
  --cbmc-args --max-field-sensitivity-array-size $fs "$@" ) > /tmp/$TAG-$n.log 2>&1
grep -E "VERIFICATION|Runtime Symex|Runtime Solver|variables|of .* failed|Status: ERROR|^error|unwinding|Elapsed|Maximum resident|SATISFIED|UNSAT|UNREACH|Failed Checks|size of program|Verification Time" /tmp/$TAG-$n.log | grep -v "Status: \|variables, \|Runtime Solver" | head -30
grep -E "variables, " /tmp/$TAG-$n.log | tail -1; grep -c "Not unwinding" /tmp/$TAG-$n.log | sed 's/^/not-unwinding lines: /' 
