//! Probes: one concrete Program::Shell scenario under different constructions.
use std::borrow::Cow;
use std::ffi::OsStr;
use std::os::unix::ffi::OsStrExt;
use std::path::PathBuf;

use watchexec_supervisor::command::{Command, Program, Shell, SpawnOptions};

fn bytes_eq(a: &OsStr, b: &[u8]) -> bool {
    let a = a.as_bytes();
    if a.len() != b.len() {
        return false;
    }
    let mut i = 0;
    while i < b.len() {
        if a[i] != b[i] {
            return false;
        }
        i += 1;
    }
    true
}

/// (a) everything concrete, on the stack.
#[kani::proof]
#[kani::unwind(4)]
pub fn probe_a() {
    let mut options = Vec::with_capacity(1);
    options.push(String::from("-e"));
    let mut args = Vec::with_capacity(1);
    args.push(String::from("x"));
    let cmd = Command {
        program: Program::Shell {
            shell: Shell { prog: PathBuf::from("sh"), options, program_option: Some(Cow::Borrowed(OsStr::new("-c"))) },
            command: String::from("ab"),
            args,
        },
        options: SpawnOptions { grouped: false, session: false, reset_sigmask: false },
    };
    let sp = cmd.to_spawnable();
    let c = sp.command();
    assert!(bytes_eq(&c.verif_program, b"sh"), "C18: shell program altered");
    assert!(c.verif_args.len() == 4, "C18: shell argv length wrong");
    assert!(bytes_eq(&c.verif_args[0], b"-e"), "C18: shell option altered or misplaced");
    assert!(bytes_eq(&c.verif_args[1], b"-c"), "C18: program option altered or misplaced");
    assert!(bytes_eq(&c.verif_args[2], b"ab"), "C18: command string altered or misplaced");
    assert!(bytes_eq(&c.verif_args[3], b"x"), "C18: extra argument altered or misplaced");
    std::mem::forget(sp);
    std::mem::forget(cmd);
}

fn build_a() -> Command {
    let mut options = Vec::with_capacity(1);
    options.push(String::from("-e"));
    let mut args = Vec::with_capacity(1);
    args.push(String::from("x"));
    Command {
        program: Program::Shell {
            shell: Shell { prog: PathBuf::from("sh"), options, program_option: Some(Cow::Borrowed(OsStr::new("-c"))) },
            command: String::from("ab"),
            args,
        },
        options: SpawnOptions { grouped: false, session: false, reset_sigmask: false },
    }
}

/// micro: which fields read back as constants?
#[kani::proof]
#[kani::unwind(4)]
pub fn probe_m1() {
    let cmd = build_a();
    match &cmd.program {
        Program::Shell { shell, args, command } => {
            assert!(args.len() == 1, "M1 args len");
            assert!(command.len() == 2, "M1 command len");
            assert!(shell.options.len() == 1, "M1 options len");
            assert!(shell.prog.as_os_str().len() == 2, "M1 prog len");
            assert!(shell.program_option.is_some(), "M1 progopt some");
        }
        _ => assert!(false, "M1 discriminant"),
    }
    std::mem::forget(cmd);
}

fn check_m(cmd: &Command) {
    match &cmd.program {
        Program::Shell { shell, args, command } => {
            assert!(args.len() == 1, "M args len");
            assert!(command.len() == 2, "M command len");
            assert!(shell.options.len() == 1, "M options len");
            assert!(shell.prog.as_os_str().len() == 2, "M prog len");
            assert!(shell.program_option.is_some(), "M progopt some");
        }
        _ => assert!(false, "M discriminant"),
    }
}

/// E2: construct with placeholders, then overwrite the `shell` fields through &mut.
#[kani::proof]
#[kani::unwind(4)]
pub fn probe_m2() {
    let mut cmd = build_a();
    let mut options = Vec::with_capacity(1);
    options.push(String::from("-e"));
    if let Program::Shell { shell, .. } = &mut cmd.program {
        unsafe {
            std::ptr::write(&mut shell.prog, PathBuf::from("sh"));
            std::ptr::write(&mut shell.options, options);
            std::ptr::write(&mut shell.program_option, Some(Cow::Borrowed(OsStr::new("-c"))));
        }
    }
    check_m(&cmd);
    std::mem::forget(cmd);
}

/// E3: construct, then rewrite the first word (the niche: capacity of shell.prog) with its known value.
#[kani::proof]
#[kani::unwind(4)]
pub fn probe_m3() {
    let mut cmd = build_a();
    let p = &mut cmd.program as *mut Program as *mut usize;
    unsafe {
        assert!(*p == 2, "M niche word is the capacity");
        *p = 2;
    }
    check_m(&cmd);
    std::mem::forget(cmd);
}

/// E4: word-wise copy of the whole Program through usize pointers.
#[kani::proof]
#[kani::unwind(20)]
pub fn probe_m4() {
    let cmd0 = build_a();
    let mut cmd = std::mem::MaybeUninit::<Command>::uninit();
    let s = &cmd0 as *const Command as *const usize;
    let d = cmd.as_mut_ptr() as *mut usize;
    let mut i = 0;
    while i < std::mem::size_of::<Command>() / 8 {
        unsafe { *d.add(i) = *s.add(i) };
        i += 1;
    }
    let cmd = unsafe { cmd.assume_init() };
    check_m(&cmd);
    std::mem::forget(cmd);
    std::mem::forget(cmd0);
}

/// Build the command with an empty placeholder shell, then memcpy the real `Shell` (a plain struct,
/// built outside of any enum) over the placeholder.
fn build_via_memcpy(shell_src: Shell, command: String, args: Vec<String>, options: SpawnOptions) -> Command {
    let mut cmd = Command {
        program: Program::Shell {
            shell: Shell { prog: PathBuf::new(), options: Vec::new(), program_option: None },
            command,
            args,
        },
        options,
    };
    let Program::Shell { shell, .. } = &mut cmd.program else { unreachable!("C18: harness built a non-shell program") };
    unsafe { std::ptr::copy_nonoverlapping(&shell_src as *const Shell, shell as *mut Shell, 1) };
    std::mem::forget(shell_src);
    cmd
}

#[kani::proof]
#[kani::unwind(4)]
pub fn probe_m6() {
    let mut options = Vec::with_capacity(1);
    options.push(String::from("-e"));
    let mut args = Vec::with_capacity(1);
    args.push(String::from("x"));
    let shell = Shell { prog: PathBuf::from("sh"), options, program_option: Some(Cow::Borrowed(OsStr::new("-c"))) };
    let cmd = build_via_memcpy(shell, String::from("ab"), args, SpawnOptions { grouped: false, session: false, reset_sigmask: false });
    check_m(&cmd);
    std::mem::forget(cmd);
}

#[kani::proof]
#[kani::unwind(4)]
pub fn probe_m7() {
    let mut options = Vec::with_capacity(1);
    options.push(String::from("-e"));
    let mut args = Vec::with_capacity(1);
    args.push(String::from("x"));
    let shell = Shell { prog: PathBuf::from("sh"), options, program_option: Some(Cow::Owned(std::ffi::OsString::from("-c"))) };
    let cmd = build_via_memcpy(shell, String::from("ab"), args, SpawnOptions { grouped: false, session: false, reset_sigmask: false });
    check_m(&cmd);
    if let Program::Shell { shell, .. } = &cmd.program {
        if let Some(Cow::Owned(o)) = &shell.program_option {
            assert!(o.len() == 2, "M owned progopt len");
        } else {
            assert!(false, "M owned progopt variant");
        }
    }
    std::mem::forget(cmd);
}

unsafe fn copy_bytes<T>(src: *const T, dst: *mut T) {
    std::ptr::copy_nonoverlapping(src, dst, 1);
}
unsafe fn copy_words<T>(src: *const T, dst: *mut T) {
    let n = std::mem::size_of::<T>() / std::mem::size_of::<usize>();
    let (s, d) = (src as *const usize, dst as *mut usize);
    let mut i = 0;
    while i < n {
        *d.add(i) = *s.add(i);
        i += 1;
    }
}

fn build2(shell_src: Shell, po_words: bool, command: String, args: Vec<String>, options: SpawnOptions) -> Command {
    let mut cmd = Command {
        program: Program::Shell {
            shell: Shell { prog: PathBuf::new(), options: Vec::new(), program_option: None },
            command,
            args,
        },
        options,
    };
    let Program::Shell { shell, .. } = &mut cmd.program else { unreachable!("C18: harness built a non-shell program") };
    unsafe {
        copy_bytes(&shell_src.prog, &mut shell.prog);
        copy_bytes(&shell_src.options, &mut shell.options);
        if po_words {
            copy_words(&shell_src.program_option, &mut shell.program_option);
        } else {
            copy_bytes(&shell_src.program_option, &mut shell.program_option);
        }
    }
    std::mem::forget(shell_src);
    cmd
}

fn mk_parts() -> (PathBuf, Vec<String>, Vec<String>) {
    let mut options = Vec::with_capacity(1);
    options.push(String::from("-e"));
    let mut args = Vec::with_capacity(1);
    args.push(String::from("x"));
    (PathBuf::from("sh"), options, args)
}
const NOOPT: SpawnOptions = SpawnOptions { grouped: false, session: false, reset_sigmask: false };

fn check_po(cmd: &Command, want: usize) {
    // want: 0 = None, 1 = Borrowed, 2 = Owned
    let Program::Shell { shell, .. } = &cmd.program else { unreachable!() };
    match &shell.program_option {
        None => assert!(want == 0, "M po none"),
        Some(Cow::Borrowed(b)) => {
            assert!(want == 1, "M po borrowed");
            assert!(b.as_bytes().len() == 2, "M po borrowed len");
            assert!(b.as_bytes()[1] == b'c', "M po borrowed byte");
        }
        Some(Cow::Owned(o)) => {
            assert!(want == 2, "M po owned");
            assert!(o.as_bytes().len() == 2, "M po owned len");
            assert!(o.as_bytes()[1] == b'c', "M po owned byte");
        }
    }
}

#[kani::proof]
#[kani::unwind(4)]
pub fn probe_m8() {
    let (prog, options, args) = mk_parts();
    let shell = Shell { prog, options, program_option: Some(Cow::Borrowed(OsStr::new("-c"))) };
    let cmd = build2(shell, true, String::from("ab"), args, NOOPT);
    check_m(&cmd);
    check_po(&cmd, 1);
    std::mem::forget(cmd);
}
#[kani::proof]
#[kani::unwind(4)]
pub fn probe_m9() {
    let (prog, options, args) = mk_parts();
    let shell = Shell { prog, options, program_option: None };
    let cmd = build2(shell, true, String::from("ab"), args, NOOPT);
    check_po(&cmd, 0);
    std::mem::forget(cmd);
}
#[kani::proof]
#[kani::unwind(4)]
pub fn probe_m10() {
    let (prog, options, args) = mk_parts();
    let shell = Shell { prog, options, program_option: Some(Cow::Owned(std::ffi::OsString::from("-c"))) };
    let cmd = build2(shell, false, String::from("ab"), args, NOOPT);
    check_m(&cmd);
    check_po(&cmd, 2);
    std::mem::forget(cmd);
}
/// Owned via words, Borrowed via bytes (expected to be worse)
#[kani::proof]
#[kani::unwind(4)]
pub fn probe_m11() {
    let (prog, options, args) = mk_parts();
    let shell = Shell { prog, options, program_option: Some(Cow::Owned(std::ffi::OsString::from("-c"))) };
    let cmd = build2(shell, true, String::from("ab"), args, NOOPT);
    check_po(&cmd, 2);
    std::mem::forget(cmd);
}

/// unpatched normal construction: do the program-option payload reads (offsets 56..72) fold?
#[kani::proof]
#[kani::unwind(4)]
pub fn probe_m13() {
    let cmd = build_a();
    let Program::Shell { shell, .. } = &cmd.program else { kani::assume(false); unreachable!() };
    match &shell.program_option {
        None => {}
        Some(Cow::Borrowed(b)) => {
            assert!(b.as_bytes().len() == 2, "M po borrowed len");
            assert!(b.as_bytes()[1] == b'c', "M po borrowed byte");
        }
        Some(Cow::Owned(o)) => {
            assert!(o.as_bytes().len() == 2, "M po owned len");
            assert!(o.as_bytes()[1] == b'c', "M po owned byte");
        }
    }
    std::mem::forget(cmd);
}

const PW: usize = std::mem::size_of::<Program>() / 8;
unsafe fn read_words<T>(src: *const T, w: &mut [usize; PW], at: usize) {
    let n = std::mem::size_of::<T>() / 8;
    let s = src as *const usize;
    let mut i = 0;
    while i < n {
        w[at + i] = *s.add(i);
        i += 1;
    }
}

fn build3(shell_src: Shell, command: String, args: Vec<String>, options: SpawnOptions, use_memcpy: bool) -> Command {
    let mut cmd = Command {
        program: Program::Shell {
            shell: Shell { prog: PathBuf::new(), options: Vec::new(), program_option: None },
            command,
            args,
        },
        options,
    };
    let mut w = [0usize; PW];
    unsafe {
        // layout assumption (checked by the asserts of the caller): shell at 0 (prog, options, program_option)
        read_words(&cmd.program, &mut w, 0);
        read_words(&shell_src.prog, &mut w, 0);
        read_words(&shell_src.options, &mut w, 3);
        read_words(&shell_src.program_option, &mut w, 6);
        let dst = &mut cmd.program as *mut Program;
        if use_memcpy {
            std::ptr::copy_nonoverlapping(w.as_ptr() as *const u8, dst as *mut u8, PW * 8);
        } else {
            *(dst as *mut [usize; PW]) = w;
        }
    }
    std::mem::forget(shell_src);
    cmd
}

#[kani::proof]
#[kani::unwind(20)]
pub fn probe_m12() {
    let (prog, options, args) = mk_parts();
    let shell = Shell { prog, options, program_option: Some(Cow::Borrowed(OsStr::new("-c"))) };
    let cmd = build3(shell, String::from("ab"), args, NOOPT, false);
    check_m(&cmd);
    check_po(&cmd, 1);
    std::mem::forget(cmd);
}
#[kani::proof]
#[kani::unwind(20)]
pub fn probe_m14() {
    let (prog, options, args) = mk_parts();
    let shell = Shell { prog, options, program_option: Some(Cow::Borrowed(OsStr::new("-c"))) };
    let cmd = build3(shell, String::from("ab"), args, NOOPT, true);
    check_m(&cmd);
    check_po(&cmd, 1);
    std::mem::forget(cmd);
}

/// experiment: every word of the Program comes from a plain (non-union) source; hard-coded layout.
#[kani::proof]
#[kani::unwind(20)]
pub fn probe_m15() {
    let (prog, options, args) = mk_parts();
    let command = String::from("ab");
    let po_payload: &'static OsStr = OsStr::new("-c");
    let po: Option<Cow<'static, OsStr>> = Some(Cow::Borrowed(po_payload));
    let mut cmd = Command {
        program: Program::Shell {
            shell: Shell { prog: PathBuf::new(), options: Vec::new(), program_option: None },
            command: String::new(),
            args: Vec::new(),
        },
        options: NOOPT,
    };
    let mut w = [0usize; PW];
    unsafe {
        read_words(&prog, &mut w, 0);
        read_words(&options, &mut w, 3);
        w[6] = *(&po as *const _ as *const usize);
        read_words(&po_payload, &mut w, 7);
        read_words(&command, &mut w, 9);
        read_words(&args, &mut w, 12);
        let dst = &mut cmd.program as *mut Program;
        *(dst as *mut [usize; PW]) = w;
    }
    std::mem::forget((prog, options, args, command, po));
    check_m(&cmd);
    check_po(&cmd, 1);
    std::mem::forget(cmd);
}

/// experiment: every word of the Program comes from a plain (non-union) source; hard-coded layout.
#[kani::proof]
#[kani::unwind(20)]
pub fn probe_m16() {
    let (prog, options, args) = mk_parts();
    let command = String::from("ab");
    let po_payload: &'static OsStr = OsStr::new("-c");
    let po: Option<Cow<'static, OsStr>> = Some(Cow::Borrowed(po_payload));
    let mut cmd = Command {
        program: Program::Shell {
            shell: Shell { prog: PathBuf::new(), options: Vec::new(), program_option: None },
            command: String::new(),
            args: Vec::new(),
        },
        options: NOOPT,
    };
    let mut w = [0usize; PW];
    unsafe {
        read_words(&prog, &mut w, 0);
        read_words(&options, &mut w, 3);
        w[6] = *(&po as *const _ as *const usize);
        read_words(&po_payload, &mut w, 7);
        read_words(&command, &mut w, 9);
        read_words(&args, &mut w, 12);
        let dst = &mut cmd.program as *mut Program;
        *(dst as *mut [usize; PW]) = w;
        // re-write the words that overlap the other variant one by one
        let d = dst as *mut usize;
        let mut i = 0;
        while i < 7 {
            *d.add(i) = w[i];
            i += 1;
        }
    }
    std::mem::forget((prog, options, args, command, po));
    check_m(&cmd);
    check_po(&cmd, 1);
    std::mem::forget(cmd);
}

fn check_spawn_concrete(cmd: &Command) {
    let sp = cmd.to_spawnable();
    let c = sp.command();
    assert!(bytes_eq(&c.verif_program, b"sh"), "C18: shell program altered");
    assert!(c.verif_args.len() == 4, "C18: shell argv length wrong");
    assert!(bytes_eq(&c.verif_args[0], b"-e"), "C18: shell option altered or misplaced");
    assert!(bytes_eq(&c.verif_args[1], b"-c"), "C18: program option altered or misplaced");
    assert!(bytes_eq(&c.verif_args[2], b"ab"), "C18: command string altered or misplaced");
    assert!(bytes_eq(&c.verif_args[3], b"x"), "C18: extra argument altered or misplaced");
    std::mem::forget(sp);
}

/// regime A, Borrowed program option, real to_spawnable, all concrete
#[kani::proof]
#[kani::unwind(4)]
pub fn probe_b() {
    let (prog, options, args) = mk_parts();
    let shell = Shell { prog, options, program_option: Some(Cow::Borrowed(OsStr::new("-c"))) };
    let cmd = build2(shell, true, String::from("ab"), args, NOOPT);
    check_spawn_concrete(&cmd);
    std::mem::forget(cmd);
}
/// regime A, Owned program option
#[kani::proof]
#[kani::unwind(4)]
pub fn probe_c() {
    let (prog, options, args) = mk_parts();
    let shell = Shell { prog, options, program_option: Some(Cow::Owned(std::ffi::OsString::from("-c"))) };
    let cmd = build2(shell, false, String::from("ab"), args, NOOPT);
    check_spawn_concrete(&cmd);
    std::mem::forget(cmd);
}

fn conc(nopts: usize, po: usize, nargs: usize) {
    let mut options = Vec::with_capacity(nopts);
    if nopts >= 1 { options.push(String::from("-e")); }
    if nopts >= 2 { options.push(String::from("-x")); }
    let mut args = Vec::with_capacity(nargs);
    if nargs >= 1 { args.push(String::from("x")); }
    if nargs >= 2 { args.push(String::from("yz")); }
    let program_option = if po == 0 { None } else if po == 1 { Some(Cow::Borrowed(OsStr::new("-c"))) } else { Some(Cow::Owned(std::ffi::OsString::from("-c"))) };
    let shell = Shell { prog: PathBuf::from("sh"), options, program_option };
    let cmd = build2(shell, po != 2, String::from("ab"), args, NOOPT);
    let sp = cmd.to_spawnable();
    let c = sp.command();
    assert!(bytes_eq(&c.verif_program, b"sh"), "C18: shell program altered");
    assert!(c.verif_args.len() == nopts + (po != 0) as usize + 1 + nargs, "C18: shell argv length wrong");
    let mut k = 0;
    if nopts >= 1 { assert!(bytes_eq(&c.verif_args[k], b"-e"), "C18: shell option altered or misplaced"); k += 1; }
    if nopts >= 2 { assert!(bytes_eq(&c.verif_args[k], b"-x"), "C18: shell option altered or misplaced"); k += 1; }
    if po != 0 { assert!(bytes_eq(&c.verif_args[k], b"-c"), "C18: program option altered or misplaced"); k += 1; }
    assert!(bytes_eq(&c.verif_args[k], b"ab"), "C18: command string altered or misplaced"); k += 1;
    if nargs >= 1 { assert!(bytes_eq(&c.verif_args[k], b"x"), "C18: extra argument altered or misplaced"); k += 1; }
    if nargs >= 2 { assert!(bytes_eq(&c.verif_args[k], b"yz"), "C18: extra argument altered or misplaced"); }
    std::mem::forget(sp);
    std::mem::forget(cmd);
}
macro_rules! conc_h { ($n:ident, $a:expr, $b:expr, $c:expr) => { #[kani::proof] #[kani::unwind(4)] pub fn $n() { conc($a, $b, $c); } } }
conc_h!(conc_000, 0, 0, 0);
conc_h!(conc_010, 0, 1, 0);
conc_h!(conc_020, 0, 2, 0);
conc_h!(conc_011, 0, 1, 1);
conc_h!(conc_100, 1, 0, 0);
conc_h!(conc_110, 1, 1, 0);
conc_h!(conc_212, 2, 1, 2);

/// `MaybeUninit::write` by a typed pointer write instead of a whole-union assignment (same effect).
pub fn mu_write<T>(this: &mut std::mem::MaybeUninit<T>, val: T) -> &mut T {
    unsafe {
        let p = this.as_mut_ptr();
        std::ptr::write(p, val);
        &mut *p
    }
}
#[kani::proof]
#[kani::unwind(4)]
#[kani::stub(std::mem::MaybeUninit::write, mu_write)]
pub fn conc_110s() { conc(1, 1, 0); }
#[kani::proof]
#[kani::unwind(4)]
#[kani::stub(std::mem::MaybeUninit::write, mu_write)]
pub fn conc_111s() { conc(1, 1, 1); }
#[kani::proof]
#[kani::unwind(4)]
#[kani::stub(std::mem::MaybeUninit::write, mu_write)]
pub fn conc_212s() { conc(2, 1, 2); }
#[kani::proof]
#[kani::unwind(4)]
#[kani::stub(std::mem::MaybeUninit::write, mu_write)]
pub fn conc_222s() { conc(2, 2, 2); }
