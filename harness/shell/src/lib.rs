//! Harness group `shell`: the shell sentence of C18 over the real
//! `watchexec_supervisor::command::Command::to_spawnable` (Program::Shell branch) and the
//! `Shell` helpers, against the recording models under /verif/models.
#![cfg(kani)]
#![allow(clippy::all)]

#[path = "../../supervisor/src/util.rs"]
pub mod util;
pub mod c18shell;
pub mod probe;

pub use c18shell::*;
pub use probe::*;

mod playback {
    #[allow(unused_imports)]
    use super::*;
    include!("playback.rs");
}
