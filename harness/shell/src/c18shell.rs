//! C18, shell sentence: "with a shell it is invoked as the shell, its options, the program option,
//! the command string, then the extra arguments, in that order" - decided on the real
//! `Command::to_spawnable` (`Program::Shell` branch) against the recording process models.
//!
//! Structure (number of shell options, kind of program option, number of extra arguments, string
//! lengths) is path-split: constant on each explored path. Bytes of every string are symbolic
//! ASCII 0x01..=0x7f (whitespace, quotes, every shell metacharacter), the three spawn options are
//! symbolic.
//!
//! How the `Command` is constructed (see `build_cmd`) is what makes this branch affordable; the
//! measurements behind it are in `probe.rs`:
//! CBMC 6.11 treats a Rust enum with a niche as a union whose members are tracked field by field.
//! Assigning one member as a whole (`Program::Shell { .. }`) re-derives the fields of the *other*
//! member (`Exec`) from the assigned value, and the simplifier cannot do that when the value
//! contains pointers. `Program`'s discriminant lives in the first word, which belongs to
//! `Exec.$pad0` in that view - so after the ordinary construction the discriminant, and every
//! `Shell` field that overlaps `Exec` (shell.prog, shell.options, the program option's tag), read
//! back as unfolded expressions, both match arms run, and the `Vec<String>` loops unwind to the
//! bound on garbage lengths (31.7M variables for one concrete scenario).
//! Byte-wise writes into the union are tracked exactly. `build_cmd` therefore builds the command
//! with an empty placeholder `Shell` and then moves the real `Shell` (a plain struct that was
//! never inside an enum) over the placeholder field by field with `ptr::copy_nonoverlapping`
//! (a bitwise move; no layout assumption). `built_ok` is then asserted: through safe pattern
//! matching, that the value handed to `to_spawnable` is the intended one.
use std::borrow::Cow;
use std::ffi::{OsStr, OsString};
use std::os::unix::ffi::{OsStrExt, OsStringExt};
use std::path::PathBuf;

use process_wrap::tokio::WrapKind;
use watchexec_supervisor::command::{Command, Program, Shell, SpawnOptions};

use crate::split;

/// `MaybeUninit::write` as a typed pointer write instead of a whole-union assignment. Same
/// effect (std: `*self = MaybeUninit::new(val); self.assume_init_mut()`); std's form stores the
/// cloned `String`s of `shell.options.clone()` as one 192-bit concatenation that CBMC cannot take
/// apart again (measured: 13.1M variables with std's body, 1.0M with this one, shape 1/borrowed/0).
pub fn maybe_uninit_write<T>(this: &mut std::mem::MaybeUninit<T>, val: T) -> &mut T {
    unsafe {
        let p = this.as_mut_ptr();
        std::ptr::write(p, val);
        &mut *p
    }
}

// Kani adds a reachability check to every assertion-like site (assert!, arithmetic overflow, slice
// index) and, with concrete playback on (the driver's flags), CBMC emits a full trace - 5-8 MB of
// JSON on these paths - for each of them; the Kani driver needs ~28x the JSON size in memory.
// Measured: ~60 such sites in the harness code = more than 12 GB in the driver after CBMC had
// already finished. Hence: shared helpers (one site each), wrapping counters, one assertion per
// message.

/// N symbolic ASCII bytes (never NUL): the backing store of one test string.
fn sym<const N: usize>() -> [u8; N] {
    let b: [u8; N] = kani::any();
    let mut i = 0;
    while i < N {
        kani::assume(at(&b, i) >= 1 && at(&b, i) < 0x80);
        i = nx(i);
    }
    b
}
#[inline(never)]
fn at(b: &[u8], i: usize) -> u8 {
    b[i]
}
#[inline(never)]
fn nx(i: usize) -> usize {
    i.wrapping_add(1)
}
#[inline(never)]
fn pick(a: &[[u8; 2]; 2], i: usize) -> &[u8; 2] {
    &a[i]
}
#[inline(never)]
fn len_at(a: &[usize; 2], i: usize) -> usize {
    a[i]
}
#[inline(never)]
fn sidx(v: &Vec<String>, i: usize) -> &OsStr {
    OsStr::new(&v[i])
}
#[inline(never)]
fn arg(c: &tokio::process::Command, k: usize) -> &OsStr {
    &c.verif_args[k]
}
/// The bytes `b[..len]` as a vector of exactly that capacity.
#[inline(never)]
fn mkv(b: &[u8], len: usize) -> Vec<u8> {
    b[..len].to_vec()
}
fn mk(b: &[u8], len: usize) -> String {
    // SAFETY: all bytes are ASCII
    unsafe { String::from_utf8_unchecked(mkv(b, len)) }
}
/// `a` equals `b[..len]`.
#[inline(never)]
fn is(a: &OsStr, b: &[u8], len: usize) -> bool {
    let a = a.as_bytes();
    if a.len() != len {
        return false;
    }
    let mut i = 0;
    while i < len {
        if at(a, i) != at(b, i) {
            return false;
        }
        i = nx(i);
    }
    true
}

fn any_options() -> SpawnOptions {
    SpawnOptions { grouped: kani::any(), session: kani::any(), reset_sigmask: kani::any() }
}

/// Same oracle as `check_wrappers` of the exec harness (supervisor/src/c18.rs), as one assertion:
/// wrappers = {KillOnDrop} + {Session if session, else Group if grouped} + {ResetSigmask if set}.
fn wrappers_ok(sp: &process_wrap::tokio::TokioCommandWrap, o: SpawnOptions) -> bool {
    let want = 1 + (o.session || o.grouped) as usize + o.reset_sigmask as usize;
    sp.verif_has(WrapKind::KillOnDrop)
        && sp.verif_has(WrapKind::ProcessSession) == o.session
        && sp.verif_has(WrapKind::ProcessGroup) == (o.grouped && !o.session)
        && sp.verif_has(WrapKind::ResetSigmask) == o.reset_sigmask
        && sp.verif_wrap_count() == want
}

/// Bitwise move of `*src` to `*dst` through `memcpy` (tracked byte by byte by CBMC; reads the value
/// as a whole).
unsafe fn move_bytes<T>(src: *const T, dst: *mut T) {
    std::ptr::copy_nonoverlapping(src, dst, 1);
}
/// Bitwise move of `*src` to `*dst` word by word (reads the leaf fields of the source).
unsafe fn move_words<T>(src: *const T, dst: *mut T) {
    let n = std::mem::size_of::<T>() / std::mem::size_of::<usize>();
    let (s, d) = (src as *const usize, dst as *mut usize);
    let mut i = 0;
    while i < n {
        *d.wrapping_add(i) = *s.wrapping_add(i);
        i = nx(i);
    }
}

/// `Command { program: Program::Shell { shell, command, args }, options }`, constructed so that
/// the symbolic executor keeps every structural value (discriminants, lengths, pointers) constant.
///
/// `po_by_words`: how the program option is moved. A value whose last write was the niche tag
/// (`None`, `Cow::Borrowed`) has exact leaf fields, one that was written as a whole union member
/// (`Cow::Owned`) has an exact whole value; the other way round reads back unfolded (measured).
pub fn build_cmd(shell: Shell, po_by_words: bool, command: String, args: Vec<String>, options: SpawnOptions) -> Command {
    const _: () = assert!(std::mem::size_of::<Option<Cow<'static, OsStr>>>() % std::mem::size_of::<usize>() == 0);
    let mut cmd = Command {
        program: Program::Shell {
            // owns no heap memory: overwritten below without being dropped
            shell: Shell { prog: PathBuf::new(), options: Vec::new(), program_option: None },
            command,
            args,
        },
        options,
    };
    let Program::Shell { shell: dst, .. } = &mut cmd.program else { unreachable!("C18: harness built a non-shell program") };
    unsafe {
        move_bytes(&shell.prog, &mut dst.prog);
        move_bytes(&shell.options, &mut dst.options);
        if po_by_words {
            move_words(&shell.program_option, &mut dst.program_option);
        } else {
            move_bytes(&shell.program_option, &mut dst.program_option);
        }
    }
    std::mem::forget(shell);
    cmd
}

/// Backing store of a borrowed (`'static`) program option with symbolic bytes.
static mut PO_STATIC: [u8; 2] = [0; 2];

/// Which program option the shell description carries.
#[derive(Clone, Copy, PartialEq, Eq)]
pub enum Po {
    Absent,
    Borrowed,
    Owned,
}

#[derive(Clone, Copy)]
pub struct Shape {
    pub nopts: usize,
    pub po: Po,
    pub nargs: usize,
    /// lengths (<= 2) of the options, the program option, the extra arguments; (<= 3) of the command
    pub olen: [usize; 2],
    pub polen: usize,
    pub clen: usize,
    pub alen: [usize; 2],
}

/// The value handed to the code under test is the intended one (safe reads only).
fn built_ok(cmd: &Command, sh: &Shape, sb: &[u8; 1], ob: &[[u8; 2]; 2], qb: &[u8; 2], cb: &[u8; 3], ab: &[[u8; 2]; 2]) -> bool {
    let Program::Shell { shell, command, args } = &cmd.program else { return false };
    let mut ok = is(shell.prog.as_os_str(), sb, 1) && shell.options.len() == sh.nopts && args.len() == sh.nargs;
    let mut i = 0;
    while ok && i < sh.nopts {
        ok = is(sidx(&shell.options, i), pick(ob, i), len_at(&sh.olen, i));
        i = nx(i);
    }
    ok = ok
        && match &shell.program_option {
            None => sh.po == Po::Absent,
            Some(Cow::Borrowed(b)) => sh.po == Po::Borrowed && is(b, qb, sh.polen),
            Some(Cow::Owned(o)) => sh.po == Po::Owned && is(o, qb, sh.polen),
        };
    ok = ok && is(OsStr::new(command), cb, sh.clen);
    let mut i = 0;
    while ok && i < sh.nargs {
        ok = is(sidx(args, i), pick(ab, i), len_at(&sh.alen, i));
        i = nx(i);
    }
    ok
}

pub fn shell_scenario(sh: Shape) {
    let sb = sym::<1>();
    let ob = [sym::<2>(), sym::<2>()];
    let qb = sym::<2>();
    let cb = sym::<3>();
    let ab = [sym::<2>(), sym::<2>()];

    let mut options_v = Vec::with_capacity(sh.nopts);
    let mut i = 0;
    while i < sh.nopts {
        options_v.push(mk(pick(&ob, i), len_at(&sh.olen, i)));
        i = nx(i);
    }
    let mut args_v = Vec::with_capacity(sh.nargs);
    let mut i = 0;
    while i < sh.nargs {
        args_v.push(mk(pick(&ab, i), len_at(&sh.alen, i)));
        i = nx(i);
    }
    let program_option: Option<Cow<'static, OsStr>> = match sh.po {
        Po::Absent => None,
        Po::Borrowed => {
            let s: &'static [u8] = unsafe {
                let p = std::ptr::addr_of_mut!(PO_STATIC) as *mut u8;
                *p = qb[0];
                *p.wrapping_add(1) = qb[1];
                std::slice::from_raw_parts(p as *const u8, sh.polen)
            };
            Some(Cow::Borrowed(OsStr::from_bytes(s)))
        }
        Po::Owned => Some(Cow::Owned(OsString::from_vec(mkv(&qb, sh.polen)))),
    };
    let shell = Shell { prog: PathBuf::from(mk(&sb, 1)), options: options_v, program_option };
    let options = any_options();
    let cmd = build_cmd(shell, sh.po != Po::Owned, mk(&cb, sh.clen), args_v, options);
    assert!(built_ok(&cmd, &sh, &sb, &ob, &qb, &cb, &ab), "C18: harness: the constructed command is not the intended one");

    let sp = cmd.to_spawnable();
    let c = sp.command();

    let with_po = sh.po != Po::Absent;
    kani::cover!(sh.nopts == 2 && sh.nargs == 2, "two options and two extra arguments");
    kani::cover!(sh.nopts == 0 && sh.nargs == 0, "no options and no extra arguments");
    kani::cover!(sh.clen == 3 && cb[0] == b'a' && cb[1] == b' ' && cb[2] == b'b', "command 'a b'");
    kani::cover!(sh.clen == 0 && sh.nargs == 2, "empty command string before two extra arguments");
    kani::cover!(sh.nopts >= 1 && sh.olen[0] == 2 && with_po && sh.polen == 2 && ob[0][0] == qb[0] && ob[0][1] == qb[1], "first option equals the program option");

    assert!(is(&c.verif_program, &sb, 1), "C18: shell program altered");
    let npo = with_po as usize;
    assert!(c.verif_args.len() == sh.nopts.wrapping_add(npo).wrapping_add(1).wrapping_add(sh.nargs), "C18: shell argv length wrong");
    let mut i = 0;
    while i < sh.nopts {
        assert!(is(arg(c, i), pick(&ob, i), len_at(&sh.olen, i)), "C18: shell option altered or misplaced");
        i = nx(i);
    }
    if with_po {
        assert!(is(arg(c, sh.nopts), &qb, sh.polen), "C18: program option altered or misplaced");
    }
    let kc = sh.nopts.wrapping_add(npo);
    assert!(is(arg(c, kc), &cb, sh.clen), "C18: command string altered or misplaced");
    let mut i = 0;
    while i < sh.nargs {
        assert!(is(arg(c, nx(kc).wrapping_add(i)), pick(&ab, i), len_at(&sh.alen, i)), "C18: extra argument altered or misplaced");
        i = nx(i);
    }
    assert!(wrappers_ok(&sp, options), "C18: wrapper set does not match the spawn options (KillOnDrop; session, else group; reset-sigmask)");
    std::mem::forget(sp);
    std::mem::forget(cmd);
}

/// One harness per kind of program option; 0..=2 options x 0..=2 extra arguments path-split inside
/// (9 shapes). String lengths of the quick pattern: options (2, 1), program option 2, command 3,
/// extra arguments (2, 0) - so an empty last argument, a command that can contain an inner blank,
/// and an option that can equal the program option are all inside.
macro_rules! shell_harness {
    ($name:ident, $po:expr, $olen:expr, $polen:expr, $clen:expr, $alen:expr) => {
        #[kani::proof]
        #[kani::unwind(5)]
        #[kani::stub(std::mem::MaybeUninit::write, maybe_uninit_write)]
        pub fn $name() {
            split!(3, |nopts| {
                split!(3, |nargs| {
                    shell_scenario(Shape { nopts, po: $po, nargs, olen: $olen, polen: $polen, clen: $clen, alen: $alen });
                    kani::assume(false);
                })
            });
        }
    };
}
shell_harness!(c18_shell_no_progopt, Po::Absent, [2, 1], 2, 3, [2, 0]);
shell_harness!(c18_shell_borrowed_progopt, Po::Borrowed, [2, 1], 2, 3, [2, 0]);
shell_harness!(c18_shell_owned_progopt, Po::Owned, [2, 1], 2, 3, [2, 0]);

// Thorough: the other string-length patterns (command lengths 0..=3 all appear across the set);
// one harness per (pattern, kind of program option), 9 shapes each.
shell_harness!(c18_shell_lens_b_no_progopt, Po::Absent, [0, 2], 1, 0, [1, 2]);
shell_harness!(c18_shell_lens_b_borrowed_progopt, Po::Borrowed, [0, 2], 1, 0, [1, 2]);
shell_harness!(c18_shell_lens_b_owned_progopt, Po::Owned, [0, 2], 1, 0, [1, 2]);
shell_harness!(c18_shell_lens_c_no_progopt, Po::Absent, [1, 0], 0, 1, [0, 1]);
shell_harness!(c18_shell_lens_c_borrowed_progopt, Po::Borrowed, [1, 0], 0, 2, [0, 1]);
shell_harness!(c18_shell_lens_c_owned_progopt, Po::Owned, [1, 0], 0, 1, [0, 1]);

/// `Shell::new(name)`: the documented shorthand - the given program, no options, program option
/// `-c` - and, through `to_spawnable`, the argv `name -c <command> <args..>`.
#[kani::proof]
#[kani::unwind(5)]
#[kani::stub(std::mem::MaybeUninit::write, maybe_uninit_write)]
pub fn c18_shell_new_helper() {
    split!(3, |nargs| {
        let sb = sym::<2>();
        let cb = sym::<3>();
        let ab = [sym::<2>(), sym::<2>()];
        let alen = [2, 1];
        let shell = Shell::new(mk(&sb, 2));
        let po_ok = match &shell.program_option {
            Some(o) => is(o, b"-c", 2),
            None => false,
        };
        assert!(is(shell.prog.as_os_str(), &sb, 2) && shell.options.len() == 0 && po_ok, "C18: Shell::new is not (name, no options, -c)");
        let mut args_v = Vec::with_capacity(nargs);
        let mut i = 0;
        while i < nargs {
            args_v.push(mk(pick(&ab, i), len_at(&alen, i)));
            i = nx(i);
        }
        let options = any_options();
        let cmd = build_cmd(shell, true, mk(&cb, 3), args_v, options);
        let sp = cmd.to_spawnable();
        let c = sp.command();
        kani::cover!(nargs == 2, "Shell::new with two extra arguments");
        assert!(is(&c.verif_program, &sb, 2), "C18: shell program altered");
        assert!(c.verif_args.len() == nargs.wrapping_add(2), "C18: shell argv length wrong");
        assert!(is(arg(c, 0), b"-c", 2), "C18: program option altered or misplaced");
        assert!(is(arg(c, 1), &cb, 3), "C18: command string altered or misplaced");
        let mut i = 0;
        while i < nargs {
            assert!(is(arg(c, i.wrapping_add(2)), pick(&ab, i), len_at(&alen, i)), "C18: extra argument altered or misplaced");
            i = nx(i);
        }
        assert!(wrappers_ok(&sp, options), "C18: wrapper set does not match the spawn options (KillOnDrop; session, else group; reset-sigmask)");
        std::mem::forget(sp);
        std::mem::forget(cmd);
        kani::assume(false);
    });
}

/// One shape with every element present once (1 option, borrowed program option, command, 1 extra
/// argument): the cheapest query that still distinguishes every ordering of the four groups.
/// (Measured: with the program option moved before the options the 9-shape harnesses above run out
/// of 12 GB in the solver - inconclusive, not a detection; this one decides it.)
#[kani::proof]
#[kani::unwind(5)]
#[kani::stub(std::mem::MaybeUninit::write, maybe_uninit_write)]
pub fn c18_shell_order_one_of_each() {
    shell_scenario(Shape { nopts: 1, po: Po::Borrowed, nargs: 1, olen: [2, 0], polen: 2, clen: 3, alen: [2, 0] });
}

/// N symbolic bytes over 0x01..=0xff: includes every byte sequence that is not valid UTF-8.
fn symw<const N: usize>() -> [u8; N] {
    let b: [u8; N] = kani::any();
    let mut i = 0;
    while i < N {
        kani::assume(at(&b, i) >= 1);
        i = nx(i);
    }
    b
}

/// Paths and the program option are OS strings, not text: a shell program and a program option made of
/// arbitrary non-NUL bytes (in particular bytes that are not valid UTF-8) reach the process layer byte
/// for byte. One shape: 1 ASCII option, owned 2-byte program option, 2-byte command, no extra arguments.
/// (Added after seed r4-lossy-program-path, which routes both through `to_string_lossy`/`display`.)
#[kani::proof]
#[kani::unwind(5)]
#[kani::stub(std::mem::MaybeUninit::write, maybe_uninit_write)]
pub fn c18_shell_nonutf8_prog_and_progopt() {
    let sb = symw::<2>();
    let qb = symw::<2>();
    let ob = sym::<2>();
    let cb = sym::<2>();
    let mut options_v = Vec::with_capacity(1);
    options_v.push(mk(&ob, 2));
    let shell = Shell {
        prog: PathBuf::from(OsString::from_vec(mkv(&sb, 2))),
        options: options_v,
        program_option: Some(Cow::Owned(OsString::from_vec(mkv(&qb, 2)))),
    };
    let options = any_options();
    let cmd = build_cmd(shell, false, mk(&cb, 2), Vec::new(), options);
    let sp = cmd.to_spawnable();
    let c = sp.command();
    kani::cover!(sb[1] == 0xff && qb[0] == 0xc3 && qb[1] == b'(', "shell program and program option that are not valid UTF-8");
    assert!(is(&c.verif_program, &sb, 2), "C18: shell program altered");
    assert!(c.verif_args.len() == 3, "C18: shell argv length wrong");
    assert!(is(arg(c, 0), &ob, 2), "C18: shell option altered or misplaced");
    assert!(is(arg(c, 1), &qb, 2), "C18: program option altered or misplaced");
    assert!(is(arg(c, 2), &cb, 2), "C18: command string altered or misplaced");
    std::mem::forget(sp);
    std::mem::forget(cmd);
}
