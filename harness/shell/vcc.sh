#!/bin/bash
# usage: vcc.sh <harness-name> <unwind> <grep-pattern> : codegen, run Kani's goto pipeline by hand, then list which
# assertions matching the pattern survive symex simplification (i.e. are NOT constant-folded).
n=$1; u=${2:-4}; pat=${3:-\"M }
cd /verif/harness/shell
[ -z "$NOBUILD" ] && { CARGO_NET_OFFLINE=true cargo kani --only-codegen -Z stubbing --target-dir /verif/.target/shell > /tmp/shell-codegen.log 2>&1 || { grep -A12 "^error" /tmp/shell-codegen.log | head -60; exit 1; }; }
s=$(ls -t /verif/.target/shell/kani/x86_64-unknown-linux-gnu/debug/build/vh-shell/*/out/*${#n}${n}.symtab.out | head -1)
[ -z "$s" ] && exit 1
fn=$(basename $s .symtab.out); fn=_R${fn#*__R}
o=/tmp/shell-vcc-$n.out
goto-cc $s /root/.kani/kani-0.68.0/library/kani/kani_lib.c -o $o && goto-cc $o --function $fn -o $o && \
goto-instrument --add-library --no-malloc-may-fail $o $o >/dev/null 2>&1 && \
goto-instrument --generate-function-body-options assert-false-assume-false --generate-function-body '.*' --drop-unused-functions $o $o >/dev/null 2>&1 && \
goto-instrument --ensure-one-backedge-per-target $o $o > /dev/null 2>&1
timeout ${T:-300} cbmc --no-malloc-may-fail --no-undefined-shift-check --no-signed-overflow-check --nan-check --no-self-loops-to-assumptions --no-pointer-primitive-check --object-bits 16 --unwind $u --max-field-sensitivity-array-size ${FS:-1024} $o --show-vcc > /tmp/shell-vcc-$n.txt 2>&1
grep -E "VCC\(s\)|Not unwinding" /tmp/shell-vcc-$n.txt | cut -c1-200 | sort | uniq -c
echo "surviving asserts matching $pat:"; grep -F "$pat" /tmp/shell-vcc-$n.txt | sort | uniq -c
