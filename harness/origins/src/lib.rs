//! C20 — classification leg: every ProjectType is exactly one of {vcs, soft}.
#![cfg(kani)]
#![feature(variant_count)]
use project_origins::ProjectType;

fn any_project_type() -> ProjectType {
    // The enum is fieldless and #[non_exhaustive]; its discriminants are 0..variant_count.
    // Using variant_count means a variant added later is covered without editing this harness.
    let n = std::mem::variant_count::<ProjectType>();
    assert!(std::mem::size_of::<ProjectType>() == 1);
    let d: u8 = kani::any();
    kani::assume((d as usize) < n);
    unsafe { std::mem::transmute::<u8, ProjectType>(d) }
}

#[kani::proof]
fn c20_vcs_xor_soft() {
    let t = any_project_type();
    let v = t.is_vcs();
    let s = t.is_soft();
    kani::cover!(v, "some vcs type");
    kani::cover!(s, "some soft type");
    assert!(v || s, "C20: project type is neither vcs nor soft");
    assert!(!(v && s), "C20: project type is both vcs and soft");
}

mod playback {
    #[allow(unused_imports)]
    use super::*;
    include!("playback.rs");
}
