use std::mem::forget;
use std::time::Duration;
use watchexec::Config;
use watchexec::error::RuntimeError;
use watchexec::ErrorHook;
use watchexec::changeable::ChangeableFn;

#[kani::proof]
#[kani::unwind(4)]
pub fn p_config_default() {
    let config = Config::default();
    assert!(config.throttle.get() == Duration::from_millis(50));
    forget(config);
}

#[kani::proof]
#[kani::unwind(4)]
pub fn p_config_throttle() {
    let config = Config::default();
    config.throttle(Duration::from_millis(10));
    assert!(config.throttle.get() == Duration::from_millis(10));
    forget(config);
}

#[kani::proof]
#[kani::unwind(4)]
#[kani::stub(std::boxed::Box::write, crate::util::box_write_stub)]
pub fn p_hook_ignore() {
    let handler: ChangeableFn<ErrorHook, ()> = ChangeableFn::default();
    let r = crate::c15::run_body(RuntimeError::NoCommands, &handler);
    assert!(matches!(r, Ok(())));
    forget(r); forget(handler);
}

#[kani::proof]
#[kani::unwind(4)]
#[kani::stub(std::boxed::Box::write, crate::util::box_write_stub)]
pub fn p_hook_elevate() {
    let handler: ChangeableFn<ErrorHook, ()> = ChangeableFn::default();
    handler.replace(|h: ErrorHook| h.elevate());
    let r = crate::c15::run_body(RuntimeError::NoCommands, &handler);
    assert!(matches!(r, Err(_)));
    forget(r); forget(handler);
}

#[kani::proof]
#[kani::unwind(4)]
#[kani::stub(std::boxed::Box::write, crate::util::box_write_stub)]
pub fn p_hook_elevate2() {
    let handler: ChangeableFn<ErrorHook, ()> = ChangeableFn::default();
    handler.replace(|h: ErrorHook| h.elevate());
    let r = crate::c15::run_body(RuntimeError::NoCommands, &handler);
    assert!(matches!(r, Err(_)));
    forget(r); forget(handler);
}

#[kani::proof]
pub fn p_sizes() {
    use std::mem::size_of;
    use watchexec::error::CriticalError;
    let a = size_of::<RuntimeError>();
    let b = size_of::<CriticalError>();
    let c = size_of::<ErrorHook>();
    kani::cover!(a > 64, "RT>64"); kani::cover!(a > 96, "RT>96"); kani::cover!(a > 128, "RT>128"); kani::cover!(a > 192, "RT>192"); kani::cover!(a > 256, "RT>256");
    kani::cover!(b > 64, "CR>64"); kani::cover!(b > 96, "CR>96"); kani::cover!(b > 128, "CR>128"); kani::cover!(b > 192, "CR>192"); kani::cover!(b > 256, "CR>256");
    kani::cover!(c > 64, "EH>64"); kani::cover!(c > 96, "EH>96"); kani::cover!(c > 128, "EH>128"); kani::cover!(c > 192, "EH>192"); kani::cover!(c > 256, "EH>256");
}

#[kani::proof]
#[kani::unwind(4)]
pub fn p_drop_rt() {
    let e = RuntimeError::NoCommands;
    drop(e);
}

#[kani::proof]
#[kani::unwind(4)]
pub fn p_drop_hook() {
    let h = watchexec::verif::hook_new(RuntimeError::NoCommands);
    drop(h);
}

#[kani::proof]
#[kani::unwind(4)]
pub fn p_dyn_call_drop() {
    let f: std::sync::Arc<dyn Fn(RuntimeError) + Send + Sync> = std::sync::Arc::new(|e| drop(e));
    f(RuntimeError::NoCommands);
    forget(f);
}

#[kani::proof]
#[kani::unwind(4)]
pub fn p_arc_oncelock() {
    use watchexec::error::CriticalError;
    let a: std::sync::Arc<std::sync::OnceLock<CriticalError>> = Default::default();
    drop(a);
}

#[kani::proof]
#[kani::unwind(4)]
#[kani::stub(std::boxed::Box::write, crate::util::box_write_stub)]
pub fn p_arc_oncelock_stub() {
    use watchexec::error::CriticalError;
    let a: std::sync::Arc<std::sync::OnceLock<CriticalError>> = Default::default();
    drop(a);
}

#[kani::proof]
#[kani::unwind(4)]
pub fn p_oncelock_local() {
    use watchexec::error::CriticalError;
    let a: std::sync::OnceLock<CriticalError> = Default::default();
    drop(a);
}

#[kani::proof]
#[kani::unwind(4)]
pub fn p_arc_new_oncelock() {
    use watchexec::error::CriticalError;
    let a: std::sync::Arc<std::sync::OnceLock<CriticalError>> = std::sync::Arc::new(std::sync::OnceLock::new());
    drop(a);
}

#[kani::proof]
#[kani::unwind(4)]
pub fn p_help() {
    use miette::Diagnostic;
    let e = RuntimeError::NoCommands;
    assert!(e.help().is_none());
    forget(e);
}

#[kani::proof]
#[kani::unwind(4)]
pub fn p_oncelock_set_local() {
    use watchexec::error::CriticalError;
    let l: std::sync::OnceLock<CriticalError> = std::sync::OnceLock::new();
    l.set(CriticalError::Exit).ok();
    let r = l.into_inner();
    assert!(matches!(r, Some(CriticalError::Exit)));
    forget(r);
}

#[kani::proof]
#[kani::unwind(4)]
#[kani::stub(std::boxed::Box::write, crate::util::box_write_stub)]
pub fn p_oncelock_set_arc() {
    use watchexec::error::CriticalError;
    let l: std::sync::Arc<std::sync::OnceLock<CriticalError>> = Default::default();
    l.set(CriticalError::Elevated{ err: RuntimeError::NoCommands, help: None }).ok();
    let r = std::sync::Arc::try_unwrap(l).ok().unwrap().into_inner();
    assert!(matches!(r, Some(CriticalError::Elevated{..})));
    forget(r);
}

#[kani::proof]
#[kani::unwind(4)]
pub fn p_oncelock_set_local_forget() {
    use watchexec::error::CriticalError;
    let l: std::sync::OnceLock<CriticalError> = std::sync::OnceLock::new();
    let s = l.set(CriticalError::Exit);
    assert!(s.is_ok());
    forget(s);
    let r = l.into_inner();
    assert!(matches!(r, Some(CriticalError::Exit)));
    forget(r);
}

#[kani::proof]
#[kani::unwind(4)]
pub fn p_oncelock_set_only_forget() {
    use watchexec::error::CriticalError;
    let l: std::sync::OnceLock<CriticalError> = std::sync::OnceLock::new();
    let s = l.set(CriticalError::Exit);
    assert!(s.is_ok());
    forget(s);
    forget(l);
}

#[kani::proof]
#[kani::unwind(4)]
pub fn p_oncelock_u64() {
    let l: std::sync::OnceLock<u64> = std::sync::OnceLock::new();
    let s = l.set(7);
    assert!(s.is_ok());
    assert!(l.into_inner() == Some(7));
}
#[kani::proof]
#[kani::unwind(4)]
pub fn p_oncelock_rt() {
    let l: std::sync::OnceLock<RuntimeError> = std::sync::OnceLock::new();
    let s = l.set(RuntimeError::NoCommands);
    assert!(s.is_ok());
    forget(s);
    forget(l);
}

#[kani::proof]
#[kani::unwind(4)]
pub fn p_opt_take() {
    use watchexec::error::CriticalError;
    let mut v = Some(CriticalError::Exit);
    let t = v.take().unwrap();
    assert!(matches!(t, CriticalError::Exit));
    assert!(v.is_none());
    forget(t);
    drop(v);
}
#[kani::proof]
#[kani::unwind(4)]
pub fn p_opt_take_dyn() {
    use watchexec::error::CriticalError;
    let mut v = Some(CriticalError::Exit);
    let mut slot = std::mem::MaybeUninit::<CriticalError>::uninit();
    {
        let mut f = Some(|| v.take().unwrap());
        let g: &mut dyn FnMut() = &mut || { slot.write(f.take().unwrap()()); };
        g();
    }
    assert!(v.is_none());
    match v { None => {}, Some(x) => drop(x) }
    forget(slot);
}

#[kani::proof]
#[kani::unwind(4)]
pub fn p_opt_take_nodrop() {
    use watchexec::error::CriticalError;
    let mut v = Some(CriticalError::Exit);
    let t = v.take().unwrap();
    assert!(matches!(t, CriticalError::Exit));
    assert!(v.is_none());
    forget(t);
    forget(v);
}
#[kani::proof]
#[kani::unwind(4)]
pub fn p_none_drop() {
    use watchexec::error::CriticalError;
    let v: Option<CriticalError> = None;
    drop(v);
}

#[kani::proof]
#[kani::unwind(4)]
#[kani::stub(std::boxed::Box::write, crate::util::box_write_stub)]
pub fn p_elev_cov_end() {
    let handler: ChangeableFn<ErrorHook, ()> = ChangeableFn::default();
    handler.replace(|h: ErrorHook| h.elevate());
    let r = crate::c15::run_body(RuntimeError::NoCommands, &handler);
    assert!(matches!(r, Err(_)));
    kani::cover!(true, "end");
    forget(r); forget(handler);
}
#[kani::proof]
#[kani::unwind(4)]
#[kani::stub(std::boxed::Box::write, crate::util::box_write_stub)]
pub fn p_elev_cov_start() {
    kani::cover!(true, "start");
    let handler: ChangeableFn<ErrorHook, ()> = ChangeableFn::default();
    handler.replace(|h: ErrorHook| h.elevate());
    let r = crate::c15::run_body(RuntimeError::NoCommands, &handler);
    assert!(matches!(r, Err(_)));
    forget(r); forget(handler);
}
