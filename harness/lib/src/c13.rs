//! C13 / C02 — runtime reconfiguration through `Changeable`, `ChangeableFn`, `ChangeableFilterer`
//! and the `Config` setters (crates/lib/src/{changeable,filter,config}.rs), all real code over the
//! real `std::sync::{Arc, RwLock}` and the real `tokio::sync::Notify`.
//!
//! "Reconfiguring from within a handler neither deadlocks nor affects an invocation already in
//! progress": Kani executes sequentially, so a handler that calls `replace` on the `ChangeableFn`
//! it is being called through would find the read lock still held if `call` kept it across the
//! invocation; `RwLock::write` then enters the futex wait path (`syscall`), which Kani reports as
//! a failed unsupported-construct check - never as a pass.
use std::future::Future;
use std::mem::forget;
use std::pin::Pin;
use std::sync::atomic::{AtomicUsize, Ordering::SeqCst};
use std::sync::Arc;
use std::task::{Context, Poll, Waker};
use std::time::Duration;

use watchexec::changeable::{Changeable, ChangeableFn};
use watchexec::error::RuntimeError;
use watchexec::filter::Filterer;
use watchexec::sources::fs::Watcher;
use watchexec::verif::config_change_signal;
use watchexec::Config;
use watchexec_events::{Event, Priority, Tag};

use crate::split;
use crate::util::random_state;

fn any_duration() -> Duration {
    let secs: u64 = kani::any();
    let nanos: u32 = kani::any();
    kani::assume(nanos < 1_000_000_000);
    Duration::new(secs, nanos)
}

/// `Changeable<T>`: `get` returns the value of the last `replace` (or the initial one), clones
/// share the state. T = u64 and T = Duration (the throttle's type), values symbolic.
#[kani::proof]
#[kani::unwind(4)]
pub fn c13_changeable_last_write_wins() {
    let (a, b, c): (u64, u64, u64) = (kani::any(), kani::any(), kani::any());
    let x = Changeable::new(a);
    assert!(x.get() == a, "C13: Changeable::get is not the initial value");
    let y = x.clone();
    y.replace(b);
    assert!(x.get() == b, "C13: Changeable clone does not share the replaced value");
    assert!(y.get() == b, "C13: Changeable::get is not the last replaced value");
    x.replace(c);
    assert!(y.get() == c && x.get() == c, "C13: Changeable::get is not the last replaced value");
    assert!(x.get() == c, "C13: Changeable::get consumed the value");

    let (d1, d2) = (any_duration(), any_duration());
    let t = Changeable::new(d1);
    let t2 = t.clone();
    t.replace(d2);
    assert!(t2.get() == d2, "C13: Changeable<Duration> clone does not share the replaced value");
    let z: Changeable<u64> = Changeable::default();
    assert!(z.get() == 0, "C13: Changeable::default is not T::default");
    kani::cover!(a != b && b != c && d1 != d2, "distinct-values");
    forget((x, y, t, t2, z));
}

/// `ChangeableFn::call` invokes the *currently installed* closure exactly once with the data
/// given; after `replace(new)` the next call goes to `new` only; clones share the closure.
#[kani::proof]
#[kani::unwind(4)]
pub fn c13_changeablefn_calls_current_once() {
    let (k1, k2, arg1, arg2, arg3): (u32, u32, u32, u32, u32) =
        (kani::any(), kani::any(), kani::any(), kani::any(), kani::any());
    let f: ChangeableFn<u32, u64> = ChangeableFn::default();
    assert!(f.call(arg1) == 0, "C13: default ChangeableFn does not return U::default");

    let n1 = Arc::new(AtomicUsize::new(0));
    let n2 = Arc::new(AtomicUsize::new(0));
    let (m1, m2) = (n1.clone(), n2.clone());
    f.replace(move |x: u32| {
        m1.fetch_add(1, SeqCst);
        ((k1 as u64) << 32) | x as u64
    });
    let g = f.clone();
    let r = g.call(arg2);
    assert!(r == ((k1 as u64) << 32) | arg2 as u64, "C13: call did not reach the installed closure with the data given");
    assert!(n1.load(SeqCst) == 1, "C13: installed closure not invoked exactly once per call");

    g.replace(move |x: u32| {
        m2.fetch_add(1, SeqCst);
        ((k2 as u64) << 32) | (!x) as u64
    });
    let r = f.call(arg3);
    assert!(r == ((k2 as u64) << 32) | (!arg3) as u64, "C13: call after replace did not reach the new closure");
    assert!(n1.load(SeqCst) == 1, "C13: replaced closure was invoked again");
    assert!(n2.load(SeqCst) == 1, "C13: installed closure not invoked exactly once per call");
    kani::cover!(k1 != k2, "distinct-closures");
    forget((f, g));
}

/// A handler that reconfigures the very `ChangeableFn` it is being called through: the call in
/// progress completes with the OLD closure's result (it is not retried, not stopped), `replace`
/// inside the call returns (no lock is held across the invocation), the next call goes to the
/// new closure. Nested depth 2: the new closure re-installs another one from inside, too.
#[kani::proof]
#[kani::unwind(4)]
pub fn c13_replace_from_inside_call() {
    let arg: u32 = kani::any();
    let f: ChangeableFn<u32, u64> = ChangeableFn::default();
    let inner = f.clone();
    let n_old = Arc::new(AtomicUsize::new(0));
    let n_new = Arc::new(AtomicUsize::new(0));
    let (m_old, m_new) = (n_old.clone(), n_new.clone());
    f.replace(move |x: u32| {
        m_old.fetch_add(1, SeqCst);
        let m_new = m_new.clone();
        let inner2 = inner.clone();
        inner.replace(move |y: u32| {
            m_new.fetch_add(1, SeqCst);
            inner2.replace(|_| 3);
            (2u64 << 32) | y as u64
        });
        (1u64 << 32) | x as u64
    });
    let r1 = f.call(arg);
    assert!(r1 == (1u64 << 32) | arg as u64, "C13: invocation in progress was affected by replace from inside it");
    assert!(n_old.load(SeqCst) == 1 && n_new.load(SeqCst) == 0, "C13: replace from inside a call invoked a closure");
    let r2 = f.call(arg);
    assert!(r2 == (2u64 << 32) | arg as u64, "C13: call after replace-from-inside did not reach the new closure");
    assert!(n_old.load(SeqCst) == 1 && n_new.load(SeqCst) == 1, "C13: installed closure not invoked exactly once per call");
    let r3 = f.call(arg);
    assert!(r3 == 3, "C13: call after nested replace-from-inside did not reach the newest closure");
    kani::cover!(true, "reconfigured-from-inside");
    forget(f);
}

#[derive(Debug)]
struct Probe {
    verdict: u8,
    calls: Arc<AtomicUsize>,
    pid_seen: Arc<AtomicUsize>,
}
impl Filterer for Probe {
    fn check_event(&self, event: &Event, priority: Priority) -> Result<bool, RuntimeError> {
        self.calls.fetch_add(1, SeqCst);
        if let Some(Tag::Process(p)) = event.tags.first() {
            self.pid_seen.store(*p as usize + priority as usize * (1usize << 40), SeqCst);
        }
        match self.verdict {
            0 => Ok(false),
            1 => Ok(true),
            _ => Err(RuntimeError::NoCommands),
        }
    }
}

/// `Config::filterer(f)`: the next `config.filterer.check_event(&ev, prio)` (the call made by
/// `throttle_collect`) reaches `f` exactly once with that event and priority and returns f's
/// verdict; the default filterer passes everything.
#[kani::proof]
#[kani::unwind(4)]
#[kani::stub(std::boxed::Box::write, crate::util::box_write_stub)]
pub fn c13_config_filterer_swap() {
    let pid: u32 = kani::any();
    let verdict: u8 = kani::any();
    kani::assume(verdict < 3);
    let prio = match kani::any::<u8>() % 4 {
        0 => Priority::Low,
        1 => Priority::Normal,
        2 => Priority::High,
        _ => Priority::Urgent,
    };
    let ev = Event { tags: vec![Tag::Process(pid)], metadata: std::collections::HashMap::with_hasher(random_state()) };
    let config = Config::default();
    let r0 = config.filterer.check_event(&ev, prio);
    assert!(matches!(r0, Ok(true)), "C13: default filterer does not pass every event");

    let calls = Arc::new(AtomicUsize::new(0));
    let seen = Arc::new(AtomicUsize::new(usize::MAX));
    let back = config.filterer(Probe { verdict, calls: calls.clone(), pid_seen: seen.clone() });
    assert!(std::ptr::eq(back, &config), "C13: setter does not return the same Config");
    assert!(calls.load(SeqCst) == 0, "C13: installing a filterer invoked it");
    let r = config.filterer.check_event(&ev, prio);
    assert!(calls.load(SeqCst) == 1, "C13: installed filterer not consulted exactly once");
    assert!(seen.load(SeqCst) == pid as usize + prio as usize * (1usize << 40), "C13: filterer saw a different event or priority");
    match verdict {
        0 => assert!(matches!(r, Ok(false)), "C13: filterer verdict not returned"),
        1 => assert!(matches!(r, Ok(true)), "C13: filterer verdict not returned"),
        _ => assert!(matches!(r, Err(RuntimeError::NoCommands)), "C13: filterer error not returned"),
    }
    kani::cover!(verdict == 0, "rejects");
    kani::cover!(verdict == 2, "errors");
    forget((r0, r, ev, config));
}

fn poll_once<F: Future>(f: Pin<&mut F>) -> Poll<F::Output> {
    let mut cx = Context::from_waker(Waker::noop());
    f.poll(&mut cx)
}

/// The value setters of `Config` store exactly what was given, return the same `Config`, and
/// each wakes a listener that was registered on the change signal before the call
/// (`Notify::notify_waiters`, real tokio); changing the field directly does not (documented).
/// Path-split over the setter; values symbolic.
fn setter_scenario(which: usize) {
    {
        let config = Config::default();
        assert!(config.throttle.get() == Duration::from_millis(50), "C13: default throttle is not 50ms");
        assert!(!config.keyboard_events.get(), "C13: keyboard events on by default");
        assert!(config.file_watcher.get() == Watcher::Native, "C13: default watcher is not Native");
        assert!(config.error_channel_size == 64 && config.event_channel_size == 4096, "C13: default channel sizes");
        let shared = config.clone(); // what the workers hold
        let signal = config_change_signal(&shared);
        let mut listener = Box::pin(signal.notified());
        listener.as_mut().enable();
        assert!(poll_once(listener.as_mut()).is_pending(), "C13: change signal fired before any change");

        let mut expect_signal = true;
        match which {
            0 => {
                let d = any_duration();
                let back = config.throttle(d);
                assert!(std::ptr::eq(back, &config), "C13: setter does not return the same Config");
                assert!(shared.throttle.get() == d, "C13: Config::throttle did not store the duration given");
                kani::cover!(d > Duration::from_secs(1), "throttle");
            }
            1 => {
                let b: bool = kani::any();
                config.keyboard_events(b);
                assert!(shared.keyboard_events.get() == b, "C13: Config::keyboard_events did not store the flag given");
                kani::cover!(b, "keyboard-on");
            }
            2 => {
                let d = any_duration();
                config.file_watcher(Watcher::Poll(d));
                assert!(shared.file_watcher.get() == Watcher::Poll(d), "C13: Config::file_watcher did not store the watcher given");
                kani::cover!(true, "watcher-poll");
            }
            3 => {
                config.file_watcher(Watcher::Poll(Duration::from_secs(1)));
                config.file_watcher(Watcher::Native);
                assert!(shared.file_watcher.get() == Watcher::Native, "C13: Config::file_watcher did not store the watcher given");
                kani::cover!(true, "watcher-native");
            }
            4 => {
                config.on_error(|_| {});
                kani::cover!(true, "on-error");
            }
            _ => {
                // direct field write: stored, but nobody is told until signal_change()
                let d = any_duration();
                config.throttle.replace(d);
                assert!(shared.throttle.get() == d, "C13: Changeable::get is not the last replaced value");
                expect_signal = false;
                kani::cover!(true, "direct-write");
            }
        }
        let woken = poll_once(listener.as_mut()).is_ready();
        assert!(woken == expect_signal, "C13: Config setter did not signal the change to a registered listener");
        if !expect_signal {
            config.signal_change();
            assert!(poll_once(listener.as_mut()).is_ready(), "C13: signal_change did not wake a registered listener");
        }
        forget(listener);
        forget((signal, shared, config));
    }
}

/// One setter per harness (all six in one harness: out of memory at 12 GB, 228 s of symex).
macro_rules! c13_setter {
    ($name:ident, $which:expr) => {
        #[kani::proof]
        #[kani::unwind(4)]
        #[kani::stub(std::boxed::Box::write, crate::util::box_write_stub)]
        pub fn $name() {
            setter_scenario($which);
        }
    };
}
c13_setter!(c13_config_throttle, 0);
c13_setter!(c13_config_keyboard_events, 1);
c13_setter!(c13_config_file_watcher_poll, 2);
c13_setter!(c13_config_file_watcher_native, 3);
c13_setter!(c13_config_on_error, 4);
c13_setter!(c13_config_direct_write_no_signal, 5);

/// `Config::pathset(paths)`: stores one watched path per item, in order, byte-identical.
/// 0..=2 paths of concrete length 2 with symbolic bytes. Byte comparison through
/// `as_encoded_bytes` (std's `Path ==` walks `Components`).
#[kani::proof]
#[kani::unwind(6)]
#[kani::stub(std::boxed::Box::write, crate::util::box_write_stub)]
pub fn c13_config_pathset() {
    split!(3, |n| {
        let b: [u8; 4] = kani::any();
        kani::assume(b[0] != 0 && b[0] < 0x80 && b[1] != 0 && b[1] < 0x80);
        kani::assume(b[2] != 0 && b[2] < 0x80 && b[3] != 0 && b[3] < 0x80);
        let p0 = unsafe { String::from_utf8_unchecked(vec![b[0], b[1]]) };
        let p1 = unsafe { String::from_utf8_unchecked(vec![b[2], b[3]]) };
        let config = Config::default();
        let shared = config.clone();
        assert!(shared.pathset.get().is_empty(), "C13: default pathset not empty");
        let signal = config_change_signal(&shared);
        let mut listener = Box::pin(signal.notified());
        listener.as_mut().enable();
        match n {
            0 => {
                config.pathset(Vec::<String>::new());
            }
            1 => {
                config.pathset([p0]);
            }
            _ => {
                config.pathset([p0, p1]);
            }
        }
        let got = shared.pathset.get();
        assert!(got.len() == n, "C13: Config::pathset did not store one entry per path given");
        let mut i = 0;
        while i < n {
            let bytes = AsRef::<std::path::Path>::as_ref(&got[i]).as_os_str().as_encoded_bytes();
            assert!(bytes.len() == 2 && bytes[0] == b[2 * i] && bytes[1] == b[2 * i + 1], "C13: Config::pathset stored a different path");
            i += 1;
        }
        assert!(poll_once(listener.as_mut()).is_ready(), "C13: Config setter did not signal the change to a registered listener");
        kani::cover!(n == 2, "two-paths");
        kani::cover!(n == 0, "no-paths");
        forget(listener);
        forget((got, signal, shared, config));
        kani::assume(false);
    });
}
