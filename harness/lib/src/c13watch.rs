//! C13 - how the workers learn about configuration changes: the REAL async `ConfigWatched::next`
//! (crates/lib/src/config.rs) over the real `tokio::sync::Notify`, polled by the harness.
//! "After any sequence of run-time configuration changes ... once changes stop the registered set equals
//! the configured set" needs every change to reach the worker loop, which is
//! `loop { config_watch.next().await; apply(config) }`: a change must make the NEXT `next()` resolve if it
//! happened after the previous `next()` resolved - whether or not a `next()` future was alive at that moment.
use std::future::Future;
use std::mem::{forget, ManuallyDrop};
use std::pin::Pin;
use std::task::{Context, Poll, Waker};
use std::time::Duration;

use watchexec::verif::config_watch;
use watchexec::Config;

fn poll_once<F: Future>(f: Pin<&mut F>) -> Poll<F::Output> {
    let mut cx = Context::from_waker(Waker::noop());
    f.poll(&mut cx)
}

/// First `next()` resolves at once (the worker applies the initial configuration); without a change the
/// second stays pending; a change made while that second `next()` is parked resolves it.
#[kani::proof]
#[kani::unwind(4)]
#[kani::stub(std::boxed::Box::write, crate::util::box_write_stub)]
pub fn c13_watch_change_while_parked() {
    let config = Config::default();
    let mut w = config_watch(&config);
    {
        let mut f = ManuallyDrop::new(w.next());
        assert!(poll_once(unsafe { Pin::new_unchecked(&mut *f) }).is_ready(), "C13: the first next() must resolve at once (initial configuration)");
    }
    {
        let mut f = ManuallyDrop::new(w.next());
        assert!(poll_once(unsafe { Pin::new_unchecked(&mut *f) }).is_pending(), "C13: next() resolved although nothing changed");
        let secs: u64 = kani::any();
        config.throttle(Duration::from_secs(secs));
        assert!(poll_once(unsafe { Pin::new_unchecked(&mut *f) }).is_ready(), "C13: a configuration change did not resolve the parked next()");
        kani::cover!(true, "change while parked seen");
    }
    forget(w);
    forget(config);
}

/// The worker is busy applying the configuration (no `next()` future alive) when a change is made: the
/// following `next()` must resolve, otherwise that change is never applied unless another one follows.
#[kani::proof]
#[kani::unwind(4)]
#[kani::stub(std::boxed::Box::write, crate::util::box_write_stub)]
pub fn c13_watch_change_between_nexts() {
    let config = Config::default();
    let mut w = config_watch(&config);
    {
        let mut f = ManuallyDrop::new(w.next());
        assert!(poll_once(unsafe { Pin::new_unchecked(&mut *f) }).is_ready(), "C13: the first next() must resolve at once (initial configuration)");
    }
    // the worker is applying the configuration it has just read; meanwhile:
    let secs: u64 = kani::any();
    config.throttle(Duration::from_secs(secs));
    {
        let mut f = ManuallyDrop::new(w.next());
        let r = poll_once(unsafe { Pin::new_unchecked(&mut *f) });
        kani::cover!(true, "change between two next() calls made");
        assert!(r.is_ready(), "C13: a configuration change made between two next() calls is lost (the worker is never told)");
    }
    forget(w);
    forget(config);
}

/// Two changes made between two `next()` calls are seen by the following call (one wake-up is enough: the
/// worker re-reads the whole configuration), and once changes have stopped the call after that stays pending:
/// no change is lost, none is reported twice.
#[kani::proof]
#[kani::unwind(4)]
#[kani::stub(std::boxed::Box::write, crate::util::box_write_stub)]
pub fn c13_watch_two_changes_then_quiet() {
    let config = Config::default();
    let mut w = config_watch(&config);
    {
        let mut f = ManuallyDrop::new(w.next());
        assert!(poll_once(unsafe { Pin::new_unchecked(&mut *f) }).is_ready(), "C13: the first next() must resolve at once (initial configuration)");
    }
    let secs: u64 = kani::any();
    config.throttle(Duration::from_secs(secs));
    config.keyboard_events(kani::any());
    {
        let mut f = ManuallyDrop::new(w.next());
        assert!(poll_once(unsafe { Pin::new_unchecked(&mut *f) }).is_ready(), "C13: a configuration change made between two next() calls is lost (the worker is never told)");
    }
    {
        let mut f = ManuallyDrop::new(w.next());
        assert!(poll_once(unsafe { Pin::new_unchecked(&mut *f) }).is_pending(), "C13: next() resolved again although nothing changed since the last one");
        kani::cover!(true, "quiet after the changes were seen");
    }
    forget(w);
    forget(config);
}
