use std::path::PathBuf;
use watchexec::paths::common_prefix;

#[kani::proof]
#[kani::unwind(12)]
pub fn c17_probe() {
    let a = PathBuf::from("/a/b");
    let b = PathBuf::from("/a/c");
    let r = common_prefix([&a, &b]);
    assert!(r.is_some());
    assert!(r.unwrap().as_os_str().as_encoded_bytes() == b"/a");
}
