//! C02 — "Priority ordering Low < Normal < High < Urgent used by the queue" and the two
//! predicates `throttle_collect` uses to by-pass the filter: `priority == Priority::Urgent` and
//! `Event::is_empty()` (crates/events/src/event.rs: derived `Ord`/`PartialOrd`/`PartialEq` of
//! `Priority`, `Default`, `Event::{is_empty, is_internal}`).
use std::cmp::Ordering;
use std::collections::HashMap;
use std::mem::forget;

use watchexec_events::{Event, Keyboard, Priority, Source, Tag};
use watchexec_signals::Signal;

use crate::split;
use crate::util::random_state;

const RANKED: [Priority; 4] = [Priority::Low, Priority::Normal, Priority::High, Priority::Urgent];

fn any_priority() -> (usize, Priority) {
    let i: usize = kani::any();
    kani::assume(i < RANKED.len());
    (i, RANKED[i])
}

/// Symbolic pair (and triple) of priorities: the derived order is the documented total order
/// Low < Normal < High < Urgent, Urgent is the maximum, Low the minimum, the default is Normal,
/// `==` is identity. The enumeration is complete (`variant_count`).
#[kani::proof]
#[kani::unwind(6)]
pub fn c02_priority_total_order() {
    assert!(std::mem::variant_count::<Priority>() == RANKED.len(), "C02: Priority has a variant the documented order does not rank");
    let (ia, a) = any_priority();
    let (ib, b) = any_priority();
    let (ic, c) = any_priority();
    assert!(a.cmp(&b) == ia.cmp(&ib), "C02: Priority order is not Low < Normal < High < Urgent");
    assert!(a.partial_cmp(&b) == Some(ia.cmp(&ib)), "C02: Priority partial order disagrees with the total order");
    assert!((a < b) == (ia < ib) && (a <= b) == (ia <= ib), "C02: Priority order is not Low < Normal < High < Urgent");
    assert!((a > b) == (ia > ib) && (a >= b) == (ia >= ib), "C02: Priority order is not Low < Normal < High < Urgent");
    assert!((a == b) == (ia == ib), "C02: Priority equality is not identity");
    // total order laws (consequences, stated for the record)
    assert!(a.cmp(&b) == b.cmp(&a).reverse(), "C02: Priority order not antisymmetric");
    assert!(!(a <= b && b <= c) || (a <= c && ia <= ic), "C02: Priority order not transitive");
    assert!(a <= Priority::Urgent, "C02: Urgent is not the maximum priority");
    assert!(a >= Priority::Low, "C02: Low is not the minimum priority");
    assert!((a == Priority::Urgent) == (ia == 3), "C02: Urgent test matches another priority");
    assert!(std::cmp::max(a, b) == RANKED[if ia > ib { ia } else { ib }], "C02: max of priorities is not the higher one");
    assert!(Priority::default() == Priority::Normal, "C02: default priority is not Normal");
    assert!(Priority::Low < Priority::Normal && Priority::Normal < Priority::High && Priority::High < Priority::Urgent,
        "C02: Priority order is not Low < Normal < High < Urgent");
    kani::cover!(a.cmp(&b) == Ordering::Less && b.cmp(&c) == Ordering::Less, "strictly-ascending-triple");
    kani::cover!(a == Priority::Urgent && b == Priority::Low, "urgent-vs-low");
}

const N_TAG: usize = 5;
fn mk_tag(k: usize, pid: u32, sig: i32) -> Tag {
    match k {
        0 => Tag::Process(pid),
        1 => Tag::Source(Source::Filesystem),
        2 => Tag::Source(Source::Internal),
        3 => Tag::Keyboard(Keyboard::Eof),
        _ => Tag::Signal(Signal::Custom(sig)),
    }
}

/// `Event::is_empty()` <=> the event has no tags (metadata does not count), for 0..=2 tags of 5
/// cheap kinds (path-split), payloads symbolic; `is_internal()` <=> some tag is Source(Internal).
#[kani::proof]
#[kani::unwind(34)]
pub fn c02_event_is_empty() {
    split!(1 + N_TAG + N_TAG * N_TAG, |i| {
        let (pid, sig): (u32, i32) = (kani::any(), kani::any());
        let (n, k0, k1) = if i == 0 {
            (0, 0, 0)
        } else if i <= N_TAG {
            (1, i - 1, 0)
        } else {
            (2, (i - 1 - N_TAG) / N_TAG, (i - 1 - N_TAG) % N_TAG)
        };
        let tags = match n {
            0 => vec![],
            1 => vec![mk_tag(k0, pid, sig)],
            _ => vec![mk_tag(k0, pid, sig), mk_tag(k1, pid, sig)],
        };
        let ev = Event { tags, metadata: HashMap::with_hasher(random_state()) };
        assert!(ev.is_empty() == (n == 0), "C02: Event::is_empty is not 'has no tags'");
        let internal = (n >= 1 && k0 == 2) || (n == 2 && k1 == 2);
        assert!(ev.is_internal() == internal, "C02: Event::is_internal is not 'has a Source(Internal) tag'");
        kani::cover!(n == 0, "no-tags");
        kani::cover!(n == 2 && internal, "two-tags-internal");
        forget(ev);
        kani::assume(false);
    });
}
