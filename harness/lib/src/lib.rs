//! Harness group `lib`: synchronous seams of the real `watchexec` crate.
//!
//! * C15: `ErrorHook::{new, critical, elevate, handle_crit}` driven exactly as the body of
//!   `error_hook` drives them, with the real `ChangeableFn<ErrorHook, ()>` as the handler.
//! * C13: `Changeable` / `ChangeableFn` / `ChangeableFilterer` / `Config` setters.
//! * C02: `Priority` order, `Event::is_empty`.
//! * `c17.rs`: the C17 measurement (not registered; kept as the measurement's source).
//!
//! Real `tokio` (only `Notify::{new, notify_waiters}` is executed); `tracing` is cut to no-ops by
//! `[patch.crates-io]` (models under /verif/models). Nothing asynchronous is polled.
#![cfg(kani)]
#![feature(variant_count)]
#![feature(allocator_api)]
#![allow(clippy::all)]

pub mod util;
pub mod c02;
pub mod c13;
pub mod c13watch;
pub mod c15;
pub mod c17;
pub mod probe;

pub use c02::*;
pub use c13::*;
pub use c13watch::*;
pub use c15::*;
pub use c17::*;

mod playback {
    #[allow(unused_imports)]
    use super::*;
    include!("playback.rs");
}
