//! Harness group `lib`: C17 (path summaries) over the real `watchexec` crate (real dependencies;
//! nothing asynchronous is reachable from these harnesses).
#![cfg(kani)]
#![allow(clippy::all)]

pub mod c17;
pub use c17::*;

mod playback {
    #[allow(unused_imports)]
    use super::*;
    include!("playback.rs");
}
