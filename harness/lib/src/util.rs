//! Standing stubs and helpers shared by the harnesses of this group.
use std::any::Any;
use std::panic::UnwindSafe;

/// Kani ICE work-around (intrinsics.rs:243): any reachable thread-local destructor drags in
/// `catch_unwind`; under Kani's panic=abort semantics `Ok(f())` is exact.
pub fn catch_unwind_stub<F: FnOnce() -> R + UnwindSafe, R>(f: F) -> Result<R, Box<dyn Any + Send>> {
    Ok(f())
}

/// `RandomState::new` reads OS randomness through a thread-local (FFI, unsupported); no key is
/// ever hashed by these harnesses (the metadata maps stay empty).
pub fn random_state() -> std::hash::RandomState {
    unsafe { std::mem::transmute::<(u64, u64), std::hash::RandomState>((0, 0)) }
}

/// Solver-chosen value in 0..n that is a *constant* on each explored path (see
/// /verif/harness/supervisor/src/util.rs and DESIGN.md section 2): dispatch through equality
/// tests, run the body inside the matching branch.
#[macro_export]
macro_rules! split {
    ($n:expr, |$v:ident| $body:block) => {{
        let __c: usize = kani::any();
        kani::assume(__c < $n);
        let mut __i = 0usize;
        while __i < $n {
            if __c == __i {
                let $v: usize = __i;
                $body
            }
            __i += 1;
        }
    }};
}

/// Environment stub for `Box::<MaybeUninit<T>>::write` (used by `Arc::<T>::default()`): same
/// effect, but the value is stored with a typed `ptr::write` instead of through the
/// `MaybeUninit` *union*. CBMC cannot fold reads of values written through a union, so after the
/// real `Box::write` every field of the `ArcInner` (the `Once` state of the `OnceLock`, the
/// reference counts) reads back symbolic and every drop path is explored (measured:
/// `drop(Arc::<OnceLock<CriticalError>>::default())` did not finish symex in 120 s; `Arc::new`
/// of the same value: seconds).
pub fn box_write_stub<T, A: std::alloc::Allocator>(
    boxed: Box<std::mem::MaybeUninit<T>, A>,
    value: T,
) -> Box<T, A> {
    let (raw, alloc) = Box::into_raw_with_allocator(boxed);
    let p = raw.cast::<T>();
    unsafe {
        p.write(value);
        Box::from_raw_in(p, alloc)
    }
}
