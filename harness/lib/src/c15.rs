//! C15 — "every runtime error is passed to the error handler exactly once; if the handler
//! elevates the error or raises a critical one, the main task ends with that critical error".
//!
//! Seam: the loop body of `error_hook` (crates/lib/src/watchexec.rs), which is
//!
//! ```ignore
//! let payload = ErrorHook::new(err);
//! let crit = payload.critical.clone();
//! handler.call(payload);
//! ErrorHook::handle_crit(crit)?;
//! ```
//!
//! `run_body` below is that text over the REAL `ErrorHook::{new, handle_crit, critical, elevate}`,
//! the REAL `ChangeableFn<ErrorHook, ()>::{replace, call}` and real `Arc<OnceLock<_>>`; the
//! surrounding `while let Some(err) = errors.recv().await` (an async fn over a real tokio mpsc
//! receiver) is not executed. The `?` is represented by returning the `Result`.
//!
//! Path-split: handler behaviour x runtime-error variant. Symbolic: the payload data of the
//! variants (signal number over i32, string bytes).
use std::mem::forget;
use std::sync::atomic::{AtomicBool, AtomicUsize, Ordering::SeqCst};
use std::sync::atomic::AtomicPtr;
use std::sync::Arc;

use tokio::sync::mpsc::error::SendError;
use watchexec::changeable::ChangeableFn;
use watchexec::error::{CriticalError, KeyboardWatcherError, RuntimeError};
use watchexec::verif::{hook_crit_cell, hook_handle_crit, hook_new};
use watchexec::ErrorHook;
use watchexec_signals::Signal;

use crate::split;

/// Symbolic payload data shared by construction and comparison.
#[derive(Clone, Copy)]
pub struct Sym {
    pub sig_kind: u8,
    pub sig_n: i32,
    pub bytes: [u8; 3],
}

impl Sym {
    pub fn any() -> Self {
        let s = Sym { sig_kind: kani::any(), sig_n: kani::any(), bytes: kani::any() };
        kani::assume(s.sig_kind < 4);
        kani::assume(s.bytes[0] < 0x80 && s.bytes[1] < 0x80 && s.bytes[2] < 0x80);
        s
    }
    fn signal(&self) -> Signal {
        match self.sig_kind {
            0 => Signal::Hangup,
            1 => Signal::Interrupt,
            2 => Signal::Terminate,
            _ => Signal::Custom(self.sig_n),
        }
    }
    fn string(&self) -> String {
        // concrete length, symbolic ASCII bytes
        unsafe { String::from_utf8_unchecked(vec![self.bytes[0], self.bytes[1], self.bytes[2]]) }
    }
    fn is_string(&self, s: &String) -> bool {
        let b = s.as_bytes();
        b.len() == 3 && b[0] == self.bytes[0] && b[1] == self.bytes[1] && b[2] == self.bytes[2]
    }
}

/// Runtime-error variants without `io::Error` / `notify::Error` / `Box<dyn Error>` payloads.
pub const N_ERR: usize = 8;
const CTX: &str = "action";

pub fn mk_err(v: usize, s: &Sym) -> RuntimeError {
    match v {
        0 => RuntimeError::NoCommands,
        1 => RuntimeError::ProcessDeadOnArrival,
        2 => RuntimeError::CommandShellEmptyCommand,
        3 => RuntimeError::KeyboardWatcher { err: KeyboardWatcherError::StdinShutdown },
        4 => RuntimeError::UnsupportedSignal(s.signal()),
        5 => RuntimeError::HandlerLockHeld(CTX),
        6 => RuntimeError::InternalSupervisor(s.string()),
        7 => RuntimeError::Handler { ctx: CTX, err: s.string() },
        _ => RuntimeError::External(Box::new(Marker(s.bytes[0]))),
    }
}

/// Payload of the `External` variant (variant 8): a harness-defined error carrying one symbolic byte.
#[derive(Debug)]
pub struct Marker(pub u8);
impl std::fmt::Display for Marker {
    fn fmt(&self, _: &mut std::fmt::Formatter<'_>) -> std::fmt::Result {
        Ok(())
    }
}
impl std::error::Error for Marker {}

fn same_static(a: &'static str, b: &'static str) -> bool {
    a.as_ptr() == b.as_ptr() && a.len() == b.len()
}

/// Is `e` the runtime error `mk_err(v, s)` (variant and payload)?
pub fn same_err(v: usize, s: &Sym, e: &RuntimeError) -> bool {
    match (v, e) {
        (0, RuntimeError::NoCommands) => true,
        (1, RuntimeError::ProcessDeadOnArrival) => true,
        (2, RuntimeError::CommandShellEmptyCommand) => true,
        (3, RuntimeError::KeyboardWatcher { err: KeyboardWatcherError::StdinShutdown }) => true,
        (4, RuntimeError::UnsupportedSignal(sig)) => *sig == s.signal(),
        (5, RuntimeError::HandlerLockHeld(ctx)) => same_static(ctx, CTX),
        (6, RuntimeError::InternalSupervisor(m)) => s.is_string(m),
        (7, RuntimeError::Handler { ctx, err }) => same_static(ctx, CTX) && s.is_string(err),
        // the box is the one that was given: same address-independent content (the marker byte),
        // read through the concrete type the harness put in
        (8, RuntimeError::External(b)) => {
            let raw: *const (dyn std::error::Error + Send + Sync) = &**b;
            unsafe { (*(raw as *const Marker)).0 == s.bytes[0] }
        }
        _ => false,
    }
}

/// What the installed error handler does with the hook it is given.
pub const N_BEH: usize = 7;
pub const IGNORE: usize = 0; // drops the hook
pub const ELEVATE: usize = 1; // hook.elevate()
pub const CRIT_EXIT: usize = 2; // hook.critical(CriticalError::Exit)
pub const CRIT_SEND: usize = 3; // hook.critical(CriticalError::ErrorChannelSend(..))
pub const MOVE_CRIT: usize = 4; // moves the hook elsewhere first, takes it back, .critical(Exit)
pub const KEEP: usize = 5; // keeps the hook alive past the call (outstanding ref)
pub const KEEP_LATE: usize = 6; // keeps it, and raises a critical error on it *after* the body

/// Observations made by the handler.
pub struct Obs {
    pub calls: Arc<AtomicUsize>,
    pub saw_given: Arc<AtomicBool>,
    pub kept: Arc<AtomicPtr<ErrorHook>>,
}

/// Keep the hook alive somewhere else (boxed, pointer parked in an atomic; a
/// `Mutex<Option<ErrorHook>>` round trip made the hook read back symbolic and CBMC explored the
/// drop of every `RuntimeError` variant on garbage: out of memory at 12 GB).
fn park(slot: &AtomicPtr<ErrorHook>, hook: ErrorHook) {
    let old = slot.swap(Box::into_raw(Box::new(hook)), SeqCst);
    assert!(old.is_null(), "C15: harness: slot already taken");
}
fn unpark(slot: &AtomicPtr<ErrorHook>) -> Option<ErrorHook> {
    let p = slot.swap(std::ptr::null_mut(), SeqCst);
    if p.is_null() {
        None
    } else {
        Some(*unsafe { Box::from_raw(p) })
    }
}

pub fn install(handler: &ChangeableFn<ErrorHook, ()>, beh: usize, v: usize, s: Sym) -> Obs {
    let obs = Obs {
        calls: Arc::new(AtomicUsize::new(0)),
        saw_given: Arc::new(AtomicBool::new(false)),
        kept: Arc::new(AtomicPtr::new(std::ptr::null_mut())),
    };
    let (calls, saw, kept) = (obs.calls.clone(), obs.saw_given.clone(), obs.kept.clone());
    handler.replace(move |hook: ErrorHook| {
        calls.fetch_add(1, SeqCst);
        if same_err(v, &s, &hook.error) {
            saw.store(true, SeqCst);
        }
        match beh {
            IGNORE => drop(hook),
            ELEVATE => hook.elevate(),
            CRIT_EXIT => hook.critical(CriticalError::Exit),
            CRIT_SEND => hook.critical(CriticalError::ErrorChannelSend(SendError(
                RuntimeError::CommandShellEmptyShell,
            ))),
            MOVE_CRIT => {
                park(&kept, hook);
                let back = unpark(&kept).unwrap();
                back.critical(CriticalError::Exit);
            }
            _ => park(&kept, hook),
        }
    });
    obs
}

/// The loop body of `error_hook`, verbatim (private items through the cfg(kani) wrappers).
pub fn run_body(err: RuntimeError, handler: &ChangeableFn<ErrorHook, ()>) -> Result<(), CriticalError> {
    let payload = hook_new(err);
    let crit = hook_crit_cell(&payload);
    handler.call(payload);
    hook_handle_crit(crit)
}

fn scenario(beh: usize, v: usize) {
    let s = Sym::any();
    let handler: ChangeableFn<ErrorHook, ()> = ChangeableFn::default();
    let obs = install(&handler, beh, v, s);

    let r = run_body(mk_err(v, &s), &handler);

    assert!(obs.calls.load(SeqCst) == 1, "C15: runtime error not passed to the error handler exactly once");
    assert!(obs.saw_given.load(SeqCst), "C15: error handler was given a different runtime error");
    match beh {
        IGNORE => {
            assert!(matches!(r, Ok(())), "C15: a runtime error the handler ignored ended the main task");
            kani::cover!(true, "ignore");
        }
        ELEVATE => {
            match &r {
                Err(CriticalError::Elevated { err, help }) => {
                    assert!(same_err(v, &s, err), "C15: elevated critical error does not carry the runtime error given");
                    // no RuntimeError variant has a `#[diagnostic(help)]`
                    assert!(help.is_none(), "C15: elevated error has help text out of nowhere");
                }
                _ => assert!(false, "C15: elevate() did not end the main task with Elevated"),
            }
            kani::cover!(true, "elevate");
        }
        CRIT_EXIT | MOVE_CRIT => {
            assert!(matches!(r, Err(CriticalError::Exit)), "C15: critical(Exit) did not end the main task with Exit");
            kani::cover!(beh == CRIT_EXIT, "critical-exit");
            kani::cover!(beh == MOVE_CRIT, "moved-then-critical");
        }
        CRIT_SEND => {
            assert!(
                matches!(r, Err(CriticalError::ErrorChannelSend(SendError(RuntimeError::CommandShellEmptyShell)))),
                "C15: critical(c) did not end the main task with c"
            );
            kani::cover!(true, "critical-other");
        }
        _ => {
            // Documented in handle_crit: "error handler hook has an outstanding ref" => Ok(()).
            // A hook kept alive past the handler call cannot stop the main task any more.
            assert!(matches!(r, Ok(())), "C15: outstanding hook reference is documented to yield Ok");
            let late = unpark(&obs.kept);
            assert!(late.is_some(), "C15: harness: kept hook missing");
            if let Some(h) = late {
                assert!(same_err(v, &s, &h.error), "C15: kept hook carries a different runtime error");
                if beh == KEEP_LATE {
                    h.critical(CriticalError::Exit); // no panic, no effect on `r`
                } else {
                    forget(h);
                }
            }
            kani::cover!(beh == KEEP, "outstanding-ref");
            kani::cover!(beh == KEEP_LATE, "outstanding-ref-late-critical");
        }
    }
    forget(r);
    forget(handler);
    forget(obs);
}

/// One harness per list of (behaviour, variant) scenarios; one scenario per path.
///
/// Cost (measured): every move of a `CriticalError`/`RuntimeError` (136/104 bytes, nested niche
/// discriminants) is thousands of SSA steps; `OnceLock::set` + `into_inner` move it about ten
/// times: ~15 s of symbolic execution per `ignore` scenario, ~60 s per scenario that sets the
/// cell, plus 50-100 s fixed per harness. Hence the matrix is cut into harnesses of <= 4 costly
/// scenarios. `Box::write` is stubbed (util.rs) - without it nothing here finishes.
macro_rules! c15_matrix {
    ($name:ident, $unwind:expr, [$(($b:expr, $v:expr)),+ $(,)?]) => {
        #[kani::proof]
        #[kani::unwind($unwind)]
        #[kani::stub(std::boxed::Box::write, crate::util::box_write_stub)]
        pub fn $name() {
            const CASES: &[(usize, usize)] = &[$(($b, $v)),+];
            split!(CASES.len(), |i| {
                scenario(CASES[i].0, CASES[i].1);
                kani::assume(false);
            });
        }
    };
}

// Cheap scenarios (the cell is never set): every variant through `ignore`.
c15_matrix!(c15_ignore_a, 6, [(IGNORE, 0), (IGNORE, 4), (IGNORE, 6), (IGNORE, 3)]);
c15_matrix!(c15_ignore_b, 6, [(IGNORE, 1), (IGNORE, 2), (IGNORE, 5), (IGNORE, 7)]);
// Costly scenarios, one per harness (a second one does not fit 12 GB with the end-of-path cover
// witness: the witness trace alone is ~4.7 GB in kani-driver).
c15_matrix!(c15_elevate_no_commands, 3, [(ELEVATE, 0)]);
c15_matrix!(c15_elevate_dead_on_arrival, 3, [(ELEVATE, 1)]);
c15_matrix!(c15_elevate_empty_command, 3, [(ELEVATE, 2)]);
c15_matrix!(c15_elevate_keyboard, 3, [(ELEVATE, 3)]);
c15_matrix!(c15_elevate_signal, 3, [(ELEVATE, 4)]);
c15_matrix!(c15_elevate_lock_held, 3, [(ELEVATE, 5)]);
c15_matrix!(c15_elevate_supervisor, 3, [(ELEVATE, 6)]);
c15_matrix!(c15_elevate_handler, 3, [(ELEVATE, 7)]);
c15_matrix!(c15_elevate_external, 3, [(ELEVATE, 8)]);
c15_matrix!(c15_critical_exit, 3, [(CRIT_EXIT, 6)]);
c15_matrix!(c15_critical_other, 3, [(CRIT_SEND, 4)]);
c15_matrix!(c15_moved_then_critical, 3, [(MOVE_CRIT, 5)]);
c15_matrix!(c15_outstanding_ref, 3, [(KEEP, 7)]);

/// Two runtime errors in a row through one handler (the loop runs the body per error): the first
/// is ignored, the second is elevated; each is handed over exactly once and only the second ends
/// the task. Also: an earlier ignored error leaves nothing behind that affects the next one.
#[kani::proof]
#[kani::unwind(4)]
#[kani::stub(std::boxed::Box::write, crate::util::box_write_stub)]
pub fn c15_two_errors() {
    const VARIANTS: [usize; 1] = [4];
    split!(VARIANTS.len(), |k| {
        let v = VARIANTS[k];
        let s = Sym::any();
        let handler: ChangeableFn<ErrorHook, ()> = ChangeableFn::default();
        let calls = Arc::new(AtomicUsize::new(0));
        let c2 = calls.clone();
        handler.replace(move |hook: ErrorHook| {
            let n = c2.fetch_add(1, SeqCst);
            if n == 0 {
                drop(hook)
            } else {
                hook.elevate()
            }
        });
        let r1 = run_body(RuntimeError::NoCommands, &handler);
        assert!(calls.load(SeqCst) == 1, "C15: runtime error not passed to the error handler exactly once");
        assert!(matches!(r1, Ok(())), "C15: a runtime error the handler ignored ended the main task");
        let r2 = run_body(mk_err(v, &s), &handler);
        assert!(calls.load(SeqCst) == 2, "C15: runtime error not passed to the error handler exactly once");
        match &r2 {
            Err(CriticalError::Elevated { err, .. }) => {
                assert!(same_err(v, &s, err), "C15: elevated critical error does not carry the runtime error given")
            }
            _ => assert!(false, "C15: elevate() did not end the main task with Elevated"),
        }
        kani::cover!(true, "second-elevated");
        forget(r1);
        forget(r2);
        forget(handler);
        kani::assume(false);
    });
}
