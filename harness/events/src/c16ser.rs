//! C16 (f) — the documented field names and values: the real `derive(Serialize)` output of
//! `Tag` (through `SerdeTag`) is captured with a recording `serde::Serializer` (no serde_json):
//! which struct fields are emitted, under which names, in which order, and the spelling of every
//! unit-variant value. This is the serde data model exactly as serde_json would receive it.
use serde::ser::{self, Serialize, SerializeStruct};
use watchexec_events::{Keyboard, Tag};

use crate::gen::*;

/// What was emitted for one field.
#[derive(Clone, Copy, PartialEq, Debug)]
pub enum V {
    None,
    Str(&'static str), // unit variant name
    Text,              // a runtime string (path / full name)
    U64(u64),
    I64(i64),
    Nested, // a nested struct/enum handled by `inner`
}

pub const MAXF: usize = 6;
#[derive(Clone, Copy)]
pub struct Rec {
    pub name: &'static str,
    pub n: usize,
    pub fields: [(&'static str, V); MAXF],
}
impl Rec {
    pub fn new_pub() -> Self {
        Self::new()
    }
    fn new() -> Self {
        Rec { name: "", n: 0, fields: [("", V::None); MAXF] }
    }
    fn push(&mut self, k: &'static str, v: V) {
        assert!(self.n < MAXF, "VERIF-BOUND: recorder full");
        self.fields[self.n] = (k, v);
        self.n += 1;
    }
}

#[derive(Debug)]
pub struct E;
impl std::fmt::Display for E {
    fn fmt(&self, f: &mut std::fmt::Formatter<'_>) -> std::fmt::Result {
        f.write_str("E")
    }
}
impl std::error::Error for E {}
impl ser::Error for E {
    fn custom<T: std::fmt::Display>(_: T) -> Self {
        E
    }
}

/// Serializer for one *value*: returns what it was.
pub struct ValSer;
/// Serializer for the top-level struct.
pub struct TopSer<'a>(pub &'a mut Rec);
pub struct StructRec<'a>(&'a mut Rec);

macro_rules! unsupported {
    ($($f:ident($($t:ty),*) -> $r:ty;)*) => { $(fn $f(self, $(_: $t),*) -> Result<$r, E> { Err(E) })* };
}

impl ser::Serializer for ValSer {
    type Ok = V;
    type Error = E;
    type SerializeSeq = ser::Impossible<V, E>;
    type SerializeTuple = ser::Impossible<V, E>;
    type SerializeTupleStruct = ser::Impossible<V, E>;
    type SerializeTupleVariant = ser::Impossible<V, E>;
    type SerializeMap = ser::Impossible<V, E>;
    type SerializeStruct = ser::Impossible<V, E>;
    type SerializeStructVariant = ser::Impossible<V, E>;
    fn serialize_unit_variant(self, _n: &'static str, _i: u32, variant: &'static str) -> Result<V, E> {
        Ok(V::Str(variant))
    }
    fn serialize_str(self, _v: &str) -> Result<V, E> {
        Ok(V::Text)
    }
    fn serialize_u32(self, v: u32) -> Result<V, E> {
        Ok(V::U64(v as u64))
    }
    fn serialize_u64(self, v: u64) -> Result<V, E> {
        Ok(V::U64(v))
    }
    fn serialize_i32(self, v: i32) -> Result<V, E> {
        Ok(V::I64(v as i64))
    }
    fn serialize_i64(self, v: i64) -> Result<V, E> {
        Ok(V::I64(v))
    }
    fn serialize_some<T: ?Sized + Serialize>(self, v: &T) -> Result<V, E> {
        v.serialize(ValSer)
    }
    fn serialize_none(self) -> Result<V, E> {
        Ok(V::None)
    }
    fn serialize_newtype_struct<T: ?Sized + Serialize>(self, _n: &'static str, v: &T) -> Result<V, E> {
        v.serialize(ValSer)
    }
    fn serialize_newtype_variant<T: ?Sized + Serialize>(self, _n: &'static str, _i: u32, _v: &'static str, v: &T) -> Result<V, E> {
        v.serialize(ValSer)
    }
    unsupported! {
        serialize_bool(bool) -> V; serialize_i8(i8) -> V; serialize_i16(i16) -> V; serialize_u8(u8) -> V; serialize_u16(u16) -> V;
        serialize_f32(f32) -> V; serialize_f64(f64) -> V; serialize_char(char) -> V; serialize_bytes(&[u8]) -> V;
        serialize_unit() -> V; serialize_unit_struct(&'static str) -> V;
        serialize_seq(Option<usize>) -> Self::SerializeSeq; serialize_tuple(usize) -> Self::SerializeTuple;
        serialize_tuple_struct(&'static str, usize) -> Self::SerializeTupleStruct;
        serialize_tuple_variant(&'static str, u32, &'static str, usize) -> Self::SerializeTupleVariant;
        serialize_map(Option<usize>) -> Self::SerializeMap;
        serialize_struct(&'static str, usize) -> Self::SerializeStruct;
        serialize_struct_variant(&'static str, u32, &'static str, usize) -> Self::SerializeStructVariant;
    }
}

impl<'a> ser::Serializer for TopSer<'a> {
    type Ok = ();
    type Error = E;
    type SerializeSeq = ser::Impossible<(), E>;
    type SerializeTuple = ser::Impossible<(), E>;
    type SerializeTupleStruct = ser::Impossible<(), E>;
    type SerializeTupleVariant = ser::Impossible<(), E>;
    type SerializeMap = ser::Impossible<(), E>;
    type SerializeStruct = StructRec<'a>;
    type SerializeStructVariant = ser::Impossible<(), E>;
    fn serialize_struct(self, name: &'static str, _len: usize) -> Result<StructRec<'a>, E> {
        self.0.name = name;
        Ok(StructRec(self.0))
    }
    fn serialize_some<T: ?Sized + Serialize>(self, _v: &T) -> Result<(), E> {
        Err(E)
    }
    fn serialize_newtype_struct<T: ?Sized + Serialize>(self, _n: &'static str, _v: &T) -> Result<(), E> {
        Err(E)
    }
    fn serialize_newtype_variant<T: ?Sized + Serialize>(self, _n: &'static str, _i: u32, _v: &'static str, _x: &T) -> Result<(), E> {
        Err(E)
    }
    unsupported! {
        serialize_bool(bool) -> (); serialize_i8(i8) -> (); serialize_i16(i16) -> (); serialize_i32(i32) -> (); serialize_i64(i64) -> ();
        serialize_u8(u8) -> (); serialize_u16(u16) -> (); serialize_u32(u32) -> (); serialize_u64(u64) -> ();
        serialize_f32(f32) -> (); serialize_f64(f64) -> (); serialize_char(char) -> (); serialize_str(&str) -> (); serialize_bytes(&[u8]) -> ();
        serialize_none() -> (); serialize_unit() -> (); serialize_unit_struct(&'static str) -> ();
        serialize_unit_variant(&'static str, u32, &'static str) -> ();
        serialize_seq(Option<usize>) -> Self::SerializeSeq; serialize_tuple(usize) -> Self::SerializeTuple;
        serialize_tuple_struct(&'static str, usize) -> Self::SerializeTupleStruct;
        serialize_tuple_variant(&'static str, u32, &'static str, usize) -> Self::SerializeTupleVariant;
        serialize_map(Option<usize>) -> Self::SerializeMap;
        serialize_struct_variant(&'static str, u32, &'static str, usize) -> Self::SerializeStructVariant;
    }
}
impl<'a> SerializeStruct for StructRec<'a> {
    type Ok = ();
    type Error = E;
    fn serialize_field<T: ?Sized + Serialize>(&mut self, key: &'static str, value: &T) -> Result<(), E> {
        let v = value.serialize(ValSer)?;
        self.0.push(key, v);
        Ok(())
    }
    fn end(self) -> Result<(), E> {
        Ok(())
    }
}

pub fn s_eq(a: &str, b: &str) -> bool {
    let (a, b) = (a.as_bytes(), b.as_bytes());
    if a.len() != b.len() {
        return false;
    }
    let mut i = 0;
    while i < a.len() {
        if a[i] != b[i] {
            return false;
        }
        i += 1;
    }
    true
}
fn field(r: &Rec, i: usize, name: &str) -> V {
    assert!(i < r.n, "C16: a documented field is missing from the serialised tag");
    assert!(s_eq(r.fields[i].0, name), "C16: serialised field name is not the documented one");
    r.fields[i].1
}
fn is_str(v: V, s: &str) -> bool {
    matches!(v, V::Str(x) if s_eq(x, s))
}

fn record(t: Tag) -> Rec {
    let mut r = Rec::new();
    let res = t.serialize(TopSer(&mut r));
    assert!(res.is_ok(), "C16: tag failed to serialise");
    std::mem::forget(t);
    r
}

#[kani::proof]
#[kani::unwind(14)]
pub fn c16_json_shape_simple_tags() {
    use watchexec_events::{FileType, Source};
    use watchexec_signals::Signal;
    // which tag kind: constant per path (a symbolic `Tag` discriminant would drag the fs-kind
    // `format!` arm of the conversion into every path)
    let c: u8 = kani::any();
    kani::assume(c >= 1 && c < 6);
    let mut k: u8 = 1;
    while k < 6 {
        if c == k {
            simple_tag_shape(k);
            kani::assume(false); // end of path
        }
        k += 1;
    }
}

fn simple_tag_shape(k: u8) {
    use watchexec_events::{FileType, Source};
    use watchexec_signals::Signal;
    match k {
        0 => {
            let ft = any_opt(any_filetype);
            let r = record(Tag::Path { path: any_path(), file_type: ft });
            assert!(is_str(field(&r, 0, "kind"), "path"), "C16: path tag kind value");
            assert!(field(&r, 1, "absolute") == V::Text, "C16: path tag `absolute`");
            match ft {
                None => assert!(r.n == 2, "C16: absent filetype must be omitted"),
                Some(ft) => {
                    let want = match ft {
                        FileType::File => "file",
                        FileType::Dir => "dir",
                        FileType::Symlink => "symlink",
                        FileType::Other => "other",
                    };
                    assert!(r.n == 3 && is_str(field(&r, 2, "filetype"), want), "C16: filetype value");
                }
            }
        }
        1 => {
            let s = any_source();
            let r = record(Tag::Source(s));
            let want = match s {
                Source::Filesystem => "filesystem",
                Source::Keyboard => "keyboard",
                Source::Mouse => "mouse",
                Source::Os => "os",
                Source::Time => "time",
                _ => "internal",
            };
            kani::cover!(true, "source tag");
            assert!(r.n == 2 && is_str(field(&r, 0, "kind"), "source") && is_str(field(&r, 1, "source"), want), "C16: source tag shape");
        }
        2 => {
            let r = record(Tag::Keyboard(Keyboard::Eof));
            assert!(r.n == 2 && is_str(field(&r, 0, "kind"), "keyboard") && is_str(field(&r, 1, "keycode"), "eof"), "C16: keyboard tag shape");
        }
        3 => {
            let pid: u32 = kani::any();
            let r = record(Tag::Process(pid));
            assert!(r.n == 2 && is_str(field(&r, 0, "kind"), "process") && field(&r, 1, "pid") == V::U64(pid as u64), "C16: process tag shape");
        }
        4 => {
            let s = any_signal();
            let r = record(Tag::Signal(s));
            assert!(r.n == 2 && is_str(field(&r, 0, "kind"), "signal"), "C16: signal tag kind");
            let v = field(&r, 1, "signal");
            match s {
                Signal::Hangup => assert!(is_str(v, "SIGHUP"), "C16: signal name"),
                Signal::ForceStop => assert!(is_str(v, "SIGKILL"), "C16: signal name"),
                Signal::Interrupt => assert!(is_str(v, "SIGINT"), "C16: signal name"),
                Signal::Quit => assert!(is_str(v, "SIGQUIT"), "C16: signal name"),
                Signal::Terminate => assert!(is_str(v, "SIGTERM"), "C16: signal name"),
                Signal::User1 => assert!(is_str(v, "SIGUSR1"), "C16: signal name"),
                Signal::User2 => assert!(is_str(v, "SIGUSR2"), "C16: signal name"),
                Signal::Custom(n) => assert!(v == V::I64(n as i64), "C16: custom signal number"),
                _ => {}
            }
        }
        _ => {
            let r = record(Tag::Unknown);
            assert!(r.n == 1 && is_str(field(&r, 0, "kind"), "none"), "C16: unknown tag shape");
        }
    }
}

#[kani::proof]
#[kani::unwind(14)]
pub fn c16_json_shape_path_tag() {
    use watchexec_events::FileType;
    let ft = any_opt(any_filetype);
    let r = record(Tag::Path { path: std::path::PathBuf::from("/a"), file_type: ft });
    assert!(is_str(field(&r, 0, "kind"), "path"), "C16: path tag kind value");
    assert!(field(&r, 1, "absolute") == V::Text, "C16: path tag `absolute`");
    match ft {
        None => assert!(r.n == 2, "C16: absent filetype must be omitted"),
        Some(ft) => {
            let want = match ft {
                FileType::File => "file",
                FileType::Dir => "dir",
                FileType::Symlink => "symlink",
                FileType::Other => "other",
            };
            kani::cover!(true, "filetype present");
            assert!(r.n == 3 && is_str(field(&r, 2, "filetype"), want), "C16: filetype value");
        }
    }
}

#[kani::proof]
#[kani::unwind(14)]
pub fn c16_json_shape_completion() {
    use watchexec_events::ProcessEnd;
    let end = any_opt(any_process_end);
    let r = record(Tag::ProcessCompletion(end));
    assert!(is_str(field(&r, 0, "kind"), "completion"), "C16: completion tag kind value");
    kani::cover!(matches!(end, Some(ProcessEnd::ExitSignal(_))), "exit signal");
    match end {
        None => assert!(r.n == 2 && is_str(field(&r, 1, "disposition"), "unknown"), "C16: unknown completion shape"),
        Some(ProcessEnd::Success) => assert!(r.n == 2 && is_str(field(&r, 1, "disposition"), "success"), "C16: success shape"),
        Some(ProcessEnd::Continued) => assert!(r.n == 2 && is_str(field(&r, 1, "disposition"), "continued"), "C16: continued shape"),
        Some(ProcessEnd::ExitError(c)) => {
            assert!(r.n == 3 && is_str(field(&r, 1, "disposition"), "error") && field(&r, 2, "code") == V::I64(c.get()), "C16: error shape")
        }
        Some(ProcessEnd::ExitStop(c)) => {
            assert!(r.n == 3 && is_str(field(&r, 1, "disposition"), "stop") && field(&r, 2, "code") == V::I64(c.get() as i64), "C16: stop shape")
        }
        Some(ProcessEnd::Exception(c)) => {
            assert!(r.n == 3 && is_str(field(&r, 1, "disposition"), "exception") && field(&r, 2, "code") == V::I64(c.get() as i64), "C16: exception shape")
        }
        Some(ProcessEnd::ExitSignal(_)) => {
            // field order in the struct: signal comes before disposition
            assert!(r.n == 3 && matches!(field(&r, 1, "signal"), V::Str(_) | V::I64(_)) && is_str(field(&r, 2, "disposition"), "signal"), "C16: signal completion shape")
        }
    }
}

/// fs tag: field names and order (`kind`, `simple`, `full`), for one concrete kind (the name in
/// `full` is the subject of the format/parse halves in c16.rs).
#[kani::proof]
#[kani::unwind(34)]
pub fn c16_json_shape_fs_tag() {
    use watchexec_events::filekind::{CreateKind, FileEventKind};
    let r = record(Tag::FileEventKind(FileEventKind::Create(CreateKind::File)));
    assert!(r.n == 3, "C16: fs tag must have exactly kind, simple, full");
    assert!(is_str(field(&r, 0, "kind"), "fs"), "C16: fs tag kind value");
    assert!(is_str(field(&r, 1, "simple"), "create"), "C16: fs tag `simple` value");
    assert!(field(&r, 2, "full") == V::Text, "C16: fs tag `full`");
}

/// The spelling of every unit-variant value of the wire enums.
#[kani::proof]
#[kani::unwind(14)]
pub fn c16_json_values_wire_enums() {
    use watchexec_events::verif::{FsEventKind, ProcessDisposition, TagKind};
    let which: u8 = kani::any();
    kani::assume(which < 3);
    if which == 0 {
        let i: u8 = kani::any();
        kani::assume(i < 5);
        let (v, want) = match i {
            0 => (FsEventKind::Access, "access"),
            1 => (FsEventKind::Create, "create"),
            2 => (FsEventKind::Modify, "modify"),
            3 => (FsEventKind::Remove, "remove"),
            _ => (FsEventKind::Other, "other"),
        };
        assert!(is_str(v.serialize(ValSer).unwrap(), want), "C16: coarse fs kind spelling");
    } else if which == 1 {
        let i: u8 = kani::any();
        kani::assume(i < 8);
        let (v, want) = match i {
            0 => (TagKind::None, "none"),
            1 => (TagKind::Path, "path"),
            2 => (TagKind::Fs, "fs"),
            3 => (TagKind::Source, "source"),
            4 => (TagKind::Keyboard, "keyboard"),
            5 => (TagKind::Process, "process"),
            6 => (TagKind::Signal, "signal"),
            _ => (TagKind::Completion, "completion"),
        };
        kani::cover!(i == 7, "completion kind");
        assert!(is_str(v.serialize(ValSer).unwrap(), want), "C16: tag kind spelling");
    } else {
        let i: u8 = kani::any();
        kani::assume(i < 7);
        let (v, want) = match i {
            0 => (ProcessDisposition::Unknown, "unknown"),
            1 => (ProcessDisposition::Success, "success"),
            2 => (ProcessDisposition::Error, "error"),
            3 => (ProcessDisposition::Signal, "signal"),
            4 => (ProcessDisposition::Stop, "stop"),
            5 => (ProcessDisposition::Exception, "exception"),
            _ => (ProcessDisposition::Continued, "continued"),
        };
        assert!(is_str(v.serialize(ValSer).unwrap(), want), "C16: disposition spelling");
    }
}
