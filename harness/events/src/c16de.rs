//! C16 (g) — parsing a JSON tag object: the real `derive(Deserialize)` of `Tag` (through
//! `SerdeTag`) is driven by a small self-describing `serde::Deserializer` over concrete objects
//! (key/value lists), i.e. exactly what serde_json would feed it. Decides the "missing, extra or
//! contradictory fields" sentence at the level of field *names* and value spellings.
use serde::de::{self, DeserializeSeed, Deserializer, EnumAccess, IntoDeserializer, MapAccess, VariantAccess, Visitor};
use serde::Deserialize;
use watchexec_events::{Keyboard, ProcessEnd, Source, Tag};
use watchexec_signals::Signal;

#[derive(Clone, Copy)]
pub enum J {
    Null,
    Str(&'static str),
    U(u64),
    I(i64),
}

#[derive(Debug)]
pub struct DE;
impl std::fmt::Display for DE {
    fn fmt(&self, f: &mut std::fmt::Formatter<'_>) -> std::fmt::Result {
        f.write_str("DE")
    }
}
impl std::error::Error for DE {}
impl de::Error for DE {
    fn custom<T: std::fmt::Display>(_: T) -> Self {
        DE
    }
}

pub struct Obj {
    pub kv: [(&'static str, J); 5],
    pub n: usize,
}
struct ObjAccess<'a> {
    o: &'a Obj,
    i: usize,
}
pub struct ValDe(J);
struct StrDe(&'static str);

impl<'de, 'a> MapAccess<'de> for ObjAccess<'a> {
    type Error = DE;
    fn next_key_seed<K: DeserializeSeed<'de>>(&mut self, seed: K) -> Result<Option<K::Value>, DE> {
        if self.i >= self.o.n {
            return Ok(None);
        }
        seed.deserialize(StrDe(self.o.kv[self.i].0)).map(Some)
    }
    fn next_value_seed<V: DeserializeSeed<'de>>(&mut self, seed: V) -> Result<V::Value, DE> {
        let v = self.o.kv[self.i].1;
        self.i += 1;
        seed.deserialize(ValDe(v))
    }
}

macro_rules! fwd_any {
    ($($f:ident)*) => { $(fn $f<V: Visitor<'de>>(self, v: V) -> Result<V::Value, DE> { self.deserialize_any(v) })* };
}

impl<'de> Deserializer<'de> for StrDe {
    type Error = DE;
    fn deserialize_any<V: Visitor<'de>>(self, v: V) -> Result<V::Value, DE> {
        v.visit_str(self.0)
    }
    fwd_any! { deserialize_bool deserialize_i8 deserialize_i16 deserialize_i32 deserialize_i64 deserialize_u8 deserialize_u16
        deserialize_u32 deserialize_u64 deserialize_f32 deserialize_f64 deserialize_char deserialize_str deserialize_string
        deserialize_bytes deserialize_byte_buf deserialize_option deserialize_unit deserialize_seq deserialize_map
        deserialize_identifier deserialize_ignored_any }
    fn deserialize_unit_struct<V: Visitor<'de>>(self, _: &'static str, v: V) -> Result<V::Value, DE> {
        self.deserialize_any(v)
    }
    fn deserialize_newtype_struct<V: Visitor<'de>>(self, _: &'static str, v: V) -> Result<V::Value, DE> {
        v.visit_newtype_struct(self)
    }
    fn deserialize_tuple<V: Visitor<'de>>(self, _: usize, v: V) -> Result<V::Value, DE> {
        self.deserialize_any(v)
    }
    fn deserialize_tuple_struct<V: Visitor<'de>>(self, _: &'static str, _: usize, v: V) -> Result<V::Value, DE> {
        self.deserialize_any(v)
    }
    fn deserialize_struct<V: Visitor<'de>>(self, _: &'static str, _: &'static [&'static str], v: V) -> Result<V::Value, DE> {
        self.deserialize_any(v)
    }
    fn deserialize_enum<V: Visitor<'de>>(self, _: &'static str, _: &'static [&'static str], v: V) -> Result<V::Value, DE> {
        v.visit_enum(UnitVariant(self.0))
    }
}

struct UnitVariant(&'static str);
impl<'de> EnumAccess<'de> for UnitVariant {
    type Error = DE;
    type Variant = UnitOnly;
    fn variant_seed<S: DeserializeSeed<'de>>(self, seed: S) -> Result<(S::Value, UnitOnly), DE> {
        seed.deserialize(StrDe(self.0)).map(|v| (v, UnitOnly))
    }
}
struct UnitOnly;
impl<'de> VariantAccess<'de> for UnitOnly {
    type Error = DE;
    fn unit_variant(self) -> Result<(), DE> {
        Ok(())
    }
    fn newtype_variant_seed<T: DeserializeSeed<'de>>(self, _: T) -> Result<T::Value, DE> {
        Err(DE)
    }
    fn tuple_variant<V: Visitor<'de>>(self, _: usize, _: V) -> Result<V::Value, DE> {
        Err(DE)
    }
    fn struct_variant<V: Visitor<'de>>(self, _: &'static [&'static str], _: V) -> Result<V::Value, DE> {
        Err(DE)
    }
}

impl<'de> Deserializer<'de> for ValDe {
    type Error = DE;
    fn deserialize_any<V: Visitor<'de>>(self, v: V) -> Result<V::Value, DE> {
        match self.0 {
            J::Null => v.visit_unit(),
            J::Str(s) => v.visit_str(s),
            J::U(n) => v.visit_u64(n),
            J::I(n) => v.visit_i64(n),
        }
    }
    fn deserialize_option<V: Visitor<'de>>(self, v: V) -> Result<V::Value, DE> {
        match self.0 {
            J::Null => v.visit_none(),
            _ => v.visit_some(self),
        }
    }
    fn deserialize_enum<V: Visitor<'de>>(self, _: &'static str, _: &'static [&'static str], v: V) -> Result<V::Value, DE> {
        match self.0 {
            J::Str(s) => v.visit_enum(UnitVariant(s)),
            _ => Err(DE),
        }
    }
    fn deserialize_newtype_struct<V: Visitor<'de>>(self, _: &'static str, v: V) -> Result<V::Value, DE> {
        v.visit_newtype_struct(self)
    }
    fwd_any! { deserialize_bool deserialize_i8 deserialize_i16 deserialize_i32 deserialize_i64 deserialize_u8 deserialize_u16
        deserialize_u32 deserialize_u64 deserialize_f32 deserialize_f64 deserialize_char deserialize_str deserialize_string
        deserialize_bytes deserialize_byte_buf deserialize_unit deserialize_seq deserialize_map
        deserialize_identifier deserialize_ignored_any }
    fn deserialize_unit_struct<V: Visitor<'de>>(self, _: &'static str, v: V) -> Result<V::Value, DE> {
        self.deserialize_any(v)
    }
    fn deserialize_tuple<V: Visitor<'de>>(self, _: usize, v: V) -> Result<V::Value, DE> {
        self.deserialize_any(v)
    }
    fn deserialize_tuple_struct<V: Visitor<'de>>(self, _: &'static str, _: usize, v: V) -> Result<V::Value, DE> {
        self.deserialize_any(v)
    }
    fn deserialize_struct<V: Visitor<'de>>(self, _: &'static str, _: &'static [&'static str], v: V) -> Result<V::Value, DE> {
        self.deserialize_any(v)
    }
}

pub struct ObjDe<'a>(pub &'a Obj);
impl<'de, 'a> Deserializer<'de> for ObjDe<'a> {
    type Error = DE;
    fn deserialize_any<V: Visitor<'de>>(self, v: V) -> Result<V::Value, DE> {
        v.visit_map(ObjAccess { o: self.0, i: 0 })
    }
    fwd_any! { deserialize_bool deserialize_i8 deserialize_i16 deserialize_i32 deserialize_i64 deserialize_u8 deserialize_u16
        deserialize_u32 deserialize_u64 deserialize_f32 deserialize_f64 deserialize_char deserialize_str deserialize_string
        deserialize_bytes deserialize_byte_buf deserialize_option deserialize_unit deserialize_seq deserialize_map
        deserialize_identifier deserialize_ignored_any }
    fn deserialize_unit_struct<V: Visitor<'de>>(self, _: &'static str, v: V) -> Result<V::Value, DE> {
        self.deserialize_any(v)
    }
    fn deserialize_newtype_struct<V: Visitor<'de>>(self, _: &'static str, v: V) -> Result<V::Value, DE> {
        v.visit_newtype_struct(self)
    }
    fn deserialize_tuple<V: Visitor<'de>>(self, _: usize, v: V) -> Result<V::Value, DE> {
        self.deserialize_any(v)
    }
    fn deserialize_tuple_struct<V: Visitor<'de>>(self, _: &'static str, _: usize, v: V) -> Result<V::Value, DE> {
        self.deserialize_any(v)
    }
    fn deserialize_struct<V: Visitor<'de>>(self, _: &'static str, _: &'static [&'static str], v: V) -> Result<V::Value, DE> {
        self.deserialize_any(v)
    }
    fn deserialize_enum<V: Visitor<'de>>(self, _: &'static str, _: &'static [&'static str], _: V) -> Result<V::Value, DE> {
        Err(DE)
    }
}

fn obj(kv: &[(&'static str, J)]) -> Obj {
    let mut o = Obj { kv: [("", J::Null); 5], n: kv.len() };
    let mut i = 0;
    while i < kv.len() {
        o.kv[i] = kv[i];
        i += 1;
    }
    o
}
fn parse(kv: &[(&'static str, J)]) -> Tag {
    let o = obj(kv);
    match Tag::deserialize(ObjDe(&o)) {
        Ok(t) => t,
        Err(_) => panic!("C16: a JSON tag object of a known kind failed to parse"),
    }
}
fn _unused() {
    let _ = (Keyboard::Eof, Source::Os, "".into_deserializer() as de::value::StrDeserializer<'_, DE>);
}

/// One scenario per path (constant objects; symbolic only where an integer is free).
fn scenario(i: usize) {
    let pid: u32 = kani::any();
    let code: i64 = kani::any();
    match i {
        // well-formed objects with the documented field names, in any order, plus an unknown field
        0 => assert!(matches!(parse(&[("kind", J::Str("process")), ("pid", J::U(pid as u64))]), Tag::Process(p) if p == pid), "C16: process tag not parsed"),
        1 => assert!(matches!(parse(&[("pid", J::U(pid as u64)), ("extra", J::Str("x")), ("kind", J::Str("process"))]), Tag::Process(p) if p == pid), "C16: field order / unknown field changed the result"),
        2 => assert!(matches!(parse(&[("kind", J::Str("source")), ("source", J::Str("filesystem"))]), Tag::Source(Source::Filesystem)), "C16: source tag not parsed"),
        3 => assert!(matches!(parse(&[("kind", J::Str("keyboard")), ("keycode", J::Str("eof"))]), Tag::Keyboard(Keyboard::Eof)), "C16: keyboard tag not parsed"),
        4 => assert!(matches!(parse(&[("kind", J::Str("signal")), ("signal", J::Str("SIGUSR1"))]), Tag::Signal(Signal::User1)), "C16: named signal not parsed"),
        5 => {
            let n: i32 = kani::any();
            assert!(matches!(parse(&[("kind", J::Str("signal")), ("signal", J::I(n as i64))]), Tag::Signal(Signal::Custom(m)) if m == n), "C16: numeric signal not parsed as custom")
        }
        6 => {
            kani::assume(code != 0);
            assert!(matches!(parse(&[("kind", J::Str("completion")), ("disposition", J::Str("error")), ("code", J::I(code))]), Tag::ProcessCompletion(Some(ProcessEnd::ExitError(c))) if c.get() == code), "C16: error completion not parsed")
        }
        7 => assert!(matches!(parse(&[("kind", J::Str("completion")), ("disposition", J::Str("signal")), ("signal", J::Str("SIGTERM"))]), Tag::ProcessCompletion(Some(ProcessEnd::ExitSignal(Signal::Terminate)))), "C16: signal completion not parsed"),
        // known kind, missing or contradictory fields -> explicit Unknown (never an error, never another kind)
        8 => assert!(matches!(parse(&[("kind", J::Str("process"))]), Tag::Unknown), "C16: process tag without pid must be Unknown"),
        9 => assert!(matches!(parse(&[("kind", J::Str("process")), ("source", J::Str("os"))]), Tag::Unknown), "C16: process tag with only a foreign field must be Unknown"),
        10 => assert!(matches!(parse(&[("kind", J::Str("completion")), ("disposition", J::Str("error"))]), Tag::Unknown), "C16: error completion without code must be Unknown"),
        11 => assert!(matches!(parse(&[("kind", J::Str("completion")), ("disposition", J::Str("stop")), ("code", J::I(0))]), Tag::Unknown), "C16: stop completion with code 0 must be Unknown"),
        12 => assert!(matches!(parse(&[("kind", J::Str("completion"))]), Tag::ProcessCompletion(None)), "C16: completion without disposition is an unknown completion"),
        13 => assert!(matches!(parse(&[("kind", J::Str("source")), ("pid", J::U(pid as u64))]), Tag::Unknown), "C16: source tag carrying a pid must be Unknown, not a process tag"),
        14 => assert!(matches!(parse(&[("kind", J::Str("none"))]), Tag::Unknown), "C16: kind none is the unknown tag"),
        _ => assert!(matches!(parse(&[("kind", J::Str("path")), ("filetype", J::Str("dir"))]), Tag::Unknown), "C16: path tag without a path must be Unknown"),
    }
}

macro_rules! de_harness {
    ($name:ident, $lo:expr, $hi:expr) => {
        #[kani::proof]
        #[kani::unwind(14)]
        pub fn $name() {
            let c: usize = kani::any();
            kani::assume(c >= $lo && c < $hi);
            let mut k = $lo;
            while k < $hi {
                if c == k {
                    kani::cover!(k == $hi - 1, "last scenario of the range");
                    scenario(k);
                    kani::assume(false); // end of path
                }
                k += 1;
            }
        }
    };
}
de_harness!(c16_json_parse_wellformed, 0, 8);
de_harness!(c16_json_parse_degraded, 8, 16);
