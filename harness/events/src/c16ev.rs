//! C16 (h) — event level: the tag vector survives Event -> SerdeEvent -> Event (number, order,
//! duplicates), with an empty metadata map.
use std::collections::HashMap;
use std::hash as stdhash;

use watchexec_events::verif::SerdeEvent;
use watchexec_events::{Event, Keyboard, Tag};

/// `RandomState::new` reads OS randomness through a thread-local (FFI, unsupported); no key is
/// ever hashed here (the maps stay empty), so any state will do.
pub fn random_state_stub() -> stdhash::RandomState {
    unsafe { std::mem::transmute::<(u64, u64), stdhash::RandomState>((0, 0)) }
}

fn tag_of(k: u8, pid: u32) -> Tag {
    match k % 3 {
        0 => Tag::Process(pid),
        1 => Tag::Keyboard(Keyboard::Eof),
        _ => Tag::Unknown,
    }
}
fn same(t: &Tag, k: u8, pid: u32) -> bool {
    match (t, k % 3) {
        (Tag::Process(p), 0) => *p == pid,
        (Tag::Keyboard(Keyboard::Eof), 1) => true,
        (Tag::Unknown, 2) => true,
        _ => false,
    }
}

/// Tag kinds per scenario are constants (so that any `Tag == Tag` the code under test may perform
/// folds instead of walking `Path` components symbolically); the pids are symbolic, so adjacent
/// process tags may or may not be equal.
const PATTERNS: [[u8; 3]; 5] = [[1, 1, 0], [0, 0, 1], [2, 1, 1], [0, 1, 0], [2, 2, 2]];

fn scenario(pat: usize, n: usize) {
    let kinds = PATTERNS[pat];
    let pids: [u32; 3] = kani::any();
    let mut tags = Vec::with_capacity(3);
    let mut i = 0;
    while i < n {
        tags.push(tag_of(kinds[i], pids[i]));
        i += 1;
    }
    kani::cover!(n == 3 && pat == 0, "adjacent equal tags");
    kani::cover!(n == 2 && pat == 1 && pids[0] == pids[1], "adjacent process tags with equal pids");
    let ev = Event { tags, metadata: HashMap::with_hasher(random_state_stub()) };
    let wire = SerdeEvent::from(ev);
    assert!(wire.tags().len() == n, "C16: tag count changed on the way to the wire");
    let back = Event::from(wire);
    assert!(back.tags.len() == n, "C16: tag count changed across the event round trip");
    let mut i = 0;
    while i < n {
        assert!(same(&back.tags[i], kinds[i], pids[i]), "C16: tag order or content changed across the event round trip");
        i += 1;
    }
    assert!(back.metadata.is_empty(), "C16: metadata appeared from nowhere");
    std::mem::forget(back);
}

#[kani::proof]
#[kani::unwind(22)]
#[kani::stub(stdhash::RandomState::new, random_state_stub)]
pub fn c16_event_tags_preserved() {
    // (pattern, length) is solver-chosen, constant per path
    let c: usize = kani::any();
    kani::assume(c < 5 * 4);
    let mut k = 0;
    while k < 5 * 4 {
        if c == k {
            scenario(k / 4, k % 4);
            kani::assume(false); // end of path
        }
        k += 1;
    }
}

fn s(b: &[u8]) -> String {
    let mut v = Vec::with_capacity(4);
    let mut i = 0;
    while i < b.len() {
        v.push(b[i]);
        i += 1;
    }
    unsafe { String::from_utf8_unchecked(v) }
}
fn eq(a: &str, b: &[u8]) -> bool {
    let a = a.as_bytes();
    if a.len() != b.len() {
        return false;
    }
    let mut i = 0;
    while i < b.len() {
        if a[i] != b[i] {
            return false;
        }
        i += 1;
    }
    true
}

/// Event level, metadata: a map with one concrete key whose three values are in non-sorted order with a
/// duplicate survives
/// Event -> SerdeEvent -> Event: same keys, same value lists in the same order (nothing sorted,
/// de-duplicated, merged or dropped). The hasher state is fixed (RandomState needs OS randomness);
/// keys and values are concrete so that hashing folds; one value byte is symbolic.
#[kani::proof]
#[kani::unwind(12)]
#[kani::stub(stdhash::RandomState::new, random_state_stub)]
pub fn c16_event_metadata_preserved() {
    let x: u8 = kani::any();
    kani::assume(x >= b'a' && x <= b'z');
    let mut md: HashMap<String, Vec<String>> = HashMap::with_hasher(random_state_stub());
    let mut v1 = Vec::with_capacity(3);
    v1.push(s(&[b'z', x]));
    v1.push(s(b"a"));
    v1.push(s(b"a"));
    md.insert(s(b"k2"), v1);
    let mut tags = Vec::with_capacity(1);
    tags.push(Tag::Keyboard(Keyboard::Eof));
    let ev = Event { tags, metadata: md };
    let wire = SerdeEvent::from(ev);
    let back = Event::from(wire);
    assert!(back.tags.len() == 1, "C16: tag count changed across the event round trip");
    assert!(back.metadata.len() == 1, "C16: metadata keys lost or invented across the event round trip");
    match back.metadata.get("k2") {
        Some(v) => {
            assert!(v.len() == 3, "C16: metadata value list changed length (deduplicated or dropped)");
            if v.len() == 3 {
                assert!(eq(&v[0], &[b'z', x]) && eq(&v[1], b"a") && eq(&v[2], b"a"), "C16: metadata values reordered or altered");
            }
        }
        None => assert!(false, "C16: metadata key lost"),
    }
    kani::cover!(x == b'q', "metadata round trip reached");
    std::mem::forget(back);
}
