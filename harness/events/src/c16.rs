//! C16 — events survive the (serde data-model level of the) JSON round trip.
use watchexec_events::verif::{FsEventKind, ProcessDisposition, SerdeTag, SerdeTagParts, TagKind};
use watchexec_events::{Keyboard, ProcessEnd, Tag};

use crate::gen::*;
use std::fmt as stdfmt;

/// `format!` is not on the data path of the non-fs tag kinds; cut it (listed in evidence).
pub fn no_format(_: std::fmt::Arguments<'_>) -> String {
    String::new()
}

/// Tag equality with paths compared byte-wise (std's `Path == Path` walks `Components`, a
/// parser whose symbolic execution dominates everything else; byte equality is stronger).
pub fn tag_eq(a: &Tag, b: &Tag) -> bool {
    match (a, b) {
        (Tag::Path { path: p, file_type: f }, Tag::Path { path: q, file_type: g }) => {
            p.as_os_str().as_encoded_bytes() == q.as_os_str().as_encoded_bytes() && f == g
        }
        // never fall back to the derived `Tag == Tag`: its Path arm would be symbolically
        // executed even when infeasible
        (Tag::FileEventKind(x), Tag::FileEventKind(y)) => x == y,
        (Tag::Source(x), Tag::Source(y)) => x == y,
        (Tag::Keyboard(x), Tag::Keyboard(y)) => x == y,
        (Tag::Process(x), Tag::Process(y)) => x == y,
        (Tag::Signal(x), Tag::Signal(y)) => x == y,
        (Tag::ProcessCompletion(x), Tag::ProcessCompletion(y)) => x == y,
        (Tag::Unknown, Tag::Unknown) => true,
        _ => false,
    }
}

fn tag_kind_of(t: &Tag) -> u8 {
    match t {
        Tag::Path { .. } => 1,
        Tag::FileEventKind(_) => 2,
        Tag::Source(_) => 3,
        Tag::Keyboard(_) => 4,
        Tag::Process(_) => 5,
        Tag::Signal(_) => 6,
        Tag::ProcessCompletion(_) => 7,
        Tag::Unknown => 0,
        _ => 255,
    }
}

fn wire_kind(k: TagKind) -> u8 {
    match k {
        TagKind::None => 0,
        TagKind::Path => 1,
        TagKind::Fs => 2,
        TagKind::Source => 3,
        TagKind::Keyboard => 4,
        TagKind::Process => 5,
        TagKind::Signal => 6,
        TagKind::Completion => 7,
    }
}

/// (a) Tag -> SerdeTag -> Tag is the identity for every tag kind except FileEventKind,
/// over the full integer ranges of pid / exit codes / custom signal numbers.
#[kani::proof]
#[kani::unwind(8)]
#[kani::stub(stdfmt::format, no_format)]
pub fn c16_tag_roundtrip() {
    let t = any_tag_no_fek();
    let kind = tag_kind_of(&t);
    kani::cover!(kind == 1, "path tag");
    kani::cover!(kind == 7, "completion tag");
    kani::cover!(matches!(t, Tag::ProcessCompletion(Some(ProcessEnd::ExitError(_)))), "exit error tag");
    kani::cover!(matches!(t, Tag::Signal(watchexec_signals::Signal::Custom(_))), "custom signal tag");
    let wire = SerdeTag::from(t.clone());
    let parts = wire.clone().into_parts();
    // documented wire shape: the kind field names the tag kind
    assert!(wire_kind(parts.kind) == kind, "C16: wire kind does not name the tag kind");
    let back = Tag::from(wire);
    assert!(tag_eq(&back, &t), "C16: tag changed across the wire conversion");
}

/// (a') documented field placement per kind (which optional fields are populated).
#[kani::proof]
#[kani::unwind(8)]
#[kani::stub(stdfmt::format, no_format)]
pub fn c16_wire_fields() {
    let t = any_tag_no_fek();
    let p = SerdeTag::from(t.clone()).into_parts();
    match &t {
        Tag::Path { path, file_type } => {
            assert!(p.absolute.as_ref().map(|x| x.as_os_str().as_encoded_bytes()) == Some(path.as_os_str().as_encoded_bytes()), "C16: path tag must carry `absolute`");
            assert!(p.filetype == *file_type, "C16: path tag must carry `filetype`");
        }
        Tag::Source(s) => assert!(p.source == Some(*s), "C16: source tag must carry `source`"),
        Tag::Keyboard(k) => assert!(p.keycode.as_ref() == Some(k), "C16: keyboard tag must carry `keycode`"),
        Tag::Process(pid) => assert!(p.pid == Some(*pid), "C16: process tag must carry `pid`"),
        Tag::Signal(s) => assert!(p.signal == Some(*s), "C16: signal tag must carry `signal`"),
        Tag::ProcessCompletion(None) => {
            assert!(matches!(p.disposition, Some(ProcessDisposition::Unknown)), "C16: unknown completion disposition");
            assert!(p.code.is_none() && p.signal.is_none(), "C16: unknown completion carries no code/signal");
        }
        Tag::ProcessCompletion(Some(end)) => {
            kani::cover!(true, "completion with end");
            match end {
                ProcessEnd::Success => assert!(matches!(p.disposition, Some(ProcessDisposition::Success)) && p.code.is_none(), "C16: success wire form"),
                ProcessEnd::ExitError(c) => assert!(matches!(p.disposition, Some(ProcessDisposition::Error)) && p.code == Some(c.get()), "C16: error wire form"),
                ProcessEnd::ExitSignal(s) => assert!(matches!(p.disposition, Some(ProcessDisposition::Signal)) && p.signal == Some(*s) && p.code.is_none(), "C16: signal wire form"),
                ProcessEnd::ExitStop(c) => assert!(matches!(p.disposition, Some(ProcessDisposition::Stop)) && p.code == Some(i64::from(c.get())), "C16: stop wire form"),
                ProcessEnd::Exception(c) => assert!(matches!(p.disposition, Some(ProcessDisposition::Exception)) && p.code == Some(i64::from(c.get())), "C16: exception wire form"),
                ProcessEnd::Continued => assert!(matches!(p.disposition, Some(ProcessDisposition::Continued)) && p.code.is_none(), "C16: continued wire form"),
            }
        }
        _ => {
            assert!(matches!(p.kind, TagKind::None), "C16: unknown tag wire kind");
        }
    }
    // fields of other kinds stay unset
    if !matches!(t, Tag::Path { .. }) {
        assert!(p.absolute.is_none() && p.filetype.is_none(), "C16: stray path fields");
    }
    if !matches!(t, Tag::Process(_)) {
        assert!(p.pid.is_none(), "C16: stray pid field");
    }
    assert!(p.full.is_none() && p.simple.is_none(), "C16: stray fs fields");
}

fn any_tagkind() -> TagKind {
    let k: u8 = kani::any();
    match k {
        0 => TagKind::None,
        1 => TagKind::Path,
        2 => TagKind::Fs,
        3 => TagKind::Source,
        4 => TagKind::Keyboard,
        5 => TagKind::Process,
        6 => TagKind::Signal,
        _ => TagKind::Completion,
    }
}

fn any_disposition() -> ProcessDisposition {
    let k: u8 = kani::any();
    match k {
        0 => ProcessDisposition::Unknown,
        1 => ProcessDisposition::Success,
        2 => ProcessDisposition::Error,
        3 => ProcessDisposition::Signal,
        4 => ProcessDisposition::Stop,
        5 => ProcessDisposition::Exception,
        _ => ProcessDisposition::Continued,
    }
}

fn any_simple() -> FsEventKind {
    let k: u8 = kani::any();
    match k {
        0 => FsEventKind::Access,
        1 => FsEventKind::Create,
        2 => FsEventKind::Modify,
        3 => FsEventKind::Remove,
        _ => FsEventKind::Other,
    }
}

/// (c) totality: an arbitrary wire object (any kind, any subset of fields present, any
/// integer payloads) converts without panic / UB to a tag of the same kind or to Unknown.
#[kani::proof]
#[kani::unwind(24)]
pub fn c16_wire_totality() {
    let full = {
        let k: u8 = kani::any();
        match k {
            0 => None,
            1 => Some(String::from("Create(File)")),
            2 => Some(String::from("Other")),
            _ => Some(String::from("garbage")),
        }
    };
    let parts = SerdeTagParts {
        kind: any_tagkind(),
        absolute: any_opt(any_path),
        filetype: any_opt(any_filetype),
        simple: any_opt(any_simple),
        full,
        source: any_opt(any_source),
        keycode: any_opt(|| Keyboard::Eof),
        pid: kani::any(),
        signal: any_opt(any_signal),
        disposition: any_opt(any_disposition),
        code: kani::any(),
    };
    let kind = wire_kind(parts.kind);
    let code = parts.code;
    let disp_is_code = matches!(
        parts.disposition,
        Some(ProcessDisposition::Error | ProcessDisposition::Stop | ProcessDisposition::Exception)
    );
    let t = Tag::from(SerdeTag::from_parts(parts));
    let got = tag_kind_of(&t);
    kani::cover!(got == 0 && kind != 0, "known kind degraded to Unknown");
    kani::cover!(got == 7, "completion parsed");
    assert!(got == kind || got == 0, "C16: wire object parsed as a different kind");
    if kind == 7 && disp_is_code && (code.is_none() || code == Some(0)) {
        assert!(got == 0, "C16: completion with missing/zero code must be Unknown");
    }
    match t {
        Tag::ProcessCompletion(Some(ProcessEnd::ExitError(c))) => assert!(c.get() != 0, "C16: zero in NonZero"),
        Tag::ProcessCompletion(Some(ProcessEnd::ExitStop(c))) => assert!(c.get() != 0 && Some(i64::from(c.get())) == code, "C16: stop code mangled"),
        Tag::ProcessCompletion(Some(ProcessEnd::Exception(c))) => assert!(c.get() != 0 && Some(i64::from(c.get())) == code, "C16: exception code mangled"),
        _ => {}
    }
}

/// (b) every filesystem event kind round-trips through its wire name. Decided in two halves
/// that share one table (kind, documented wire name) of all 48 kinds:
///   format half: `SerdeTag::from(Tag::FileEventKind(kind))` carries exactly that name in `full`
///                (real `format!("{kind:?}")`, real core::fmt) and the right coarse class;
///   parse half:  a wire object with `full = name` parses back to exactly that kind.
/// The table index is solver-chosen (constant per path); the composition is the round trip.
use watchexec_events::filekind::*;

pub const N_KINDS: usize = 48;
pub fn kind_table(i: usize) -> (FileEventKind, &'static str) {
    use FileEventKind as K;
    match i {
        0 => (K::Any, "Any"),
        1 => (K::Access(AccessKind::Any), "Access(Any)"),
        2 => (K::Access(AccessKind::Read), "Access(Read)"),
        3 => (K::Access(AccessKind::Open(AccessMode::Any)), "Access(Open(Any))"),
        4 => (K::Access(AccessKind::Open(AccessMode::Execute)), "Access(Open(Execute))"),
        5 => (K::Access(AccessKind::Open(AccessMode::Read)), "Access(Open(Read))"),
        6 => (K::Access(AccessKind::Open(AccessMode::Write)), "Access(Open(Write))"),
        7 => (K::Access(AccessKind::Open(AccessMode::Other)), "Access(Open(Other))"),
        8 => (K::Access(AccessKind::Close(AccessMode::Any)), "Access(Close(Any))"),
        9 => (K::Access(AccessKind::Close(AccessMode::Execute)), "Access(Close(Execute))"),
        10 => (K::Access(AccessKind::Close(AccessMode::Read)), "Access(Close(Read))"),
        11 => (K::Access(AccessKind::Close(AccessMode::Write)), "Access(Close(Write))"),
        12 => (K::Access(AccessKind::Close(AccessMode::Other)), "Access(Close(Other))"),
        13 => (K::Access(AccessKind::Other), "Access(Other)"),
        14 => (K::Create(CreateKind::Any), "Create(Any)"),
        15 => (K::Create(CreateKind::File), "Create(File)"),
        16 => (K::Create(CreateKind::Folder), "Create(Folder)"),
        17 => (K::Create(CreateKind::Other), "Create(Other)"),
        18 => (K::Modify(ModifyKind::Any), "Modify(Any)"),
        19 => (K::Modify(ModifyKind::Data(DataChange::Any)), "Modify(Data(Any))"),
        20 => (K::Modify(ModifyKind::Data(DataChange::Size)), "Modify(Data(Size))"),
        21 => (K::Modify(ModifyKind::Data(DataChange::Content)), "Modify(Data(Content))"),
        22 => (K::Modify(ModifyKind::Data(DataChange::Other)), "Modify(Data(Other))"),
        23 => (K::Modify(ModifyKind::Metadata(MetadataKind::Any)), "Modify(Metadata(Any))"),
        24 => (K::Modify(ModifyKind::Metadata(MetadataKind::AccessTime)), "Modify(Metadata(AccessTime))"),
        25 => (K::Modify(ModifyKind::Metadata(MetadataKind::WriteTime)), "Modify(Metadata(WriteTime))"),
        26 => (K::Modify(ModifyKind::Metadata(MetadataKind::Permissions)), "Modify(Metadata(Permissions))"),
        27 => (K::Modify(ModifyKind::Metadata(MetadataKind::Ownership)), "Modify(Metadata(Ownership))"),
        28 => (K::Modify(ModifyKind::Metadata(MetadataKind::Extended)), "Modify(Metadata(Extended))"),
        29 => (K::Modify(ModifyKind::Metadata(MetadataKind::Other)), "Modify(Metadata(Other))"),
        30 => (K::Modify(ModifyKind::Name(RenameMode::Any)), "Modify(Name(Any))"),
        31 => (K::Modify(ModifyKind::Name(RenameMode::To)), "Modify(Name(To))"),
        32 => (K::Modify(ModifyKind::Name(RenameMode::From)), "Modify(Name(From))"),
        33 => (K::Modify(ModifyKind::Name(RenameMode::Both)), "Modify(Name(Both))"),
        34 => (K::Modify(ModifyKind::Name(RenameMode::Other)), "Modify(Name(Other))"),
        35 => (K::Modify(ModifyKind::Other), "Modify(Other)"),
        36 => (K::Remove(RemoveKind::Any), "Remove(Any)"),
        37 => (K::Remove(RemoveKind::File), "Remove(File)"),
        38 => (K::Remove(RemoveKind::Folder), "Remove(Folder)"),
        39 => (K::Remove(RemoveKind::Other), "Remove(Other)"),
        _ => (K::Other, "Other"),
    }
}
// 41 distinct kinds: the notify enumeration (Any, Access x13, Create x4, Modify x18, Remove x4, Other)
pub const N_TABLE: usize = 41;

fn class_of(k: FileEventKind) -> u8 {
    match k {
        FileEventKind::Access(_) => 0,
        FileEventKind::Create(_) => 1,
        FileEventKind::Modify(_) => 2,
        FileEventKind::Remove(_) => 3,
        _ => 4,
    }
}
fn class_of_simple(k: FsEventKind) -> u8 {
    match k {
        FsEventKind::Access => 0,
        FsEventKind::Create => 1,
        FsEventKind::Modify => 2,
        FsEventKind::Remove => 3,
        FsEventKind::Other => 4,
    }
}

fn str_eq(a: &str, b: &str) -> bool {
    let (a, b) = (a.as_bytes(), b.as_bytes());
    if a.len() != b.len() {
        return false;
    }
    let mut i = 0;
    while i < a.len() {
        if a[i] != b[i] {
            return false;
        }
        i += 1;
    }
    true
}

fn format_half(lo: usize, hi: usize) {
    let c: usize = kani::any();
    kani::assume(c >= lo && c < hi);
    let mut i = lo;
    while i < hi {
        if c == i {
            let (kind, name) = kind_table(i);
            let p = SerdeTag::from(Tag::FileEventKind(kind)).into_parts();
            assert!(matches!(p.kind, TagKind::Fs), "C16: fs tag wire kind");
            kani::cover!(i == hi - 1, "last kind of the range");
            match (&p.full, p.simple) {
                (Some(full), Some(simple)) => {
                    assert!(str_eq(full, name), "C16: fs kind wire name is not the documented one");
                    assert!(class_of_simple(simple) == class_of(kind), "C16: coarse fs class disagrees with the kind");
                }
                _ => panic!("C16: fs tag must carry `full` and `simple`"),
            }
            std::mem::forget(p);
            kani::assume(false); // end of path
        }
        i += 1;
    }
}

fn parse_half(lo: usize, hi: usize) {
    let c: usize = kani::any();
    kani::assume(c >= lo && c < hi);
    let mut i = lo;
    while i < hi {
        if c == i {
            let (kind, name) = kind_table(i);
            // `simple` is either consistent, absent or contradictory: `full` must win
            let simple = any_opt(any_simple);
            let parts = SerdeTagParts { kind: TagKind::Fs, full: Some(String::from(name)), simple, ..Default::default() };
            kani::cover!(i == hi - 1, "last kind of the range");
            match Tag::from(SerdeTag::from_parts(parts)) {
                Tag::FileEventKind(back) => assert!(back == kind, "C16: fs kind wire name parsed to a different kind"),
                _ => panic!("C16: fs tag parsed as another tag kind"),
            }
            kani::assume(false); // end of path
        }
        i += 1;
    }
}

macro_rules! fs_range {
    ($f:ident, $p:ident, $lo:expr, $hi:expr) => {
        #[kani::proof]
        #[kani::unwind(34)]
        pub fn $f() {
            format_half($lo, $hi);
        }
        #[kani::proof]
        #[kani::unwind(34)]
        pub fn $p() {
            parse_half($lo, $hi);
        }
    };
}
fs_range!(c16_fs_format_0, c16_fs_parse_0, 0, 7);
fs_range!(c16_fs_format_1, c16_fs_parse_1, 7, 14);
fs_range!(c16_fs_format_2, c16_fs_parse_2, 14, 21);
fs_range!(c16_fs_format_3, c16_fs_parse_3, 21, 28);
fs_range!(c16_fs_format_4, c16_fs_parse_4, 28, 35);
fs_range!(c16_fs_format_5, c16_fs_parse_5, 35, 41);

/// (b') the coarse-only form (`simple` without `full`) parses to the generic kind of that class.
#[kani::proof]
#[kani::unwind(8)]
pub fn c16_fs_simple_only() {
    use watchexec_events::filekind::*;
    let simple = any_simple();
    let parts = SerdeTagParts { kind: TagKind::Fs, simple: Some(simple), ..Default::default() };
    let t = Tag::from(SerdeTag::from_parts(parts));
    let want = match simple {
        FsEventKind::Access => FileEventKind::Access(AccessKind::Any),
        FsEventKind::Create => FileEventKind::Create(CreateKind::Any),
        FsEventKind::Modify => FileEventKind::Modify(ModifyKind::Any),
        FsEventKind::Remove => FileEventKind::Remove(RemoveKind::Any),
        FsEventKind::Other => FileEventKind::Other,
    };
    kani::cover!(matches!(simple, FsEventKind::Remove), "remove");
    assert!(matches!(t, Tag::FileEventKind(k) if k == want), "C16: coarse fs kind parsed wrongly");
}

/// (e) signals on the wire: Signal -> SerdeSignal -> Signal is the identity for every first-class
/// signal and every Custom(n), first-class signals use their documented names (never a bare
/// number) and custom ones a number.
#[kani::proof]
pub fn c16_signal_wire_roundtrip() {
    use watchexec_signals::verif::{NamedSignal, SerdeSignal};
    use watchexec_signals::Signal;
    let s = any_signal();
    let wire = SerdeSignal::from(s);
    kani::cover!(matches!(wire, SerdeSignal::Number(_)), "numeric wire form");
    kani::cover!(matches!(wire, SerdeSignal::Named(NamedSignal::User2)), "named wire form");
    match (s, wire) {
        (Signal::Custom(n), SerdeSignal::Number(m)) => assert!(n == m, "C16: custom signal number changed on the wire"),
        (Signal::Custom(_), SerdeSignal::Named(_)) => panic!("C16: custom signal written as a name"),
        (_, SerdeSignal::Number(_)) => panic!("C16: first-class signal written as a number"),
        (Signal::Hangup, SerdeSignal::Named(NamedSignal::Hangup))
        | (Signal::ForceStop, SerdeSignal::Named(NamedSignal::ForceStop))
        | (Signal::Interrupt, SerdeSignal::Named(NamedSignal::Interrupt))
        | (Signal::Quit, SerdeSignal::Named(NamedSignal::Quit))
        | (Signal::Terminate, SerdeSignal::Named(NamedSignal::Terminate))
        | (Signal::User1, SerdeSignal::Named(NamedSignal::User1))
        | (Signal::User2, SerdeSignal::Named(NamedSignal::User2)) => {}
        _ => panic!("C16: first-class signal written under another signal's name"),
    }
    assert!(Signal::from(wire) == s, "C16: signal changed across the wire conversion");
}

/// and the reverse direction, from an arbitrary wire value
#[kani::proof]
pub fn c16_signal_wire_parse() {
    use watchexec_signals::verif::{NamedSignal, SerdeSignal};
    use watchexec_signals::Signal;
    let k: u8 = kani::any();
    let wire = match k {
        0 => SerdeSignal::Named(NamedSignal::Hangup),
        1 => SerdeSignal::Named(NamedSignal::ForceStop),
        2 => SerdeSignal::Named(NamedSignal::Interrupt),
        3 => SerdeSignal::Named(NamedSignal::Quit),
        4 => SerdeSignal::Named(NamedSignal::Terminate),
        5 => SerdeSignal::Named(NamedSignal::User1),
        6 => SerdeSignal::Named(NamedSignal::User2),
        _ => SerdeSignal::Number(kani::any()),
    };
    let s = Signal::from(wire);
    kani::cover!(matches!(s, Signal::Custom(_)), "custom");
    let back = SerdeSignal::from(s);
    match (wire, back) {
        (SerdeSignal::Number(a), SerdeSignal::Number(b)) => assert!(a == b, "C16: wire number not preserved"),
        (SerdeSignal::Named(a), SerdeSignal::Named(b)) => assert!(a as u8 == b as u8, "C16: wire name not preserved"),
        _ => panic!("C16: wire form of a signal changed class"),
    }
}

/// The coarse class written to `simple` agrees with the kind, for all 41 kinds (no formatting
/// involved, so this runs in the quick tier for the whole table).
#[kani::proof]
#[kani::unwind(4)]
pub fn c16_fs_simple_class_all_kinds() {
    let i: usize = kani::any();
    kani::assume(i < N_TABLE);
    let (kind, _) = kind_table(i);
    kani::cover!(i == 11, "Access(Close(Write))");
    assert!(class_of_simple(FsEventKind::from(kind)) == class_of(kind), "C16: coarse fs class disagrees with the kind");
}
