//! Harness group `events`: C16 (serde data-model round trip) and C19 (signals / exit statuses).
#![cfg(kani)]
#![allow(clippy::all)]

pub mod gen;
pub mod c16;
pub mod c16de;
pub mod c16ev;
pub mod c16evjson;
pub mod c16ser;
pub mod c19;

pub use c16::*;
pub use c16de::*;
pub use c16ev::*;
pub use c16evjson::*;
pub use c16ser::*;
pub use c19::*;

mod playback {
    #[allow(unused_imports)]
    use super::*;
    include!("playback.rs");
}
