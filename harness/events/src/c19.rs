//! C19 — signal numbers and exit statuses convert consistently (numeric legs).
use std::os::unix::process::ExitStatusExt;
use std::process::ExitStatus;

use nix::sys::signal::Signal as NixSignal;
use watchexec_events::ProcessEnd;
use watchexec_signals::Signal;

use crate::gen::any_signal;

/// First-class signals map to their POSIX numbers, and `From<i32>` agrees with `to_nix`.
#[kani::proof]
pub fn c19_from_i32_vs_to_nix() {
    let n: i32 = kani::any();
    let s = Signal::from(n);
    kani::cover!(matches!(s, Signal::Custom(_)), "custom");
    kani::cover!(matches!(s, Signal::User2), "first-class");
    match s.to_nix() {
        Some(nx) => assert!(nx as i32 == n, "C19: from(i32) then to_nix changed the number"),
        None => assert!(!(1..=31).contains(&n), "C19: valid signal number has no OS signal"),
    }
    // POSIX numbers of the first-class signals (Linux)
    let expect = match s {
        Signal::Hangup => Some(1),
        Signal::Interrupt => Some(2),
        Signal::Quit => Some(3),
        Signal::ForceStop => Some(9),
        Signal::User1 => Some(10),
        Signal::User2 => Some(12),
        Signal::Terminate => Some(15),
        _ => None,
    };
    if let Some(e) = expect {
        assert!(n == e, "C19: first-class signal has wrong POSIX number");
    } else {
        assert!(![1, 2, 3, 9, 10, 12, 15].contains(&n), "C19: POSIX number not mapped to first-class signal");
    }
}

/// to_nix / from_nix: identity on the OS signal; first-class names are canonical.
#[kani::proof]
pub fn c19_nix_roundtrip() {
    let s = any_signal();
    if let Some(nx) = s.to_nix() {
        let back = Signal::from_nix(nx);
        kani::cover!(matches!(back, Signal::Custom(_)), "custom roundtrip");
        assert!(back.to_nix() == Some(nx), "C19: from_nix(to_nix(s)) is a different OS signal");
        assert!(Signal::from(nx as i32) == back, "C19: from_nix and from(i32) disagree");
        if !matches!(s, Signal::Custom(_)) {
            assert!(back == s, "C19: first-class signal not preserved by nix round trip");
        }
    } else {
        assert!(matches!(s, Signal::Custom(n) if !(1..=31).contains(&n)), "C19: only invalid custom numbers lack an OS signal");
    }
}

/// every valid platform signal number survives number -> nix -> Signal -> nix
#[kani::proof]
pub fn c19_every_os_signal() {
    let n: i32 = kani::any();
    kani::assume((1..=31).contains(&n));
    let nx = NixSignal::try_from(n);
    assert!(nx.is_ok(), "C19: valid number rejected by nix");
    let nx = nx.unwrap();
    let s = Signal::from_nix(nx);
    assert!(s.to_nix() == Some(nx), "C19: OS signal changed");
    assert!(s == Signal::from(n), "C19: from_nix disagrees with from(i32)");
}

/// ExitStatus -> ProcessEnd over ALL 2^32 raw wait statuses.
#[kani::proof]
pub fn c19_exitstatus_to_processend() {
    let raw: i32 = kani::any();
    let es = ExitStatus::from_raw(raw);
    let pe = ProcessEnd::from(es); // must not reach unreachable!()
    let low7 = raw & 0x7f;
    let exited = low7 == 0;
    let signaled = ((low7 + 1) as i8 >> 1) > 0; // WIFSIGNALED
    let stopped = (raw & 0xff) == 0x7f;
    let continued = raw == 0xffff;
    kani::cover!(exited && raw != 0, "exit error");
    kani::cover!(signaled && (raw & 0x80) != 0, "signalled with core bit");
    kani::cover!(stopped, "stopped");
    if exited {
        let code = (raw >> 8) & 0xff;
        if code == 0 {
            assert!(pe == ProcessEnd::Success, "C19: exit code 0 is not Success");
        } else {
            assert!(matches!(pe, ProcessEnd::ExitError(c) if c.get() == i64::from(code)), "C19: exit code not preserved");
        }
    } else if signaled {
        let sig = low7;
        assert!(pe == ProcessEnd::ExitSignal(Signal::from(sig)), "C19: terminating signal not preserved");
    } else if continued {
        assert!(pe == ProcessEnd::Continued, "C19: continued status not reported as Continued");
    } else if stopped {
        let stopsig = (raw >> 8) & 0xff;
        if stopsig != 0 {
            assert!(matches!(pe, ProcessEnd::ExitStop(s) if s.get() == stopsig), "C19: stopped status not reported as ExitStop with its signal");
        }
    }
    // "preserves success": Success is reported for a successful status only (a stop signal of
    // 0 cannot be represented and is left unspecified)
    // Raw values that are not a 16-bit exited / signalled / stopped / continued encoding (e.g. an
    // exit with the core bit, low byte 0xff, bits above 16) are not wait statuses any OS
    // produces; for those only the assertions above apply.
    let valid = (0..=0xffff).contains(&raw)
        && ((exited && raw & 0xff == 0) || (signaled && raw <= 0xff) || stopped || continued);
    if valid && pe == ProcessEnd::Success {
        assert!(es.success() || (stopped && (raw >> 8) & 0xff == 0), "C19: a non-successful wait status was reported as Success");
    }
    if es.success() {
        assert!(pe == ProcessEnd::Success, "C19: a successful status was not reported as Success");
    }
}

/// ProcessEnd -> ExitStatus -> ProcessEnd for the dispositions an exit status can carry.
#[kani::proof]
pub fn c19_processend_roundtrip() {
    let k: u8 = kani::any();
    let pe = match k {
        0 => ProcessEnd::Success,
        1 => {
            let c: i64 = kani::any();
            kani::assume((1..=255).contains(&c));
            ProcessEnd::ExitError(std::num::NonZeroI64::new(c).unwrap())
        }
        _ => {
            let s = any_signal();
            // a terminating signal: valid OS signal whose number fits the 7-bit field and is
            // not the 0x7f "stopped" marker
            kani::assume(s.to_nix().is_some());
            ProcessEnd::ExitSignal(s)
        }
    };
    kani::cover!(matches!(pe, ProcessEnd::ExitSignal(Signal::Custom(_))), "custom terminating signal");
    let back = ProcessEnd::from(pe.into_exitstatus());
    match (pe, back) {
        (ProcessEnd::ExitSignal(a), ProcessEnd::ExitSignal(b)) => {
            assert!(a.to_nix() == b.to_nix(), "C19: terminating signal changed by exit status round trip")
        }
        (a, b) => assert!(a == b, "C19: process end changed by exit status round trip"),
    }
}

