//! C16 (i) — event level, JSON shape and parsing of the *tagless* event: what the real
//! `derive(Serialize)` of `Event` (through `SerdeEvent`) omits, the real `derive(Deserialize)` must
//! accept. An event without tags and metadata is serialised as an object with no fields at all
//! (both are `skip_serializing_if` empty), and that same empty object parses back to the empty
//! event. The two serde attributes involved (`skip_serializing_if` on the way out, `default` on the
//! way in) sit on the same field and only work together.
use std::collections::HashMap;
#[allow(unused_imports)]
use std::hash as stdhash;

use serde::{Deserialize, Serialize};
use watchexec_events::Event;

use crate::c16de::{ObjDe, Obj, J};
use crate::c16ev::random_state_stub;
use crate::c16ser::{Rec, TopSer};

#[kani::proof]
#[kani::unwind(8)]
#[kani::stub(stdhash::RandomState::new, random_state_stub)]
pub fn c16_json_event_empty_roundtrip() {
    let ev = Event { tags: Vec::new(), metadata: HashMap::with_hasher(random_state_stub()) };
    let mut r = Rec::new_pub();
    let res = ev.serialize(TopSer(&mut r));
    assert!(res.is_ok(), "C16: the empty event failed to serialise");
    assert!(r.n == 0, "C16: the empty event serialises fields (tags / metadata are documented as omitted when empty)");
    // parse exactly what was emitted: an object without any field
    let o = Obj { kv: [("", J::Null); 5], n: 0 };
    match Event::deserialize(ObjDe(&o)) {
        Ok(back) => {
            assert!(back.tags.is_empty(), "C16: tags appeared from nowhere");
            assert!(back.metadata.is_empty(), "C16: metadata appeared from nowhere");
            kani::cover!(true, "empty event parsed");
            std::mem::forget(back);
        }
        Err(_) => assert!(false, "C16: the serialised form of a tagless event does not parse back"),
    }
    std::mem::forget(ev);
}
