//! Symbolic generators for the foreign types (they do not implement kani::Arbitrary).
use std::num::{NonZeroI32, NonZeroI64};
use std::path::PathBuf;

use watchexec_events::filekind::*;
use watchexec_events::{FileType, Keyboard, ProcessEnd, Source, Tag};
use watchexec_signals::Signal;

pub fn any_signal() -> Signal {
    let k: u8 = kani::any();
    match k {
        0 => Signal::Hangup,
        1 => Signal::ForceStop,
        2 => Signal::Interrupt,
        3 => Signal::Quit,
        4 => Signal::Terminate,
        5 => Signal::User1,
        6 => Signal::User2,
        _ => Signal::Custom(kani::any()),
    }
}

pub fn any_source() -> Source {
    let k: u8 = kani::any();
    match k {
        0 => Source::Filesystem,
        1 => Source::Keyboard,
        2 => Source::Mouse,
        3 => Source::Os,
        4 => Source::Time,
        _ => Source::Internal,
    }
}

pub fn any_filetype() -> FileType {
    let k: u8 = kani::any();
    match k {
        0 => FileType::File,
        1 => FileType::Dir,
        2 => FileType::Symlink,
        _ => FileType::Other,
    }
}

pub fn any_opt<T>(f: impl FnOnce() -> T) -> Option<T> {
    if kani::any() {
        Some(f())
    } else {
        None
    }
}

pub fn any_process_end() -> ProcessEnd {
    let k: u8 = kani::any();
    match k {
        0 => ProcessEnd::Success,
        1 => {
            let c: i64 = kani::any();
            kani::assume(c != 0);
            ProcessEnd::ExitError(NonZeroI64::new(c).unwrap())
        }
        2 => ProcessEnd::ExitSignal(any_signal()),
        3 => {
            let c: i32 = kani::any();
            kani::assume(c != 0);
            ProcessEnd::ExitStop(NonZeroI32::new(c).unwrap())
        }
        4 => {
            let c: i32 = kani::any();
            kani::assume(c != 0);
            ProcessEnd::Exception(NonZeroI32::new(c).unwrap())
        }
        _ => ProcessEnd::Continued,
    }
}

fn any_access_mode() -> AccessMode {
    let k: u8 = kani::any();
    match k {
        0 => AccessMode::Any,
        1 => AccessMode::Execute,
        2 => AccessMode::Read,
        3 => AccessMode::Write,
        _ => AccessMode::Other,
    }
}

/// Every `FileEventKind` value (the full enumeration, by nested symbolic choice).
pub fn any_file_event_kind() -> FileEventKind {
    let k: u8 = kani::any();
    match k {
        0 => FileEventKind::Any,
        1 => FileEventKind::Access({
            let a: u8 = kani::any();
            match a {
                0 => AccessKind::Any,
                1 => AccessKind::Read,
                2 => AccessKind::Open(any_access_mode()),
                3 => AccessKind::Close(any_access_mode()),
                _ => AccessKind::Other,
            }
        }),
        2 => FileEventKind::Create({
            let a: u8 = kani::any();
            match a {
                0 => CreateKind::Any,
                1 => CreateKind::File,
                2 => CreateKind::Folder,
                _ => CreateKind::Other,
            }
        }),
        3 => FileEventKind::Modify({
            let a: u8 = kani::any();
            match a {
                0 => ModifyKind::Any,
                1 => ModifyKind::Data({
                    let d: u8 = kani::any();
                    match d {
                        0 => DataChange::Any,
                        1 => DataChange::Size,
                        2 => DataChange::Content,
                        _ => DataChange::Other,
                    }
                }),
                2 => ModifyKind::Metadata({
                    let d: u8 = kani::any();
                    match d {
                        0 => MetadataKind::Any,
                        1 => MetadataKind::AccessTime,
                        2 => MetadataKind::WriteTime,
                        3 => MetadataKind::Permissions,
                        4 => MetadataKind::Ownership,
                        5 => MetadataKind::Extended,
                        _ => MetadataKind::Other,
                    }
                }),
                3 => ModifyKind::Name({
                    let d: u8 = kani::any();
                    match d {
                        0 => RenameMode::Any,
                        1 => RenameMode::To,
                        2 => RenameMode::From,
                        3 => RenameMode::Both,
                        _ => RenameMode::Other,
                    }
                }),
                _ => ModifyKind::Other,
            }
        }),
        4 => FileEventKind::Remove({
            let a: u8 = kani::any();
            match a {
                0 => RemoveKind::Any,
                1 => RemoveKind::File,
                2 => RemoveKind::Folder,
                _ => RemoveKind::Other,
            }
        }),
        _ => FileEventKind::Other,
    }
}

/// One of two fixed short paths (contents concrete; which one is symbolic).
pub fn any_path() -> PathBuf {
    if kani::any() {
        PathBuf::from("/a")
    } else {
        PathBuf::from("b/c")
    }
}

/// Every tag except `FileEventKind` (whose wire form goes through `format!`, see c16 (b)).
pub fn any_tag_no_fek() -> Tag {
    let k: u8 = kani::any();
    match k {
        0 => Tag::Path { path: any_path(), file_type: any_opt(any_filetype) },
        1 => Tag::Source(any_source()),
        2 => Tag::Keyboard(Keyboard::Eof),
        3 => Tag::Process(kani::any()),
        4 => Tag::Signal(any_signal()),
        5 => Tag::ProcessCompletion(any_opt(any_process_end)),
        _ => Tag::Unknown,
    }
}
