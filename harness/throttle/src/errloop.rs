//! C15 over the REAL `error_hook` task future (crates/lib/src/watchexec.rs) - the
//! `while let Some(err) = errors.recv().await { .. }` loop itself, not a transcription of its body -
//! polled by the harness against the model mpsc channel (models/tokio-full). The channel is loaded
//! before the first poll, so the loop runs through `recv().await` without ever suspending until the
//! queue is empty; what is decided is the loop-carried behaviour the body-only harnesses of group
//! `lib` cannot see: state shared between iterations, early exit, the order of hand-over.
use std::mem::ManuallyDrop;
use std::pin::Pin;
use std::sync::atomic::{AtomicPtr, AtomicUsize, Ordering::SeqCst};
use std::task::Poll;

use tokio::sync::mpsc;
use tokio::verif as tv;
use watchexec::changeable::ChangeableFn;
use watchexec::error::{CriticalError, RuntimeError};
use watchexec::verif::error_hook_task;
use watchexec::ErrorHook;

use crate::util::W;

static CALLS: AtomicUsize = AtomicUsize::new(0);
static ORDER_OK: AtomicUsize = AtomicUsize::new(0);
static KEPT: AtomicPtr<ErrorHook> = AtomicPtr::new(std::ptr::null_mut());

fn is_first(e: &RuntimeError) -> bool {
    matches!(e, RuntimeError::NoCommands)
}
fn is_second(e: &RuntimeError) -> bool {
    matches!(e, RuntimeError::ProcessDeadOnArrival)
}

/// Handler behaviours for the two-error scenarios.
pub const IGNORE_BOTH: usize = 0; // drop both hooks
pub const KEEP_FIRST_ELEVATE_SECOND: usize = 1; // stash hook A (outstanding ref), elevate B
pub const IGNORE_FIRST_ELEVATE_SECOND: usize = 2;
pub const ELEVATE_FIRST: usize = 3; // B must never reach the handler

fn install(handler: &ChangeableFn<ErrorHook, ()>, beh: usize) {
    handler.replace(move |hook: ErrorHook| {
        let n = CALLS.fetch_add(1, SeqCst);
        if (n == 0 && is_first(&hook.error)) || (n == 1 && is_second(&hook.error)) {
            ORDER_OK.fetch_add(1, SeqCst);
        }
        match (beh, n) {
            (KEEP_FIRST_ELEVATE_SECOND, 0) => {
                KEPT.store(Box::into_raw(Box::new(hook)), SeqCst);
            }
            (KEEP_FIRST_ELEVATE_SECOND, 1) | (IGNORE_FIRST_ELEVATE_SECOND, 1) | (ELEVATE_FIRST, 0) => hook.elevate(),
            _ => drop(hook),
        }
    });
}

fn scenario(beh: usize, close: bool) {
    let (tx, rx) = mpsc::channel::<RuntimeError>(2);
    assert!(tx.try_send(RuntimeError::NoCommands).is_ok(), "harness: queue full");
    assert!(tx.try_send(RuntimeError::ProcessDeadOnArrival).is_ok(), "harness: queue full");
    let handler: ChangeableFn<ErrorHook, ()> = ChangeableFn::default();
    install(&handler, beh);
    if close {
        drop(tx);
    } else {
        std::mem::forget(tx);
    }
    // never dropped: the drop glue of a suspended coroutine explores every suspension point
    let mut slot = ManuallyDrop::new(error_hook_task(rx, handler));
    let mut fut = unsafe { Pin::new_unchecked(&mut *slot) };
    let r = tv::poll_with(W, fut.as_mut());
    let calls = CALLS.load(SeqCst);
    match beh {
        IGNORE_BOTH => {
            assert!(calls == 2, "C15: a queued runtime error was not handed to the error handler exactly once");
            assert!(ORDER_OK.load(SeqCst) == 2, "C15: runtime errors handed over out of order or altered");
            if close {
                assert!(matches!(r, Poll::Ready(Ok(()))), "C15: ignored runtime errors ended the main task with an error");
                kani::cover!(true, "two errors ignored, channel closed");
            } else {
                assert!(r.is_pending(), "C15: error task ended although its channel is open and nothing was elevated");
                kani::cover!(true, "two errors ignored, task keeps waiting");
            }
        }
        KEEP_FIRST_ELEVATE_SECOND | IGNORE_FIRST_ELEVATE_SECOND => {
            assert!(calls == 2, "C15: a queued runtime error was not handed to the error handler exactly once");
            assert!(ORDER_OK.load(SeqCst) == 2, "C15: runtime errors handed over out of order or altered");
            match &r {
                Poll::Ready(Err(CriticalError::Elevated { err, .. })) => {
                    assert!(is_second(err), "C15: elevated critical error does not carry the runtime error that was elevated");
                }
                _ => assert!(false, "C15: elevate() on a later error did not end the main task with Elevated"),
            }
            kani::cover!(beh == KEEP_FIRST_ELEVATE_SECOND, "first hook kept alive, second elevated");
            kani::cover!(beh == IGNORE_FIRST_ELEVATE_SECOND, "first ignored, second elevated");
        }
        _ => {
            assert!(calls == 1, "C15: error handler called again after it elevated an error");
            match &r {
                Poll::Ready(Err(CriticalError::Elevated { err, .. })) => {
                    assert!(is_first(err), "C15: elevated critical error does not carry the runtime error that was elevated");
                }
                _ => assert!(false, "C15: elevate() did not end the main task with Elevated"),
            }
            kani::cover!(true, "first elevated, second never handed over");
        }
    }
    std::mem::forget(r);
}

macro_rules! errloop {
    ($name:ident, $beh:expr, $close:expr) => {
        #[kani::proof]
        #[kani::unwind(4)]
        #[kani::stub(std::boxed::Box::write, crate::errloop::box_write)]
        pub fn $name() {
            scenario($beh, $close);
        }
    };
}
/// `Box::write` as a typed pointer write (see harness/lib/src/util.rs: the whole-union store of
/// std's body makes every later read of the `OnceLock` symbolic).
pub fn box_write<T, A: std::alloc::Allocator>(boxed: Box<std::mem::MaybeUninit<T>, A>, value: T) -> Box<T, A> {
    let (raw, alloc) = Box::into_raw_with_allocator(boxed);
    let p = raw.cast::<T>();
    unsafe {
        p.write(value);
        Box::from_raw_in(p, alloc)
    }
}
errloop!(c15_loop_two_ignored_closed, IGNORE_BOTH, true);
errloop!(c15_loop_two_ignored_open, IGNORE_BOTH, false);
errloop!(c15_loop_keep_first_elevate_second, KEEP_FIRST_ELEVATE_SECOND, false);
errloop!(c15_loop_ignore_first_elevate_second, IGNORE_FIRST_ELEVATE_SECOND, false);
errloop!(c15_loop_elevate_first, ELEVATE_FIRST, false);
