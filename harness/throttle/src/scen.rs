//! One scenario per harness; structure concrete, times / durations symbolic.
//!
//! STATUS (measured, Kani 0.68 / CBMC 6.11, 16 GB cap, verify-only flags):
//!  * `c01_s7_closed_channel_no_batch`  finishes: 33 s wall, 133k symex steps, 128k vars / 137k clauses, 0.7 GB.
//!  * `probe_timeout_recv_once`         finishes: 3 s (the model futures outside a coroutine are concrete).
//!  * `c01_s0_idle_collector_stays_pending` (ONE poll, empty open channel): symex not finished after 15 min.
//!  * `c02_s1_single_event_waits_for_throttle` (3 polls): symex not finished after 21 min (1.2 GB, still growing).
//!  * `c02_s2_urgent_event_flushes_unfiltered` (2 polls): not run (superset of s0).
//! First explosion point: the `Timeout<RecvFut>` future lives inside the coroutine's state union, so
//! the pointers it holds (`&events`, the channel `Arc`) read back symbolic already in the FIRST poll;
//! `recv()`'s outcome is then symbolic and every arm after `timeout(..).await` (filter call,
//! `errors.send(err).await?`, drop of a garbage `Event` = `Vec<Tag>` + hashbrown table, drop of
//! `CriticalError`/`RuntimeError` = `io::Error` recursion) is explored on garbage values.
//! s0/s1/s2 are kept as the source of that measurement; do not register them.
use std::collections::hash_map as stdhash;
use std::mem::ManuallyDrop;
use std::pin::Pin;
use std::task::Poll;
use std::time as stdtime;

use tokio::verif as tv;
use watchexec::action::throttle_collect;
use watchexec_events::Priority;

use crate::util::*;

const MAX_NS: u64 = 1_000_000_000_000;

/// S7: the event channel is closed before the first poll => `Ok(None)`, no batch.
#[kani::proof]
#[kani::unwind(3)]
#[kani::stub(stdtime::Instant::now, crate::util::instant_now_stub)]
#[kani::stub(stdhash::RandomState::new, crate::util::random_state_stub)]
pub fn c01_s7_closed_channel_no_batch() {
    let t0: u64 = kani::any();
    kani::assume(t0 <= MAX_NS);
    tv::advance_to(t0);
    let e = env(50_000_000);
    e.tx.close();
    let last = stdtime::Instant::now();
    // never dropped: the drop glue of a suspended coroutine explores every suspension point
    let mut slot = ManuallyDrop::new(throttle_collect(e.config.clone(), e.rx.clone(), e.errors_tx.clone(), last));
    let mut fut = unsafe { Pin::new_unchecked(&mut *slot) };
    match tv::poll_with(W, fut.as_mut()) {
        Poll::Ready(Ok(None)) => {
            kani::cover!(true, "closed channel ends the collector");
        }
        Poll::Ready(Ok(Some(set))) => {
            std::mem::forget(set);
            panic!("C01: a batch was produced from a closed, empty channel");
        }
        Poll::Ready(Err(err)) => {
            std::mem::forget(err);
            panic!("C01: critical error from a closed, empty channel");
        }
        Poll::Pending => panic!("C01: collector does not end on a closed channel"),
    }
    std::mem::forget(e);
}

fn setup_clock() {
    let t0: u64 = kani::any();
    kani::assume(t0 <= MAX_NS);
    tv::advance_to(t0);
}
fn any_throttle() -> u64 {
    let t: u64 = kani::any();
    kani::assume(t >= 1 && t <= MAX_NS);
    t
}

/// S1: one Normal event, filter passes, throttle T symbolic. Nothing is handed over before
/// t1 + T; once the clock reaches t1 + T the collector has been woken and hands over exactly [e].
#[kani::proof]
#[kani::unwind(3)]
#[kani::stub(stdtime::Instant::now, crate::util::instant_now_stub)]
#[kani::stub(stdhash::RandomState::new, crate::util::random_state_stub)]
pub fn c02_s1_single_event_waits_for_throttle() {
    setup_clock();
    let throttle = any_throttle();
    let e = env(throttle);
    let last = stdtime::Instant::now();
    // never dropped: the drop glue of a suspended coroutine explores every suspension point
    let mut slot = ManuallyDrop::new(throttle_collect(e.config.clone(), e.rx.clone(), e.errors_tx.clone(), last));
    let mut fut = unsafe { Pin::new_unchecked(&mut *slot) };

    // nothing queued: no batch (in particular no empty batch), however long we wait
    assert!(tv::poll_with(W, fut.as_mut()).is_pending(), "C01: handler batch without any event");
    let idle: u64 = kani::any();
    kani::assume(idle <= MAX_NS);
    tv::advance_by(idle);
    assert!(!tv::woken(W), "C01: collector woken with nothing to do");

    // the event arrives at t1
    let sent = e.tx.try_send(event(1), Priority::Normal).is_ok();
    assert!(sent);
    assert!(tv::woken(W), "C01: collector not woken by an arriving event");
    assert!(tv::poll_with(W, fut.as_mut()).is_pending(), "C02: batch handed over before the throttle duration");
    unsafe { assert!(CALLS[1] == 1, "C01: filter not consulted exactly once for a normal event") };

    // d later
    let d: u64 = kani::any();
    kani::assume(d <= 2 * MAX_NS);
    tv::advance_by(d);
    if d >= throttle {
        assert!(tv::woken(W), "C02: collector not woken when the throttle window ends");
    }
    match tv::poll_with(W, fut.as_mut()) {
        Poll::Pending => {
            assert!(d < throttle, "C02: batch not handed over although the throttle window has ended");
            kani::cover!(true, "still inside the window");
        }
        Poll::Ready(Ok(Some(set))) => {
            assert!(d >= throttle, "C02: batch handed over before the throttle duration");
            assert!(set.len() == 1 && event_id(&set[0]) == 1, "C01: batch is not exactly the accepted event");
            kani::cover!(d == throttle, "handed over exactly at the end of the window");
            kani::cover!(d > throttle, "handed over after the window");
            std::mem::forget(set);
        }
        Poll::Ready(Ok(None)) => panic!("C01: collector ended although the channel is open"),
        Poll::Ready(Err(err)) => {
            std::mem::forget(err);
            panic!("C01: critical error without cause");
        }
    }
    unsafe { assert!(CALLS[1] == 1, "C01: filter consulted more than once") };
    std::mem::forget(e);
}

/// Baseline measurement: the first poll alone (empty open channel => Pending, no wake-up).
#[kani::proof]
#[kani::unwind(3)]
#[kani::stub(stdtime::Instant::now, crate::util::instant_now_stub)]
#[kani::stub(stdhash::RandomState::new, crate::util::random_state_stub)]
pub fn c01_s0_idle_collector_stays_pending() {
    setup_clock();
    let throttle = any_throttle();
    let e = env(throttle);
    let last = stdtime::Instant::now();
    // never dropped: the drop glue of a suspended coroutine explores every suspension point
    let mut slot = ManuallyDrop::new(throttle_collect(e.config.clone(), e.rx.clone(), e.errors_tx.clone(), last));
    let mut fut = unsafe { Pin::new_unchecked(&mut *slot) };
    assert!(tv::poll_with(W, fut.as_mut()).is_pending(), "C01: handler batch without any event");
    let idle: u64 = kani::any();
    kani::assume(idle <= MAX_NS);
    tv::advance_by(idle);
    assert!(!tv::woken(W), "C01: collector woken with nothing to do");
    kani::cover!(idle > throttle, "idle longer than the throttle duration");
    std::mem::forget(e);
}

/// S2: an Urgent event that the filter would reject is handed over by the first poll after its
/// arrival, whatever the throttle duration, and the filter is not consulted.
#[kani::proof]
#[kani::unwind(3)]
#[kani::stub(stdtime::Instant::now, crate::util::instant_now_stub)]
#[kani::stub(stdhash::RandomState::new, crate::util::random_state_stub)]
pub fn c02_s2_urgent_event_flushes_unfiltered() {
    setup_clock();
    let throttle = any_throttle();
    let e = env(throttle);
    unsafe { VERDICT[1] = REJECT };
    let last = stdtime::Instant::now();
    // never dropped: the drop glue of a suspended coroutine explores every suspension point
    let mut slot = ManuallyDrop::new(throttle_collect(e.config.clone(), e.rx.clone(), e.errors_tx.clone(), last));
    let mut fut = unsafe { Pin::new_unchecked(&mut *slot) };
    assert!(tv::poll_with(W, fut.as_mut()).is_pending(), "C01: handler batch without any event");
    let sent = e.tx.try_send(event(1), Priority::Urgent).is_ok();
    assert!(sent);
    assert!(tv::woken(W), "C01: collector not woken by an arriving event");
    match tv::poll_with(W, fut.as_mut()) {
        Poll::Ready(Ok(Some(set))) => {
            assert!(set.len() == 1 && event_id(&set[0]) == 1, "C02: urgent batch is not exactly the urgent event");
            kani::cover!(true, "urgent event handed over at once");
            std::mem::forget(set);
        }
        Poll::Pending => panic!("C02: urgent event did not flush the batch immediately"),
        Poll::Ready(Ok(None)) => panic!("C01: collector ended although the channel is open"),
        Poll::Ready(Err(err)) => {
            std::mem::forget(err);
            panic!("C01: critical error without cause");
        }
    }
    unsafe { assert!(CALLS[1] == 0, "C02: urgent event was filtered") };
    std::mem::forget(e);
}

/// Probe (not a property): one poll of the model's `timeout(recv())` outside any coroutine.
#[kani::proof]
#[kani::unwind(3)]
#[kani::stub(stdtime::Instant::now, crate::util::instant_now_stub)]
#[kani::stub(stdhash::RandomState::new, crate::util::random_state_stub)]
pub fn probe_timeout_recv_once() {
    setup_clock();
    let (tx, rx) = async_priority_channel::bounded::<watchexec_events::Event, Priority>(4);
    let mut slot = ManuallyDrop::new(tokio::time::timeout(std::time::Duration::from_secs(u64::MAX), rx.recv()));
    let mut fut = unsafe { Pin::new_unchecked(&mut *slot) };
    let r = tv::poll_with(W, fut.as_mut());
    assert!(r.is_pending(), "probe: pending");
    std::mem::forget(r);
    std::mem::forget(tx);
    std::mem::forget(rx);
}
