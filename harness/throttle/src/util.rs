//! Standing stubs and helpers of this group.
use std::fmt;
use std::sync::Arc;
use std::time::Duration;

use async_priority_channel as priority;
use tokio::sync::mpsc;
use watchexec::error::RuntimeError;
use watchexec::filter::Filterer;
use watchexec::Config;
use watchexec_events::{Event, Priority, Tag};

/// `std::time::Instant::now` is FFI (`clock_gettime`); serve the model's virtual clock instead.
pub fn instant_now_stub() -> std::time::Instant {
    let ns = tokio::verif::now_ns();
    let secs = (ns / 1_000_000_000) as i64;
    let nanos = (ns % 1_000_000_000) as u32;
    // std::time::Instant on unix is Timespec { tv_sec: i64, tv_nsec: u32 (niche-limited) }
    unsafe { std::mem::transmute::<(i64, u32), std::time::Instant>((secs, nanos)) }
}

/// `RandomState::new` reads OS randomness through a thread-local (FFI); no key is ever hashed here.
pub fn random_state_stub() -> std::collections::hash_map::RandomState {
    unsafe { std::mem::transmute::<(u64, u64), std::collections::hash_map::RandomState>((0, 0)) }
}

#[macro_export]
macro_rules! split {
    ($n:expr, |$v:ident| $body:block) => {{
        let __c: usize = kani::any();
        kani::assume(__c < $n);
        let mut __i = 0usize;
        while __i < $n {
            if __c == __i {
                let $v: usize = __i;
                $body
            }
            __i += 1;
        }
    }};
}

/// Harness waker identity.
pub const W: usize = tokio::verif::HARNESS_ID_BASE;

// ------------------------------------------------------------------ the harness filterer

pub const PASS: u8 = 0;
pub const REJECT: u8 = 1;
pub const ERROR: u8 = 2;
/// Verdict per event id (events are identified by the pid of their single `Tag::Process`).
pub static mut VERDICT: [u8; 4] = [PASS; 4];
/// How often the filterer was consulted, per event id.
pub static mut CALLS: [u8; 4] = [0; 4];

pub struct F;
impl fmt::Debug for F {
    fn fmt(&self, f: &mut fmt::Formatter<'_>) -> fmt::Result {
        f.write_str("F")
    }
}
impl Filterer for F {
    fn check_event(&self, event: &Event, _priority: Priority) -> Result<bool, RuntimeError> {
        let id = event_id(event) as usize;
        unsafe {
            CALLS[id] = CALLS[id].saturating_add(1);
            match VERDICT[id] {
                PASS => Ok(true),
                REJECT => Ok(false),
                _ => Err(RuntimeError::Exit),
            }
        }
    }
}

/// Event number `id` (< 4): one cheap tag that carries the identity; empty metadata map.
pub fn event(id: u32) -> Event {
    Event {
        tags: vec![Tag::Process(id)],
        metadata: std::collections::HashMap::with_hasher(random_state_stub()),
    }
}
pub fn empty_event() -> Event {
    Event { tags: Vec::new(), metadata: std::collections::HashMap::with_hasher(random_state_stub()) }
}
pub fn event_id(e: &Event) -> u32 {
    if e.tags.len() != 1 {
        return 3;
    }
    match &e.tags[0] {
        Tag::Process(p) => *p,
        _ => 3,
    }
}

pub type Tx = priority::Sender<Event, Priority>;
pub type Rx = priority::Receiver<Event, Priority>;

/// The environment of one `throttle_collect` call.
pub struct Env {
    pub config: Arc<Config>,
    pub tx: Tx,
    pub rx: Rx,
    pub errors_tx: mpsc::Sender<RuntimeError>,
    pub errors_rx: mpsc::Receiver<RuntimeError>,
}
pub fn env(throttle_ns: u64) -> Env {
    let config = Arc::new(Config::default());
    config.throttle(Duration::from_nanos(throttle_ns));
    config.filterer(F);
    let (tx, rx) = priority::bounded::<Event, Priority>(4);
    let (errors_tx, errors_rx) = mpsc::channel::<RuntimeError>(4);
    Env { config, tx, rx, errors_tx, errors_rx }
}
