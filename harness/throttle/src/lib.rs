//! Harness group `throttle`: C01, C02, C15 (batching half) over the REAL `throttle_collect` async fn
//! of the `watchexec` lib crate, against the environment models under /verif/models
//! (tokio-full, async-priority-channel, tracing no-ops). The harness is the executor and the clock.
#![cfg(kani)]
#![feature(allocator_api)]
#![allow(clippy::all, static_mut_refs)]

pub mod util;
pub mod scen;
pub mod errloop;

pub use scen::*;
pub use errloop::*;

mod playback {
    #[allow(unused_imports)]
    use super::*;
    include!("playback.rs");
}
