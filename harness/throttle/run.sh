#!/bin/bash
# usage: [PLAY=1] [FS=1024] run.sh <harness> [timeout_s]   (ONE at a time; 16 GB cap)
h=$1; to=${2:-1500}; fs=${FS:-1024}
play=""; [ -n "$PLAY" ] && play="-Z concrete-playback --concrete-playback=print"
cd /verif/harness/throttle && cp /repo/Cargo.lock . && \
( ulimit -v 16000000; CARGO_NET_OFFLINE=true /usr/bin/time -v timeout $to cargo kani --harness $h --exact -Z stubbing -Z unstable-options \
  $play --target-dir /verif/.target/throttle \
  --cbmc-args --max-field-sensitivity-array-size $fs ) > /tmp/throttle-$h.log 2>&1
echo "== $h FS=$fs"
grep -E "VERIFICATION:|Runtime Symex|variables, |Failed Checks|Status: (ERROR|SATISFIED|UNSAT|UNREACH|FAIL)|Maximum resident|Elapsed \(wall|size of program expression|Verification Time|^error" /tmp/throttle-$h.log | sort | uniq -c | sort -rn | head -30
