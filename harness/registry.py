"""Which harnesses decide which property, with the bounds each one states."""

DEFAULT_TIMEOUT = {"quick": 900, "thorough": 3600}
DEFAULT_MEM_GB = 12

STD_STUBS = ["std::panic::catch_unwind -> Ok(f()) (Kani ICE work-around; sound under panic=abort)"]

PROPERTIES = {
    "C20": {
        "bounds": "all discriminants 0..variant_count::<ProjectType>() (complete for the enumeration); no loops",
        "outside": "origins()/types() directory walks (tokio::fs) and the marker->type table are not encoded",
        "trusted": ["Kani 0.68 / CBMC 6.11 / CaDiCaL", "rustc MIR of project-origins as compiled by kani-compiler"],
        "assumptions": ["ProjectType is a fieldless enum laid out in one byte (asserted in the harness)"],
        "harnesses": [
            {"group": "origins", "name": "c20_vcs_xor_soft", "covers": ["some vcs type", "some soft type"],
             "bounds": "discriminant: all values < variant_count"},
        ],
    },
    "C16": {
        "bounds": "fs kinds: all 41 kinds of the notify enumeration via a (kind, documented name) table, format half and parse half; other tags: one tag per query; pid/u32, exit codes i64/i32, custom signal i32 over their full ranges; paths: two fixed short PathBufs; wire totality: every kind x every present/absent combination of the 10 optional fields; unwind 8/24 (memcmp of <= 23-byte names)",
        "outside": "serde_json text layer (escaping, number printing, field spelling in the text), metadata maps, non-UTF-8 paths, events with > 1 tag",
        "trusted": ["Kani 0.68 / CBMC 6.11 / CaDiCaL", "hook watchexec_events::verif (cfg(kani)) exposing SerdeTag fields", "hook watchexec_signals::verif (cfg(kani)) exposing SerdeSignal/NamedSignal"],
        "assumptions": ["serde derive maps struct fields 1:1 to JSON object members (not encoded)"],
        "harnesses": [
            {"group": "events", "name": "c16_tag_roundtrip", "covers": ["path tag", "completion tag", "exit error tag", "custom signal tag"],
             "bounds": "all non-fs tag kinds, full integer ranges"},
            {"group": "events", "name": "c16_wire_fields", "covers": ["completion with end"], "bounds": "as c16_tag_roundtrip"},
            {"group": "events", "name": "c16_wire_totality", "covers": ["known kind degraded to Unknown", "completion parsed"],
             "bounds": "8 kinds x 2^9 field-presence masks x full integer payloads x 4 `full` strings"},
            {"group": "events", "name": "c16_fs_parse_0", "covers": ["last kind of the range"], "bounds": "wire names 0..7 of the 41-entry kind table (path-split), `simple` field absent/any value (symbolic)"},
            {"group": "events", "name": "c16_fs_parse_1", "covers": ["last kind of the range"], "bounds": "wire names 7..14 of the 41-entry kind table (path-split), `simple` field absent/any value (symbolic)"},
            {"group": "events", "name": "c16_fs_parse_2", "covers": ["last kind of the range"], "bounds": "wire names 14..21 of the 41-entry kind table (path-split), `simple` field absent/any value (symbolic)"},
            {"group": "events", "name": "c16_fs_parse_3", "covers": ["last kind of the range"], "bounds": "wire names 21..28 of the 41-entry kind table (path-split), `simple` field absent/any value (symbolic)"},
            {"group": "events", "name": "c16_fs_parse_4", "covers": ["last kind of the range"], "bounds": "wire names 28..35 of the 41-entry kind table (path-split), `simple` field absent/any value (symbolic)"},
            {"group": "events", "name": "c16_fs_parse_5", "covers": ["last kind of the range"], "bounds": "wire names 35..41 of the 41-entry kind table (path-split), `simple` field absent/any value (symbolic)"},
            {"group": "events", "name": "c16_fs_format_0", "covers": ["last kind of the range"], "mem_gb": 12, "bounds": "kinds 0..7 of the table: real format!(\"{kind:?}\") (core::fmt not stubbed) must equal the documented name; unwind 34", "timeout": {"quick": 1500, "thorough": 3000}},
            {"group": "events", "name": "c16_fs_format_1", "tiers": ("thorough",), "covers": ["last kind of the range"], "mem_gb": 12, "bounds": "kinds 7..14 of the table: real format!(\"{kind:?}\") (core::fmt not stubbed) must equal the documented name; unwind 34", "timeout": {"quick": 1500, "thorough": 3000}},
            {"group": "events", "name": "c16_fs_format_2", "tiers": ("thorough",), "covers": ["last kind of the range"], "mem_gb": 12, "bounds": "kinds 14..21 of the table: real format!(\"{kind:?}\") (core::fmt not stubbed) must equal the documented name; unwind 34", "timeout": {"quick": 1500, "thorough": 3000}},
            {"group": "events", "name": "c16_fs_format_3", "covers": ["last kind of the range"], "mem_gb": 12, "bounds": "kinds 21..28 of the table: real format!(\"{kind:?}\") (core::fmt not stubbed) must equal the documented name; unwind 34", "timeout": {"quick": 1500, "thorough": 3000}},
            {"group": "events", "name": "c16_fs_format_4", "tiers": ("thorough",), "covers": ["last kind of the range"], "mem_gb": 12, "bounds": "kinds 28..35 of the table: real format!(\"{kind:?}\") (core::fmt not stubbed) must equal the documented name; unwind 34", "timeout": {"quick": 1500, "thorough": 3000}},
            {"group": "events", "name": "c16_fs_format_5", "tiers": ("thorough",), "covers": ["last kind of the range"], "mem_gb": 12, "bounds": "kinds 35..41 of the table: real format!(\"{kind:?}\") (core::fmt not stubbed) must equal the documented name; unwind 34", "timeout": {"quick": 1500, "thorough": 3000}},
            {"group": "events", "name": "c16_signal_wire_roundtrip", "covers": ["numeric wire form", "named wire form"], "bounds": "every first-class signal and Custom(n) for all i32 n"},
            {"group": "events", "name": "c16_signal_wire_parse", "covers": ["custom"], "bounds": "every wire signal value (7 names, all i32 numbers)"},
            {"group": "events", "name": "c16_fs_simple_class_all_kinds", "covers": ["Access(Close(Write))"], "bounds": "all 41 kinds (symbolic table index)"},
            {"group": "events", "name": "c16_fs_simple_only", "covers": ["remove"], "bounds": "5 coarse kinds"},
        ],
    },
    "C19": {
        "bounds": "all i32 signal numbers; all 2^32 raw wait statuses; exit codes 1..=255; every first-class signal and Custom(n) for all n",
        "outside": "name parsing/Display (from_str, from_unix_str, from_windows_str), --map-signal parser, Windows branches",
        "trusted": ["Kani 0.68 / CBMC 6.11 / CaDiCaL", "std::process::ExitStatus unix wait-status decoding as compiled"],
        "assumptions": ["Linux signal numbering (target x86_64-unknown-linux-gnu)"],
        "harnesses": [
            {"group": "events", "name": "c19_from_i32_vs_to_nix", "covers": ["custom", "first-class"], "bounds": "all i32"},
            {"group": "events", "name": "c19_nix_roundtrip", "covers": ["custom roundtrip"], "bounds": "all Signal values"},
            {"group": "events", "name": "c19_every_os_signal", "bounds": "n in 1..=31"},
            {"group": "events", "name": "c19_exitstatus_to_processend", "covers": ["exit error", "signalled with core bit", "stopped"], "bounds": "all 2^32 raw statuses"},
            {"group": "events", "name": "c19_processend_roundtrip", "covers": ["custom terminating signal"], "bounds": "Success, ExitError(1..=255), ExitSignal(any valid)"},
        ],
    },
    "C07": {
        "bounds": "flag/ticket level: 3 waiters, 3 pre-raise poll slots in any interleaving (a waiter may poll repeatedly), raise of either the control flag or the job-gone flag",
        "outside": "wake-ups racing on real threads (AtomicWaker/atomics are executed sequentially); panicking job tasks",
        "trusted": ["Kani 0.68 / CBMC 6.11 / CaDiCaL", "models/tokio (wakers, executor, virtual time)", "hook watchexec_supervisor::verif (cfg(kani))"],
        "assumptions": ["a waiter is a task that polled with its own waker and returned Pending; it makes progress only if that waker is woken"],
        "harnesses": [
            {"group": "supervisor", "name": "c07_flag_all_waiters_woken", "covers": ["three waiters pending", "re-poll after another waiter registered"],
             "bounds": "3 waiters, 3 poll slots each taken by any waiter or skipped; first slot = waiter 0 by symmetry (16 schedules, path-split)"},
            {"group": "supervisor", "name": "c07_flag_all_waiters_woken_full", "tiers": ("thorough",), "covers": ["three waiters pending"],
             "bounds": "as above without the symmetry argument (64 schedules)", "timeout": {"thorough": 3000}},
            {"group": "supervisor", "name": "c07_ticket_clone_first_control_done_a", "covers": ["schedule ran to its end"], "bounds": "3 waiters (2 clones + 1 other ticket of the job), 3 poll slots; first = a clone of the ticket; second slot: waiter 0 or 1; the control's own flag is raised (8 schedules, path-split)"},
            {"group": "supervisor", "name": "c07_ticket_clone_first_control_done_b", "covers": ["schedule ran to its end"], "bounds": "3 waiters (2 clones + 1 other ticket of the job), 3 poll slots; first = a clone of the ticket; second slot: waiter 2 or skipped; the control's own flag is raised (8 schedules, path-split)"},
            {"group": "supervisor", "name": "c07_ticket_clone_first_job_gone_a", "covers": ["schedule ran to its end"], "bounds": "3 waiters (2 clones + 1 other ticket of the job), 3 poll slots; first = a clone of the ticket; second slot: waiter 0 or 1; the job-gone flag is raised (8 schedules, path-split)"},
            {"group": "supervisor", "name": "c07_ticket_clone_first_job_gone_b", "covers": ["schedule ran to its end"], "bounds": "3 waiters (2 clones + 1 other ticket of the job), 3 poll slots; first = a clone of the ticket; second slot: waiter 2 or skipped; the job-gone flag is raised (8 schedules, path-split)"},
            {"group": "supervisor", "name": "c07_ticket_other_first_control_done_a", "covers": ["schedule ran to its end"], "bounds": "3 waiters (2 clones + 1 other ticket of the job), 3 poll slots; first = the other ticket of the job; second slot: waiter 0 or 1; the control's own flag is raised (8 schedules, path-split)"},
            {"group": "supervisor", "name": "c07_ticket_other_first_control_done_b", "covers": ["schedule ran to its end"], "bounds": "3 waiters (2 clones + 1 other ticket of the job), 3 poll slots; first = the other ticket of the job; second slot: waiter 2 or skipped; the control's own flag is raised (8 schedules, path-split)"},
            {"group": "supervisor", "name": "c07_ticket_other_first_job_gone_a", "covers": ["schedule ran to its end"], "bounds": "3 waiters (2 clones + 1 other ticket of the job), 3 poll slots; first = the other ticket of the job; second slot: waiter 0 or 1; the job-gone flag is raised (8 schedules, path-split)"},
            {"group": "supervisor", "name": "c07_ticket_other_first_job_gone_b", "covers": ["schedule ran to its end"], "bounds": "3 waiters (2 clones + 1 other ticket of the job), 3 poll slots; first = the other ticket of the job; second slot: waiter 2 or skipped; the job-gone flag is raised (8 schedules, path-split)"},
        ],
    },
    "C18": {
        "bounds": "Program::Exec only: program (1 byte) + 0..=3 args of 0..=2 bytes; every byte symbolic over ASCII 0x01..=0x7f (all shell metacharacters, whitespace, quotes, control characters); one concrete multi-byte argument; all 8 spawn-option combinations (symbolic). Counts/lengths are path-split, bytes and options solver-decided.",
        "outside": "the Program::Shell branch of to_spawnable (measured: one concrete shell scenario = 31M SAT variables / 142M clauses / 14 min, OOM at 3 scenarios; see DESIGN), what tokio/std/the kernel do with the argv (exec fidelity, pgid/sid), strings longer than 2 bytes, NUL bytes, spawn-hook env/cwd visibility in a real child, CLI argument interpretation",
        "trusted": ["Kani 0.68 / CBMC 6.11 / CaDiCaL", "models/tokio process::Command (records program/args verbatim)", "models/process-wrap (records wrapper kinds)"],
        "assumptions": ["tokio::process::Command::arg/args append one argv element per call/item (documented std behaviour)"],
        "harnesses": [
            {"group": "supervisor", "name": "c18_exec_argv_exact", "covers": ["three args, first empty", "argument ' *'"], "bounds": "0..=3 args x 2 length patterns x symbolic bytes x symbolic options"},
            {"group": "supervisor", "name": "c18_exec_argv_unicode", "bounds": "1..=3 args, first = multi-byte/space/quote string"},
            {"group": "supervisor", "name": "c18_exec_argv_exact_full", "tiers": ("thorough",), "mem_gb": 30, "bounds": "0..=3 args x all 27 length combinations", "timeout": {"thorough": 7200}},
        ],
    },
}
