"""Which harnesses decide which property, with the bounds each one states."""

DEFAULT_TIMEOUT = {"quick": 900, "thorough": 3600}
DEFAULT_MEM_GB = 12

STD_STUBS = ["std::panic::catch_unwind -> Ok(f()) (Kani ICE work-around; sound under panic=abort)"]

PROPERTIES = {
    "C20": {
        "bounds": "all discriminants 0..variant_count::<ProjectType>() (complete for the enumeration); no loops",
        "outside": "origins()/types() directory walks (tokio::fs) and the marker->type table are not encoded",
        "trusted": ["Kani 0.68 / CBMC 6.11 / CaDiCaL", "rustc MIR of project-origins as compiled by kani-compiler"],
        "assumptions": ["ProjectType is a fieldless enum laid out in one byte (asserted in the harness)"],
        "harnesses": [
            {"group": "origins", "name": "c20_vcs_xor_soft", "covers": ["some vcs type", "some soft type"],
             "bounds": "discriminant: all values < variant_count"},
        ],
    },
    "C16": {
        "bounds": "one tag per query; pid/u32, exit codes i64/i32, custom signal i32 over their full ranges; paths: two fixed short PathBufs; wire totality: every kind x every present/absent combination of the 10 optional fields; unwind 8/24 (memcmp of <= 23-byte names)",
        "outside": "serde_json text layer (escaping, number printing, field spelling in the text), metadata maps, non-UTF-8 paths, events with > 1 tag",
        "trusted": ["Kani 0.68 / CBMC 6.11 / CaDiCaL", "hook watchexec_events::verif (cfg(kani)) exposing SerdeTag fields"],
        "assumptions": ["serde derive maps struct fields 1:1 to JSON object members (not encoded)"],
        "harnesses": [
            {"group": "events", "name": "c16_tag_roundtrip", "covers": ["path tag", "completion tag", "exit error tag", "custom signal tag"],
             "bounds": "all non-fs tag kinds, full integer ranges"},
            {"group": "events", "name": "c16_wire_fields", "covers": ["completion with end"], "bounds": "as c16_tag_roundtrip"},
            {"group": "events", "name": "c16_wire_totality", "covers": ["known kind degraded to Unknown", "completion parsed"],
             "bounds": "8 kinds x 2^9 field-presence masks x full integer payloads x 4 `full` strings"},
        ],
    },
    "C19": {
        "bounds": "all i32 signal numbers; all 2^32 raw wait statuses; exit codes 1..=255; every first-class signal and Custom(n) for all n",
        "outside": "name parsing/Display (from_str, from_unix_str, from_windows_str), --map-signal parser, Windows branches",
        "trusted": ["Kani 0.68 / CBMC 6.11 / CaDiCaL", "std::process::ExitStatus unix wait-status decoding as compiled"],
        "assumptions": ["Linux signal numbering (target x86_64-unknown-linux-gnu)"],
        "harnesses": [
            {"group": "events", "name": "c19_from_i32_vs_to_nix", "covers": ["custom", "first-class"], "bounds": "all i32"},
            {"group": "events", "name": "c19_nix_roundtrip", "covers": ["custom roundtrip"], "bounds": "all Signal values"},
            {"group": "events", "name": "c19_every_os_signal", "bounds": "n in 1..=31"},
            {"group": "events", "name": "c19_exitstatus_to_processend", "covers": ["exit error", "signalled with core bit", "stopped"], "bounds": "all 2^32 raw statuses"},
            {"group": "events", "name": "c19_processend_roundtrip", "covers": ["custom terminating signal"], "bounds": "Success, ExitError(1..=255), ExitSignal(any valid)"},
        ],
    },
    "C07": {
        "bounds": "flag/ticket level: 3 waiters, 3 pre-raise poll slots in any interleaving (a waiter may poll repeatedly), raise of either the control flag or the job-gone flag",
        "outside": "wake-ups racing on real threads (AtomicWaker/atomics are executed sequentially); panicking job tasks",
        "trusted": ["Kani 0.68 / CBMC 6.11 / CaDiCaL", "models/tokio (wakers, executor, virtual time)", "hook watchexec_supervisor::verif (cfg(kani))"],
        "assumptions": ["a waiter is a task that polled with its own waker and returned Pending; it makes progress only if that waker is woken"],
        "harnesses": [
            {"group": "supervisor", "name": "c07_flag_all_waiters_woken", "covers": ["three waiters pending", "re-poll after another waiter registered"],
             "bounds": "3 waiters, 3 poll slots each taken by any waiter or skipped; first slot = waiter 0 by symmetry (16 schedules, path-split)"},
            {"group": "supervisor", "name": "c07_flag_all_waiters_woken_full", "tiers": ("thorough",), "covers": ["three waiters pending"],
             "bounds": "as above without the symmetry argument (64 schedules)", "timeout": {"thorough": 3000}},
            {"group": "supervisor", "name": "c07_ticket_clone_first_control_done", "covers": ["two clones pending", "two different tickets pending"], "bounds": "3 waiters (2 clones + 1 other ticket of the job), 3 poll slots, first = a clone; the control's own flag is raised"},
            {"group": "supervisor", "name": "c07_ticket_clone_first_job_gone", "covers": ["two clones pending", "two different tickets pending"], "bounds": "same; the job-gone flag is raised"},
            {"group": "supervisor", "name": "c07_ticket_other_first_control_done", "covers": ["two clones pending", "two different tickets pending"], "bounds": "same, first = the other ticket; control flag raised"},
            {"group": "supervisor", "name": "c07_ticket_other_first_job_gone", "covers": ["two clones pending", "two different tickets pending"], "bounds": "same, first = the other ticket; job-gone flag raised"},
        ],
    },
    "C10": {
        "bounds": "queue contents (n_normal, n_high, n_urgent) in [0,2]^3, timer in {none, armed-future, armed-past} x {stop, restart}, every select! start index",
        "outside": "several sender threads; queues longer than 2 per priority",
        "trusted": ["Kani 0.68 / CBMC 6.11 / CaDiCaL", "models/tokio (mpsc ring, select! = tokio's macro text with symbolic start index, virtual time)"],
        "assumptions": [],
        "harnesses": [
            {"group": "supervisor", "name": "c10_recv_priority_order", "covers": ["timer already past", "armed timer holds back normal", "normal fifo"], "bounds": "one recv from arbitrary queues/timer"},
            {"group": "supervisor", "name": "c10_recv_drain_order", "covers": ["all queues full"], "bounds": "<= 6 messages sent in any interleaving, drained by <= 7 recv"},
        ],
    },
    "C18": {
        "bounds": "Exec: program + <= 3 args; Shell: <= 2 options, optional program option, command, <= 2 args; every string 0..=2 characters from {a, space, double quote, quote, $, *, newline, backslash, e-acute (2 bytes), -}; all 8 spawn-option combinations",
        "outside": "what tokio/std/the kernel do with the argv (exec fidelity, pgid/sid), strings longer than 2 characters, spawn-hook env/cwd visibility in a real child, CLI argument interpretation",
        "trusted": ["Kani 0.68 / CBMC 6.11 / CaDiCaL", "models/tokio process::Command (records program/args verbatim)", "models/process-wrap (records wrapper kinds)"],
        "assumptions": ["tokio::process::Command::arg/args append one argv element per call/item (documented std behaviour)"],
        "harnesses": [
            {"group": "supervisor", "name": "c18_exec_argv_exact", "covers": ["three args", "empty-string argument"], "bounds": "<= 3 args x <= 2 chars"},
            {"group": "supervisor", "name": "c18_shell_argv_order", "covers": ["full shell form", "no program option"], "bounds": "<= 2 options, <= 2 args, <= 2 chars each"},
        ],
    },
}
