"""Which harnesses decide which property, with the bounds each one states."""

DEFAULT_TIMEOUT = {"quick": 1800, "thorough": 3600}
DEFAULT_MEM_GB = 12

STD_STUBS = ["std::panic::catch_unwind -> Ok(f()) (Kani ICE work-around; sound under panic=abort)"]

PROPERTIES = {
    "C20": {
        "bounds": "all discriminants 0..variant_count::<ProjectType>() (complete for the enumeration); no loops",
        "outside": "origins()/types() directory walks (tokio::fs) and the marker->type table are not encoded",
        "trusted": ["Kani 0.68 / CBMC 6.11 / CaDiCaL", "rustc MIR of project-origins as compiled by kani-compiler"],
        "assumptions": ["ProjectType is a fieldless enum laid out in one byte (asserted in the harness)"],
        "harnesses": [
            {"group": "origins", "name": "c20_vcs_xor_soft", "covers": ["some vcs type", "some soft type"],
             "bounds": "discriminant: all values < variant_count"},
        ],
    },
    "C16": {
        "bounds": "fs kinds: all 41 kinds of the notify enumeration via a (kind, documented name) table, format half and parse half; other tags: one tag per query; pid/u32, exit codes i64/i32, custom signal i32 over their full ranges; paths: two fixed short PathBufs; wire totality: every kind x every present/absent combination of the 10 optional fields; unwind 8/24 (memcmp of <= 23-byte names)",
        "outside": "serde_json itself (escaping, number printing, tokenising; the harnesses stand in for it with a recording Serializer and a self-describing Deserializer over concrete objects), non-empty metadata maps (hashing), events of more than 3 tags, non-UTF-8 paths, parse scenarios beyond the 16 listed objects",
        "trusted": ["Kani 0.68 / CBMC 6.11 / CaDiCaL", "hook watchexec_events::verif (cfg(kani)) exposing SerdeTag fields", "hook watchexec_signals::verif (cfg(kani)) exposing SerdeSignal/NamedSignal"],
        "assumptions": ["serde derive maps struct fields 1:1 to JSON object members (not encoded)"],
        "harnesses": [
            {"group": "events", "name": "c16_tag_roundtrip", "covers": ["path tag", "completion tag", "exit error tag", "custom signal tag"],
             "bounds": "all non-fs tag kinds, full integer ranges"},
            {"group": "events", "name": "c16_wire_fields", "covers": ["completion with end"], "bounds": "as c16_tag_roundtrip"},
            {"group": "events", "name": "c16_wire_totality", "covers": ["known kind degraded to Unknown", "completion parsed"],
             "bounds": "8 kinds x 2^9 field-presence masks x full integer payloads x 4 `full` strings"},
            {"group": "events", "name": "c16_fs_parse_0", "covers": ["last kind of the range"], "bounds": "wire names 0..7 of the 41-entry kind table (path-split), `simple` field absent/any value (symbolic)"},
            {"group": "events", "name": "c16_fs_parse_1", "covers": ["last kind of the range"], "bounds": "wire names 7..14 of the 41-entry kind table (path-split), `simple` field absent/any value (symbolic)"},
            {"group": "events", "name": "c16_fs_parse_2", "covers": ["last kind of the range"], "bounds": "wire names 14..21 of the 41-entry kind table (path-split), `simple` field absent/any value (symbolic)"},
            {"group": "events", "name": "c16_fs_parse_3", "covers": ["last kind of the range"], "bounds": "wire names 21..28 of the 41-entry kind table (path-split), `simple` field absent/any value (symbolic)"},
            {"group": "events", "name": "c16_fs_parse_4", "covers": ["last kind of the range"], "bounds": "wire names 28..35 of the 41-entry kind table (path-split), `simple` field absent/any value (symbolic)"},
            {"group": "events", "name": "c16_fs_parse_5", "covers": ["last kind of the range"], "bounds": "wire names 35..41 of the 41-entry kind table (path-split), `simple` field absent/any value (symbolic)"},
            {"group": "events", "name": "c16_fs_format_0", "covers": ["last kind of the range"], "mem_gb": 12, "bounds": "kinds 0..7 of the table: real format!(\"{kind:?}\") (core::fmt not stubbed) must equal the documented name; unwind 34", "timeout": {"quick": 1500, "thorough": 3000}},
            {"group": "events", "name": "c16_fs_format_1", "tiers": ("thorough",), "covers": ["last kind of the range"], "mem_gb": 12, "bounds": "kinds 7..14 of the table: real format!(\"{kind:?}\") (core::fmt not stubbed) must equal the documented name; unwind 34", "timeout": {"quick": 1500, "thorough": 3000}},
            {"group": "events", "name": "c16_fs_format_2", "tiers": ("thorough",), "covers": ["last kind of the range"], "mem_gb": 12, "bounds": "kinds 14..21 of the table: real format!(\"{kind:?}\") (core::fmt not stubbed) must equal the documented name; unwind 34", "timeout": {"quick": 1500, "thorough": 3000}},
            {"group": "events", "name": "c16_fs_format_3", "covers": ["last kind of the range"], "mem_gb": 12, "bounds": "kinds 21..28 of the table: real format!(\"{kind:?}\") (core::fmt not stubbed) must equal the documented name; unwind 34", "timeout": {"quick": 1500, "thorough": 3000}},
            {"group": "events", "name": "c16_fs_format_4", "tiers": ("thorough",), "covers": ["last kind of the range"], "mem_gb": 12, "bounds": "kinds 28..35 of the table: real format!(\"{kind:?}\") (core::fmt not stubbed) must equal the documented name; unwind 34", "timeout": {"quick": 1500, "thorough": 3000}},
            {"group": "events", "name": "c16_fs_format_5", "tiers": ("thorough",), "covers": ["last kind of the range"], "mem_gb": 12, "bounds": "kinds 35..41 of the table: real format!(\"{kind:?}\") (core::fmt not stubbed) must equal the documented name; unwind 34", "timeout": {"quick": 1500, "thorough": 3000}},
            {"group": "events", "name": "c16_signal_wire_roundtrip", "covers": ["numeric wire form", "named wire form"], "bounds": "every first-class signal and Custom(n) for all i32 n"},
            {"group": "events", "name": "c16_signal_wire_parse", "covers": ["custom"], "bounds": "every wire signal value (7 names, all i32 numbers)"},
            {"group": "events", "name": "c16_fs_simple_class_all_kinds", "covers": ["Access(Close(Write))"], "bounds": "all 41 kinds (symbolic table index)"},
            {"group": "events", "module": "c16ser", "name": "c16_json_shape_simple_tags", "covers": ["source tag"], "bounds": "source / keyboard / process / signal / unknown tags through the real derive(Serialize): emitted field names, order, omission of absent fields, spelling of every unit-variant value; pid over u32, custom signal over i32"},
            {"group": "events", "module": "c16ser", "name": "c16_json_shape_path_tag", "covers": ["filetype present"], "bounds": "path tag: `kind`,`absolute`,`filetype` (all four file types, or omitted)"},
            {"group": "events", "module": "c16ser", "name": "c16_json_shape_completion", "covers": ["exit signal"], "bounds": "completion tag: every disposition, codes over i64/i32, signal field"},
            {"group": "events", "module": "c16ser", "name": "c16_json_shape_fs_tag", "bounds": "fs tag: `kind`,`simple`,`full` for one concrete kind"},
            {"group": "events", "module": "c16ser", "name": "c16_json_values_wire_enums", "covers": ["completion kind"], "bounds": "spelling of all 5 + 8 + 7 unit variants of the wire enums"},
            {"group": "events", "module": "c16de", "name": "c16_json_parse_wellformed", "covers": ["last scenario of the range"], "bounds": "8 concrete JSON tag objects (documented names, any field order, an unknown extra field) through the real derive(Deserialize); integers symbolic"},
            {"group": "events", "module": "c16de", "name": "c16_json_parse_degraded", "covers": ["last scenario of the range"], "bounds": "8 concrete objects of a known kind with missing / foreign / contradictory fields: must parse (never error) to Unknown or the documented fallback, never to another kind"},
            {"group": "events", "module": "c16ev", "name": "c16_event_tags_preserved", "timeout": {"quick": 600, "thorough": 1800}, "covers": ["adjacent equal tags", "adjacent process tags with equal pids"], "bounds": "events of 0..=3 tags in 5 kind patterns (process with symbolic pid / keyboard / unknown; equal neighbours included), empty metadata: Event -> SerdeEvent -> Event keeps number, order and content; stub: RandomState::new -> fixed keys (no key is hashed)"},
            {"group": "events", "module": "c16evjson", "name": "c16_json_event_empty_roundtrip", "covers": ["empty event parsed"], "bounds": "Event level: the tagless, metadata-less event serialises (real derive(Serialize) through SerdeEvent, recording serializer) to an object with NO fields, and that empty object parses back (real derive(Deserialize)) to the empty event (added after seed r4-tagless-event-unparsable)"},
            {"group": "events", "name": "c16_fs_simple_only", "covers": ["remove"], "bounds": "5 coarse kinds"},
        ],
    },
    "C19": {
        "bounds": "all i32 signal numbers; all 2^32 raw wait statuses; exit codes 1..=255; every first-class signal and Custom(n) for all n",
        "outside": "name parsing/Display (from_str, from_unix_str, from_windows_str), --map-signal parser, Windows branches",
        "trusted": ["Kani 0.68 / CBMC 6.11 / CaDiCaL", "std::process::ExitStatus unix wait-status decoding as compiled"],
        "assumptions": ["Linux signal numbering (target x86_64-unknown-linux-gnu)"],
        "harnesses": [
            {"group": "events", "name": "c19_from_i32_vs_to_nix", "covers": ["custom", "first-class"], "bounds": "all i32"},
            {"group": "events", "name": "c19_nix_roundtrip", "covers": ["custom roundtrip"], "bounds": "all Signal values"},
            {"group": "events", "name": "c19_every_os_signal", "bounds": "n in 1..=31"},
            {"group": "events", "name": "c19_exitstatus_to_processend", "covers": ["exit error", "signalled with core bit", "stopped"], "bounds": "all 2^32 raw statuses"},
            {"group": "events", "name": "c19_processend_roundtrip", "covers": ["custom terminating signal"], "bounds": "Success, ExitError(1..=255), ExitSignal(any valid)"},
        ],
    },
    "C07": {
        "bounds": "flag/ticket level: 3 waiters, 3 pre-raise poll slots in any interleaving (a waiter may poll repeatedly), raise of either the control flag or the job-gone flag",
        "outside": "wake-ups racing on real threads (AtomicWaker/atomics are executed sequentially); panicking job tasks",
        "trusted": ["Kani 0.68 / CBMC 6.11 / CaDiCaL", "models/tokio (wakers, executor, virtual time)", "hook watchexec_supervisor::verif (cfg(kani))"],
        "assumptions": ["a waiter is a task that polled with its own waker and returned Pending; it makes progress only if that waker is woken"],
        "harnesses": [
            {"group": "supervisor", "name": "c07_flag_all_waiters_woken", "mem_gb": 6, "covers": ["three waiters pending", "re-poll after another waiter registered"],
             "bounds": "3 waiters, 3 poll slots each taken by any waiter or skipped; first slot = waiter 0 by symmetry (16 schedules, path-split)"},
            {"group": "supervisor", "name": "c07_flag_all_waiters_woken_full", "tiers": ("thorough",), "mem_gb": 16, "covers": ["three waiters pending"],
             "bounds": "as above without the symmetry argument (64 schedules)", "timeout": {"thorough": 3000}},
            {"group": "supervisor", "name": "c07_flag_five_waiters", "tiers": ("thorough",), "mem_gb": 10, "covers": ["five waiters pending", "schedule ran to its end"], "bounds": "5 waiters; 3 free poll slots among waiters 0..=2 (first = waiter 0) then waiters 3 and 4 register (waker list grows past its initial capacity); 16 schedules", "timeout": {"thorough": 3000}},
            {"group": "jobq", "name": "api_one_call_done_a", "mem_gb": 6, "covers": ["scenario ran to its end"], "bounds": "Job methods 0..10 (path-split): the returned ticket shares the done flag of exactly the LAST control enqueued and the job's gone flag; pending until then; waiter woken"},
            {"group": "jobq", "name": "api_one_call_done_b", "mem_gb": 6, "covers": ["scenario ran to its end"], "bounds": "Job methods 10..20"},
            {"group": "jobq", "name": "api_one_call_gone_a", "tiers": ("thorough",), "mem_gb": 6, "covers": ["scenario ran to its end"], "bounds": "methods 0..10, job ends: ticket resolves through gone"},
            {"group": "jobq", "name": "api_one_call_gone_b", "tiers": ("thorough",), "mem_gb": 6, "covers": ["scenario ran to its end"], "bounds": "methods 10..20, job ends"},
            {"group": "jobq", "name": "api_one_call_dead_a", "tiers": ("thorough",), "mem_gb": 6, "covers": ["scenario ran to its end"], "bounds": "dead job: already-resolved ticket, nothing enqueued"},
            {"group": "jobq", "name": "api_one_call_dead_b", "tiers": ("thorough",), "mem_gb": 6, "covers": ["scenario ran to its end"], "bounds": "dead job, methods 10..20"},
            {"group": "supervisor", "name": "c07_ticket_one_task_two_tickets", "mem_gb": 6, "covers": ["job ends while one of the two tickets is outstanding", "schedule ran to its end"], "bounds": "one waker polling two tickets of one job in either order (join!-style), either control completes first, then the other completes or the job ends (8 schedules)"},
            {"group": "supervisor", "name": "c07_ticket_waker_replacement", "covers": ["schedule ran to its end"], "bounds": "one ticket polled under waker X, then Y (, then X again); control flag or job-gone flag raised (4 schedules)"},
            {"group": "supervisor", "name": "c07_ticket_clone_first_control_done_a", "mem_gb": 6, "covers": ["schedule ran to its end"], "bounds": "3 waiters (2 clones + 1 other ticket of the job), 3 poll slots; first = a clone of the ticket; second slot: waiter 0 or 1; the control's own flag is raised (8 schedules, path-split)"},
            {"group": "supervisor", "name": "c07_ticket_clone_first_control_done_b", "mem_gb": 6, "covers": ["schedule ran to its end"], "bounds": "3 waiters (2 clones + 1 other ticket of the job), 3 poll slots; first = a clone of the ticket; second slot: waiter 2 or skipped; the control's own flag is raised (8 schedules, path-split)"},
            {"group": "supervisor", "name": "c07_ticket_clone_first_job_gone_a", "mem_gb": 6, "covers": ["schedule ran to its end"], "bounds": "3 waiters (2 clones + 1 other ticket of the job), 3 poll slots; first = a clone of the ticket; second slot: waiter 0 or 1; the job-gone flag is raised (8 schedules, path-split)"},
            {"group": "supervisor", "name": "c07_ticket_clone_first_job_gone_b", "mem_gb": 6, "covers": ["schedule ran to its end"], "bounds": "3 waiters (2 clones + 1 other ticket of the job), 3 poll slots; first = a clone of the ticket; second slot: waiter 2 or skipped; the job-gone flag is raised (8 schedules, path-split)"},
            {"group": "supervisor", "name": "c07_ticket_other_first_control_done_a", "mem_gb": 6, "covers": ["schedule ran to its end"], "bounds": "3 waiters (2 clones + 1 other ticket of the job), 3 poll slots; first = the other ticket of the job; second slot: waiter 0 or 1; the control's own flag is raised (8 schedules, path-split)"},
            {"group": "supervisor", "name": "c07_ticket_other_first_control_done_b", "mem_gb": 6, "covers": ["schedule ran to its end"], "bounds": "3 waiters (2 clones + 1 other ticket of the job), 3 poll slots; first = the other ticket of the job; second slot: waiter 2 or skipped; the control's own flag is raised (8 schedules, path-split)"},
            {"group": "supervisor", "name": "c07_ticket_other_first_job_gone_a", "mem_gb": 6, "covers": ["schedule ran to its end"], "bounds": "3 waiters (2 clones + 1 other ticket of the job), 3 poll slots; first = the other ticket of the job; second slot: waiter 0 or 1; the job-gone flag is raised (8 schedules, path-split)"},
            {"group": "supervisor", "name": "c07_ticket_other_first_job_gone_b", "mem_gb": 6, "covers": ["schedule ran to its end"], "bounds": "3 waiters (2 clones + 1 other ticket of the job), 3 poll slots; first = the other ticket of the job; second slot: waiter 2 or skipped; the job-gone flag is raised (8 schedules, path-split)"},
        ],
    },
    "C18": {
        "bounds": "Program::Shell: 0..=2 options, program option absent/borrowed/owned, 0..=2 extra args, three length patterns (one in quick), all bytes symbolic ASCII; CLI interpret_command_args: 1-2 words of 1-2 bytes, --no-shell / --shell=none / --shell=sh / --shell=''; Program::Exec: program (1 byte) + 0..=3 args of 0..=2 bytes; every byte symbolic over ASCII 0x01..=0x7f (all shell metacharacters, whitespace, quotes, control characters); one concrete multi-byte argument; all 8 spawn-option combinations (symbolic). Counts/lengths are path-split, bytes and options solver-decided.",
        "outside": "shells found through $SHELL (getenv FFI) and multi-word --shell values in the CLI, what tokio/std/the kernel do with the argv (exec fidelity, pgid/sid), strings longer than 2 bytes, NUL bytes, spawn-hook env/cwd visibility in a real child, CLI argument interpretation",
        "trusted": ["Kani 0.68 / CBMC 6.11 / CaDiCaL", "models/tokio process::Command (records program/args verbatim)", "models/process-wrap (records wrapper kinds)", "stub MaybeUninit::write -> ptr::write (same semantics, avoids a whole-union store)", "hook watchexec_cli::verif (cfg(kani)): baseline Args constructors + wrappers of private fns", "patched copy of backtrace 0.3.74 (one `unreachable!` spelled core::unreachable!, needed to compile under kani-compiler)"],
        "assumptions": ["tokio::process::Command::arg/args append one argv element per call/item (documented std behaviour)"],
        "harnesses": [
            {"group": "supervisor", "name": "c18_exec_argv_exact", "mem_gb": 8, "covers": ["three args, first empty", "argument ' *'", "first argument equals the program", "last argument ends in a newline"], "bounds": "0..=3 args x 3 length patterns (every position sees every length 0..=2) x symbolic bytes x symbolic options"},
            {"group": "supervisor", "name": "c18_exec_argv_unicode", "bounds": "1..=3 args, first = multi-byte/space/quote string"},
            {"group": "supervisor", "name": "c18_exec_nonutf8_program", "covers": ["program name that is not valid UTF-8"], "bounds": "Program::Exec with a 2-byte program name over 0x01..=0xff (every non-UTF-8 sequence) and one 2-byte ASCII argument; options symbolic (added after seed r4-lossy-program-path)"},
            {"group": "supervisor", "name": "c18_exec_full_1arg", "tiers": ("thorough",), "mem_gb": 10, "bounds": "1 argument, lengths 0..=2 (3 shapes); bytes and options symbolic", "timeout": {"thorough": 3600}},
            {"group": "supervisor", "name": "c18_exec_full_2args", "tiers": ("thorough",), "mem_gb": 10, "bounds": "2 arguments, all 9 length combinations; bytes and options symbolic", "timeout": {"thorough": 3600}},
            {"group": "supervisor", "name": "c18_exec_full_3args_len0", "tiers": ("thorough",), "mem_gb": 10, "bounds": "3 arguments, first empty, 9 length combinations; bytes and options symbolic", "timeout": {"thorough": 3600}},
            {"group": "supervisor", "name": "c18_exec_full_3args_len1", "tiers": ("thorough",), "mem_gb": 10, "bounds": "3 arguments, first 1 byte, 9 combinations; bytes and options symbolic", "timeout": {"thorough": 3600}},
            {"group": "supervisor", "name": "c18_exec_full_3args_len2", "tiers": ("thorough",), "mem_gb": 10, "bounds": "3 arguments, first 2 bytes, 9 combinations; bytes and options symbolic", "timeout": {"thorough": 3600}},
            {"group": "shell", "module": "c18shell", "name": "c18_shell_no_progopt", "mem_gb": 5, "covers": ["two options and two extra arguments", "no options and no extra arguments", "command 'a b'"],
             "bounds": "Program::Shell without program option: 0..=2 options (lengths 2,1) x 0..=2 extra args (lengths 2,0: an empty argument included), command of 3 bytes; 9 shapes path-split, every byte symbolic ASCII 0x01..=0x7f, 3 spawn options symbolic; stub: MaybeUninit::write -> ptr::write"},
            {"group": "shell", "module": "c18shell", "name": "c18_shell_borrowed_progopt", "mem_gb": 8, "covers": ["two options and two extra arguments", "no options and no extra arguments", "command 'a b'"],
             "bounds": "as c18_shell_no_progopt with a 2-byte Cow::Borrowed program option (symbolic bytes)"},
            {"group": "shell", "module": "c18shell", "name": "c18_shell_owned_progopt", "mem_gb": 8, "covers": ["two options and two extra arguments", "no options and no extra arguments", "command 'a b'"],
             "bounds": "as c18_shell_no_progopt with a 2-byte Cow::Owned program option (symbolic bytes)"},
            {"group": "shell", "module": "c18shell", "name": "c18_shell_order_one_of_each", "covers": ["command 'a b'"],
             "bounds": "one shape: 1 option, borrowed program option, 3-byte command, 1 extra arg; all bytes and spawn options symbolic (small enough that an ordering change is decided rather than running out of memory)"},
            {"group": "shell", "module": "c18shell", "name": "c18_shell_nonutf8_prog_and_progopt", "covers": ["shell program and program option that are not valid UTF-8"], "bounds": "Program::Shell with a 2-byte shell program and a 2-byte owned program option over 0x01..=0xff (non-UTF-8 included), one ASCII option, 2-byte command"},
            {"group": "shell", "module": "c18shell", "name": "c18_shell_new_helper", "covers": ["Shell::new with two extra arguments"],
             "bounds": "Shell::new(name): no options, program option -c; 0..=2 extra args"},
            {"group": "shell", "module": "c18shell", "name": "c18_shell_lens_b_no_progopt", "tiers": ("thorough",), "mem_gb": 5, "covers": ["empty command string before two extra arguments"], "bounds": "second length pattern: options (0,2), empty command, args (1,2); 9 shapes"},
            {"group": "shell", "module": "c18shell", "name": "c18_shell_lens_b_borrowed_progopt", "tiers": ("thorough",), "mem_gb": 8, "covers": ["empty command string before two extra arguments"], "bounds": "second length pattern, 1-byte borrowed program option"},
            {"group": "shell", "module": "c18shell", "name": "c18_shell_lens_b_owned_progopt", "tiers": ("thorough",), "mem_gb": 8, "covers": ["empty command string before two extra arguments"], "bounds": "second length pattern, 1-byte owned program option"},
            {"group": "shell", "module": "c18shell", "name": "c18_shell_lens_c_no_progopt", "tiers": ("thorough",), "mem_gb": 5, "bounds": "third length pattern: options (1,0), 1-byte command, args (0,1); 9 shapes"},
            {"group": "shell", "module": "c18shell", "name": "c18_shell_lens_c_borrowed_progopt", "tiers": ("thorough",), "mem_gb": 8, "bounds": "third length pattern, empty borrowed program option, 2-byte command"},
            {"group": "shell", "module": "c18shell", "name": "c18_shell_lens_c_owned_progopt", "tiers": ("thorough",), "mem_gb": 8, "bounds": "third length pattern, empty owned program option"},
            {"group": "cli", "name": "c18_cli_exec", "mem_gb": 4, "covers": ["two words via --shell=none, space and quote", "one one-byte word via --no-shell"],
             "bounds": "cli::config::interpret_command_args without a shell: 4 word shapes via --no-shell + 2 via --shell=none (path-split), 1-2 words of 1-2 symbolic ASCII bytes, wrap mode symbolic; stubs: catch_unwind, miette capture_handler"},
            {"group": "cli", "name": "c18_cli_shell_1w2", "mem_gb": 4, "covers": ["shell command built, metacharacters kept"], "bounds": "interpret_command_args with --shell=sh: one 2-byte word; wrap mode symbolic"},
            {"group": "cli", "name": "c18_cli_shell_2w12", "mem_gb": 4, "covers": ["shell command built, metacharacters kept"], "bounds": "--shell=sh: two words of 1 and 2 bytes joined by exactly one space"},
            {"group": "cli", "name": "c18_cli_shell_2w21", "mem_gb": 4, "covers": ["shell command built, metacharacters kept"], "bounds": "--shell=sh: two words of 2 and 1 bytes"},
            {"group": "cli", "name": "c18_cli_shell_concrete_words", "mem_gb": 4, "covers": ["concrete three-word command built"], "bounds": "--shell=sh, three concrete words ('a b', '', \"c'd\"): joined verbatim by single spaces (added after seed r3-c18-cli-1 made the symbolic-byte harnesses run out of budget)"},
            {"group": "cli", "name": "c18_cli_exec_concrete_single_word", "mem_gb": 4, "covers": ["single word with blanks kept whole"], "bounds": "--no-shell with one concrete word containing blanks, a tab and a quote: Exec{prog = the word, args = []} (added after seed r4-noshell-single-word-split made the symbolic-byte harness hit its wall cap)"},
            {"group": "cli", "name": "c18_cli_shell_multiword", "mem_gb": 4, "covers": ["multi-word shell command built"], "bounds": "--shell='bash  -e\\t-u' (concrete, mixed whitespace), two concrete command words: prog = first word, options = the rest in order, -c, command joined by single spaces"},
            {"group": "cli", "name": "c18_cli_empty_shell", "mem_gb": 4, "covers": ["empty shell rejected"], "bounds": "--shell='' must be an error"},
        ],
    },

    "C05": {
        "bounds": "EventsArgs::normalise only: initial mode (4 values), --restart, --signal (None / 7 named / Custom over all i32), emit mode (6), --no-environment, only_emit_events, stdin_quit, postpone: all symbolic in one query",
        "outside": "the on-busy policy itself (closure in cli::config::make_config driving Job controls: async, not encodable), --postpone / start-up run, stdin_quit with --watch-file=- (PathBuf comparison)",
        "trusted": ["Kani 0.68 / CBMC 6.11 / CaDiCaL", "hook watchexec_cli::verif (cfg(kani)): baseline Args constructors + wrappers", "stub std::panic::catch_unwind -> Ok(f())", "patched copy of backtrace 0.3.74 (one macro call respelled so that it compiles under kani-compiler)"],
        "assumptions": ["the baseline EventsArgs/CommandArgs/FilteringArgs values of the hook are what clap yields for an empty command line (clap parsing is not encoded)"],
        "harnesses": [
            {"group": "cli", "name": "c05_events_normalise", "mem_gb": 5, "covers": ["custom signal wins over restart"], "bounds": "all flag / mode / signal combinations (symbolic)"},
        ],
    },
    "C12": {
        "bounds": "FilteringArgs::normalise only (polled once, must complete): the five no-* flags, --ignore-nothing and --no-meta symbolic; file lists, filter programs empty; project origin and workdir '/'",
        "outside": "what dirs::ignores / WatchexecFilterer::new do with the flags (tokio::fs discovery, glob engine), explicit --ignore-file / --filter-file contents, clap parsing",
        "trusted": ["Kani 0.68 / CBMC 6.11 / CaDiCaL", "hook watchexec_cli::verif (cfg(kani))", "stubs: catch_unwind, miette::eyreish::capture_handler (kani-compiler ICE work-around), dunce::canonicalize -> identity"],
        "assumptions": ["baseline FilteringArgs of the hook = clap's defaults"],
        "harnesses": [
            {"group": "cli", "name": "c12_filtering_normalise_flags", "mem_gb": 9, "covers": ["ignore-nothing from all-false"], "timeout": {"quick": 1500, "thorough": 3000},
             "bounds": "2^7 flag combinations (symbolic)"},
        ],
    },
    "C02": {
        "bounds": "Priority: symbolic triple over the whole enumeration (bounded by variant_count); Event::is_empty: 0..=2 tags of 5 kinds (31 shapes), payload integers symbolic",
        "outside": "the debounce window itself: lib::action::worker::throttle_collect (async; measured: one poll of the real future did not finish symbolic execution in 15-21 min with every cut applied, see DESIGN section 5)",
        "trusted": ["Kani 0.68 / CBMC 6.11 / CaDiCaL", "models/tracing no-op macros"],
        "assumptions": [],
        "harnesses": [
            {"group": "lib", "name": "c02_priority_total_order", "covers": ["strictly-ascending-triple", "urgent-vs-low"], "bounds": "all triples of priorities"},
            {"group": "lib", "name": "c02_event_is_empty", "covers": ["no-tags", "two-tags-internal"], "bounds": "0..=2 tags of 5 cheap kinds, empty metadata (fixed hasher)"},
        ],
    },
    "C13": {
        "bounds": "Changeable / ChangeableFn / ChangeableFilterer and the Config setters, one operation sequence per harness (2-3 replaces, nested replace from inside call), stored values symbolic; the change signal is the real tokio::sync::Notify (one registered listener)",
        "outside": "the fs worker's read-apply-wait loop and ConfigWatched::next (async), watcher registration, failures of watch/unwatch, real thread interleavings (RwLock executed sequentially; a mutant that holds the read lock across the handler call makes the harness inconclusive - RwLock::write spins on an unsupported intrinsic - not a pass)",
        "trusted": ["Kani 0.68 / CBMC 6.11 / CaDiCaL", "models/tracing no-op macros", "hook watchexec::verif::config_change_signal (cfg(kani))", "stub Box::write -> ptr::write (same semantics; Arc::default goes through a MaybeUninit union store otherwise)"],
        "assumptions": [],
        "harnesses": [
            {"group": "lib", "name": "c13_changeable_last_write_wins", "covers": ["distinct-values"], "bounds": "u64 and Duration values symbolic; get after replace, clones share state"},
            {"group": "lib", "name": "c13_changeablefn_calls_current_once", "covers": ["distinct-closures"], "bounds": "call reaches the installed closure exactly once; after replace only the new one"},
            {"group": "lib", "name": "c13_replace_from_inside_call", "covers": ["reconfigured-from-inside"], "bounds": "handler replaces itself from inside call, nested twice: no deadlock, invocation in progress unaffected"},
            {"group": "lib", "name": "c13_config_filterer_swap", "covers": ["rejects", "errors"], "bounds": "Config::filterer then check_event: verdict Ok(true)/Ok(false)/Err symbolic"},
            {"group": "lib", "module": "c13watch", "name": "c13_watch_change_while_parked", "covers": ["change while parked seen"], "bounds": "real ConfigWatched::next: first call resolves at once, the second stays pending without a change, a setter called while it is parked resolves it (throttle seconds symbolic)"},
            {"group": "lib", "module": "c13watch", "name": "c13_watch_change_between_nexts", "covers": ["change between two next() calls made"], "bounds": "the REAL async ConfigWatched::next over the real tokio Notify: first next() resolves; a Config setter runs while no next() future is alive (the worker is applying the configuration); the following next() must resolve (found the lost-change defect, fixed in /repo 0f1505c)"},
            {"group": "lib", "module": "c13watch", "name": "c13_watch_two_changes_then_quiet", "covers": ["quiet after the changes were seen"], "bounds": "real ConfigWatched::next: two setters between two calls -> the next call resolves; the call after that stays pending (nothing lost, nothing reported twice)"},
            {"group": "lib", "name": "c13_config_throttle", "covers": ["throttle"], "bounds": "symbolic Duration stored exactly; listener on the change signal woken"},
            {"group": "lib", "name": "c13_config_keyboard_events", "covers": ["keyboard-on"], "bounds": "symbolic bool"},
            {"group": "lib", "name": "c13_config_file_watcher_poll", "covers": ["watcher-poll"], "bounds": "Watcher::Poll(symbolic interval)"},
            {"group": "lib", "name": "c13_config_file_watcher_native", "covers": ["watcher-native"], "bounds": "Watcher::Native"},
            {"group": "lib", "name": "c13_config_on_error", "covers": ["on-error"], "bounds": "handler replaced, listener woken"},
            {"group": "lib", "name": "c13_config_direct_write_no_signal", "covers": ["direct-write"], "bounds": "direct Changeable write does not signal (documented)"},
            {"group": "lib", "name": "c13_config_pathset", "covers": ["two-paths", "no-paths"], "bounds": "0..=2 two-byte paths stored in order, byte-compared"},
        ],
    },
    "C15": {
        "bounds": "(a) the REAL async error_hook task (its while-let loop over errors.recv().await) polled by the harness over a model mpsc channel pre-loaded with two runtime errors (NoCommands, ProcessDeadOnArrival) x handler behaviours {ignore both, keep first hook + elevate second, ignore first + elevate second, elevate first} x channel open/closed; (b) the body of error_hook's loop (ErrorHook::new, handler.call, ErrorHook::handle_crit) for one runtime error, 9 RuntimeError variants without io/notify payloads (incl. External) (signal numbers and message bytes symbolic) x handler behaviours {ignore, elevate, critical(Exit), critical(other), move then critical, keep the hook alive}; two successive errors in thorough",
        "outside": "the senders of the error channel (worker / fs worker / action worker send sites, all async), more than two queued errors, errors arriving while the task is parked (the wake-up is the model channel's),  RuntimeError variants carrying io::Error / notify::Error, the main task's reaction to the returned critical error, a hook kept alive and made critical later (measured OOM)",
        "trusted": ["Kani 0.68 / CBMC 6.11 / CaDiCaL", "models/tracing no-op macros", "hook watchexec::verif::{hook_new, hook_crit_cell, hook_handle_crit, error_hook_task} (cfg(kani))", "models/tokio-full (mpsc channel, wakers) for the loop harnesses", "stub Box::write -> ptr::write"],
        "assumptions": ["run_body in the (b) harnesses is the loop body of lib::watchexec::error_hook verbatim", "models/tokio-full mpsc: FIFO, recv is Ready while a message is queued, None once every sender is gone (tokio's documented contract)"],
        "harnesses": [
            {"group": "lib", "name": "c15_elevate_signal", "covers": ["elevate"], "bounds": "elevate(), RuntimeError::UnsupportedSignal(symbolic signal)"},
            {"group": "lib", "name": "c15_elevate_external", "covers": ["elevate"], "bounds": "elevate(), RuntimeError::External(Box<dyn Error>) with a harness-defined payload (added after seed r3-c15-errhook-1 was missed)"},
            {"group": "lib", "name": "c15_critical_exit", "covers": ["critical-exit"], "bounds": "critical(CriticalError::Exit) on InternalSupervisor(3 symbolic bytes)"},
            {"group": "lib", "name": "c15_outstanding_ref", "covers": ["outstanding-ref"], "bounds": "handler keeps the hook alive"},
            {"group": "lib", "name": "c15_ignore_a", "covers": ["ignore"], "mem_gb": 6, "bounds": "handler ignores; 4 variants (path-split)"},
            {"group": "throttle", "module": "errloop", "name": "c15_loop_keep_first_elevate_second", "covers": ["first hook kept alive, second elevated"], "mem_gb": 4, "bounds": "the REAL error_hook task future polled over a model mpsc channel holding two errors: the handler keeps the first ErrorHook alive (outstanding reference) and elevates the second: both handed over once, in order; the task ends with Elevated carrying the second error"},
            {"group": "throttle", "module": "errloop", "name": "c15_loop_elevate_first", "covers": ["first elevated, second never handed over"], "mem_gb": 4, "bounds": "real error_hook future, two queued errors, the first is elevated: the task ends at once with Elevated(first); the handler is not called again"},
            {"group": "throttle", "module": "errloop", "name": "c15_loop_two_ignored_open", "covers": ["two errors ignored, task keeps waiting"], "mem_gb": 4, "bounds": "real error_hook future, two queued errors both ignored, channel still open: both handed over once in order, the task stays pending (Watchexec keeps running)"},
            {"group": "throttle", "module": "errloop", "name": "c15_loop_two_ignored_closed", "tiers": ("thorough",), "covers": ["two errors ignored, channel closed"], "mem_gb": 4, "bounds": "as above with every sender gone: the task ends Ok"},
            {"group": "throttle", "module": "errloop", "name": "c15_loop_ignore_first_elevate_second", "tiers": ("thorough",), "covers": ["first ignored, second elevated"], "mem_gb": 4, "bounds": "real error_hook future: first ignored (hook dropped), second elevated"},
            {"group": "lib", "name": "c15_ignore_b", "tiers": ("thorough",), "covers": ["ignore"], "mem_gb": 6, "bounds": "handler ignores; the other 4 variants"},
            {"group": "lib", "name": "c15_elevate_no_commands", "tiers": ("thorough",), "covers": ["elevate"], "bounds": "elevate(), NoCommands"},
            {"group": "lib", "name": "c15_elevate_dead_on_arrival", "tiers": ("thorough",), "covers": ["elevate"], "bounds": "elevate(), ProcessDeadOnArrival"},
            {"group": "lib", "name": "c15_elevate_empty_command", "tiers": ("thorough",), "covers": ["elevate"], "bounds": "elevate(), CommandShellEmptyCommand"},
            {"group": "lib", "name": "c15_elevate_keyboard", "tiers": ("thorough",), "covers": ["elevate"], "bounds": "elevate(), KeyboardWatcher"},
            {"group": "lib", "name": "c15_elevate_lock_held", "tiers": ("thorough",), "covers": ["elevate"], "bounds": "elevate(), HandlerLockHeld"},
            {"group": "lib", "name": "c15_elevate_supervisor", "tiers": ("thorough",), "covers": ["elevate"], "bounds": "elevate(), InternalSupervisor"},
            {"group": "lib", "name": "c15_elevate_handler", "tiers": ("thorough",), "covers": ["elevate"], "bounds": "elevate(), Handler{ctx, err}"},
            {"group": "lib", "name": "c15_critical_other", "tiers": ("thorough",), "covers": ["critical-other"], "bounds": "critical(ErrorChannelSend(..))"},
            {"group": "lib", "name": "c15_moved_then_critical", "tiers": ("thorough",), "covers": ["moved-then-critical"], "mem_gb": 8, "bounds": "hook moved into a Box, then critical()"},
            {"group": "lib", "name": "c15_two_errors", "tiers": ("thorough",), "covers": ["second-elevated"], "mem_gb": 8, "bounds": "two successive errors: first ignored, second elevated"},
        ],
    },

    "C10": {
        "bounds": "send side: each of the 20 public ticket-returning Job methods alone (path-split), and two successive calls over 5 representative methods (stop_with_signal, restart_with_signal, to_wait, delete_now, run: 25 ordered pairs); receive side: one poll of the real PriorityReceiver::recv per harness for the queue/timer states that are decided before its select! (urgent/high pending, expired timer), tags symbolic",
        "outside": "every recv scenario that reaches tokio::select! (only normal controls pending, armed timer with nothing urgent/high, wake-up after Pending): measured - no symbolic-execution result in 330-400 s per scenario; the job task's use of the received control (task.rs); concurrent senders on real threads; all 400 method pairs",
        "trusted": ["Kani 0.68 / CBMC 6.11 / CaDiCaL", "models/tokio (mpsc ring, wakers, virtual clock)", "hooks watchexec_supervisor::verif::{job_from_parts, priority_new, ...} (cfg(kani))"],
        "assumptions": ["tokio's unbounded mpsc is FIFO per channel (the model's documented contract)"],
        "harnesses": [
            {"group": "jobq", "name": "api_one_call_done_a", "mem_gb": 6, "covers": ["scenario ran to its end"], "bounds": "methods 0..10, controls complete in order; " + 'real Job API against the model mpsc queues: signal symbolic (7 first-class or Custom(any i32)), grace any Duration; the method is path-split; every queue is drained with try_recv and compared with the exact expected control list'},
            {"group": "jobq", "name": "api_one_call_done_b", "mem_gb": 6, "covers": ["scenario ran to its end"], "bounds": "methods 10..20, controls complete in order"},
            {"group": "jobq", "name": "api_one_call_gone_a", "tiers": ("thorough",), "mem_gb": 6, "covers": ["scenario ran to its end"], "bounds": "methods 0..10, the job ends instead (gone raised)"},
            {"group": "jobq", "name": "api_one_call_gone_b", "tiers": ("thorough",), "mem_gb": 6, "covers": ["scenario ran to its end"], "bounds": "methods 10..20, gone raised"},
            {"group": "jobq", "name": "api_one_call_dead_a", "tiers": ("thorough",), "mem_gb": 6, "covers": ["scenario ran to its end"], "bounds": "methods 0..10 on a dead job: nothing enqueued, ticket ready"},
            {"group": "jobq", "name": "api_one_call_dead_b", "tiers": ("thorough",), "mem_gb": 6, "covers": ["scenario ran to its end"], "bounds": "methods 10..20 on a dead job"},
            {"group": "jobq", "name": "api_two_calls_in_order_1", "mem_gb": 6, "covers": ["scenario ran to its end"], "bounds": "restart_with_signal then any of the 5 representatives; same-queue calls stay in call order, each ticket only resolved by its own last control"},
            {"group": "jobq", "name": "api_two_calls_in_order_3", "mem_gb": 6, "covers": ["scenario ran to its end"], "bounds": "delete_now then any of the 5 representatives"},
            {"group": "jobq", "name": "api_two_calls_in_order_0", "tiers": ("thorough",), "mem_gb": 6, "covers": ["scenario ran to its end"], "bounds": "stop_with_signal then any representative"},
            {"group": "jobq", "name": "api_two_calls_in_order_2", "tiers": ("thorough",), "mem_gb": 6, "covers": ["scenario ran to its end"], "bounds": "to_wait then any representative"},
            {"group": "jobq", "name": "api_two_calls_in_order_4", "tiers": ("thorough",), "mem_gb": 6, "covers": ["scenario ran to its end"], "bounds": "run then any representative"},
            {"group": "jobq", "name": "api_two_calls_reverse_0", "tiers": ("thorough",), "mem_gb": 6, "covers": ["scenario ran to its end"], "bounds": "as in_order_0, controls complete in reverse order"},
            {"group": "jobq", "name": "api_two_calls_reverse_1", "tiers": ("thorough",), "mem_gb": 6, "covers": ["scenario ran to its end"], "bounds": "as in_order_1, reverse completion"},
            {"group": "jobq", "name": "api_two_calls_reverse_2", "tiers": ("thorough",), "mem_gb": 6, "covers": ["scenario ran to its end"], "bounds": "as in_order_2, reverse completion"},
            {"group": "jobq", "name": "api_two_calls_reverse_3", "tiers": ("thorough",), "mem_gb": 6, "covers": ["scenario ran to its end"], "bounds": "as in_order_3, reverse completion"},
            {"group": "jobq", "name": "api_two_calls_reverse_4", "tiers": ("thorough",), "mem_gb": 6, "covers": ["scenario ran to its end"], "bounds": "as in_order_4, reverse completion"},
            {"group": "jobq", "name": "api_two_calls_gone_a", "tiers": ("thorough",), "mem_gb": 8, "covers": ["scenario ran to its end"], "bounds": "first call in {stop_with_signal, restart_with_signal}, job ends"},
            {"group": "jobq", "name": "api_two_calls_gone_b", "tiers": ("thorough",), "mem_gb": 8, "covers": ["scenario ran to its end"], "bounds": "first call in {to_wait, delete_now, run}, job ends"},
            {"group": "jobq", "name": "api_two_calls_dead", "tiers": ("thorough",), "mem_gb": 8, "covers": ["scenario ran to its end"], "bounds": "two calls on a dead job"},
            {"group": "jobq", "name": "recv_urgent_beats_high_and_normal", "covers": ["scenario ran to its end"], "bounds": "urgent, high and normal each hold one control: recv returns the urgent one, others untouched"},
            {"group": "jobq", "name": "recv_high_beats_normal", "covers": ["scenario ran to its end"], "bounds": "high and normal pending: the high one first"},
            {"group": "jobq", "name": "recv_urgent_fifo", "covers": ["scenario ran to its end"], "bounds": "two urgent controls, two successive recv calls: send order"},
            {"group": "jobq", "name": "recv_armed_timer_urgent_passes", "covers": ["scenario ran to its end"], "bounds": "armed (not expired) stop / restart timer, urgent pending: delivered, timer kept"},
            {"group": "jobq", "name": "recv_armed_timer_high_passes", "covers": ["scenario ran to its end"], "bounds": "armed timer, high pending: delivered, timer kept"},
            {"group": "jobq", "name": "recv_expired_stop_timer_first", "covers": ["scenario ran to its end"], "bounds": "expired stop timer (deadline == now and < now) with urgent+high+normal queued: forced Stop with the timer's flag first, timer cleared, queues untouched"},
            {"group": "jobq", "name": "recv_expired_restart_timer_first", "covers": ["scenario ran to its end"], "bounds": "expired restart timer: ContinueTryGracefulRestart with the timer's flag first"},
            {"group": "jobq", "name": "recv_normal_first_of_two", "covers": ["scenario ran to its end"], "bounds": "THROUGH select!: only the normal queue holds (two) controls, no timer: the first is returned, the second stays; select start index solver-chosen"},
            {"group": "jobq", "name": "recv_normal_fifo_two_recvs", "covers": ["scenario ran to its end"], "bounds": "through select! twice: two normal controls come out in send order"},
            {"group": "jobq", "name": "recv_empty_is_pending", "covers": ["scenario ran to its end"], "bounds": "through select!: nothing queued, no timer: Pending, nothing invented"},
            {"group": "jobq", "name": "recv_woken_by_normal_send", "covers": ["scenario ran to its end"], "bounds": "parked in select!, a normal control arrives: waiter woken, the same future yields it"},
            {"group": "jobq", "name": "recv_urgent_first_after_wait", "covers": ["scenario ran to its end"], "bounds": "parked in select! (no timer); a normal then an urgent control arrive before the re-poll: urgent first, for each of the 3 start indices of the re-poll (path-split)"},
            {"group": "jobq", "name": "recv_high_first_after_wait", "covers": ["scenario ran to its end"], "bounds": "the same with normal then high: high first, 3 start indices"},
            {"group": "jobq", "name": "recv_armed_timer_urgent_first_after_wait", "covers": ["scenario ran to its end"], "bounds": "parked in the armed-timer select!; high then urgent arrive: urgent first, 3 start indices x both timer kinds"},
            {"group": "jobq", "name": "recv_armed_timer_holds_back_normal", "covers": ["scenario ran to its end"], "bounds": "armed (not expired) timer, only a normal control queued: Pending, the normal control is NOT consumed, timer kept; both timer kinds"},
        ],
    },
    "C06": {
        "bounds": "Timer::stop / Timer::restart with grace seconds in {0, 1, 3600, u32::MAX} x symbolic nanoseconds (and any u32 seconds against the model's Instant arithmetic), creation time t0 < 2^62 ns and query time t1 >= t0 symbolic; recv with an armed or expired timer (one poll, concrete times); restart_with_signal / stop_with_signal / try_restart_with_signal enqueue exactly the documented controls with signal and grace unchanged",
        "outside": "everything the job task does with these controls (signal delivery, kill at expiry, holding back normal controls across polls, exactly-one respawn): supervisor::job::task is async and out of reach (DESIGN section 5); recv scenarios that reach select! (armed timer with only normal controls queued: no result in 400 s)",
        "trusted": ["Kani 0.68 / CBMC 6.11 / CaDiCaL", "models/tokio virtual clock and Instant", "hooks Timer::verif_{is_past,to_control,to_sleep} (cfg(kani))"],
        "assumptions": ["tokio::time::Instant arithmetic = the model's u64 nanosecond arithmetic"],
        "harnesses": [
            {"group": "jobq", "name": "timer_deadline_and_forced_control", "mem_gb": 5, "covers": ["one nanosecond before the deadline", "exactly at the deadline", "after the deadline", "zero grace"], "bounds": "deadline = t0 + grace exactly (independent u64 arithmetic); not past before it, past from it on; forced control = Stop / ContinueTryGracefulRestart carrying the timer's own flag"},
            {"group": "jobq", "name": "timer_any_grace", "covers": ["zero grace"], "bounds": "any u32 seconds + symbolic nanoseconds"},
            {"group": "jobq", "name": "recv_armed_timer_urgent_passes", "covers": ["scenario ran to its end"], "bounds": "see C10"},
            {"group": "jobq", "name": "recv_armed_timer_high_passes", "covers": ["scenario ran to its end"], "bounds": "see C10"},
            {"group": "jobq", "name": "recv_expired_stop_timer_first", "covers": ["scenario ran to its end"], "bounds": "see C10"},
            {"group": "jobq", "name": "recv_expired_restart_timer_first", "covers": ["scenario ran to its end"], "bounds": "see C10"},
            {"group": "jobq", "name": "recv_armed_timer_holds_back_normal", "covers": ["scenario ran to its end"], "bounds": "see C10"},
            {"group": "jobq", "name": "recv_timer_fires_while_pending", "covers": ["scenario ran to its end"], "bounds": "armed timer, recv parked in select!; the virtual clock reaches deadline-1 (no wake) then the deadline (woken): the SAME future yields the forced control with the timer's flag, clears the timer, leaves the normal control queued; both timer kinds"},
            {"group": "jobq", "name": "recv_timer_fires_then_new_recv", "covers": ["scenario ran to its end"], "bounds": "the same with a fresh recv call after the wake-up"},
            {"group": "jobq", "name": "api_one_call_done_a", "mem_gb": 6, "covers": ["scenario ran to its end"], "bounds": "includes stop_with_signal / restart_with_signal / try_restart_with_signal: [GracefulStop{signal,grace}, Start] etc. on the normal queue"},
        ],
    },
}

# ---- C19 name leg (group `signals`): one harness per table row / spelling family, generated ----
_SIGS = ["hup", "int", "quit", "ill", "trap", "abrt", "bus", "fpe", "kill", "usr1", "segv", "usr2", "pipe", "alrm", "term", "stkflt",
         "chld", "cont", "stop", "tstp", "ttin", "ttou", "urg", "xcpu", "xfsz", "vtalrm", "prof", "winch", "io", "pwr", "sys"]
_Q_FROMSTR = {"hup", "int", "quit", "kill", "usr1", "usr2", "term", "stop", "vtalrm", "io"}
_Q_UNIX = {"kill", "stop"}
_ROW = "one signal-table row: NAME, SIGNAME and the decimal number (path-split), letter case of every letter symbolic (u16 mask); stub alloc::fmt::format -> String::with_capacity(16) + the real core::fmt::write (exact text; the real one allocates a symbolic capacity and runs out of memory)"


def _t(quick):
    return {} if quick else {"tiers": ("thorough",)}


_C19N = []
for _s in _SIGS:
    _C19N.append(dict({"group": "signals", "module": "c19names", "name": f"c19_name_fromstr_{_s}", "mem_gb": 5,
                       "covers": ["first scenario reached in a non-canonical letter case"] + (["fromstr: a Windows control name took precedence over the unix short name"] if _s == "stop" else []),
                       "bounds": "<Signal as FromStr>::from_str on " + _ROW}, **_t(_s in _Q_FROMSTR)))
for _s in _SIGS:
    _C19N.append(dict({"group": "signals", "module": "c19names", "name": f"c19_name_unix_{_s}", "mem_gb": 6,
                       "covers": ["first scenario reached in a non-canonical letter case"] + (["unix: number spelling parsed"] if _s == "kill" else []),
                       "bounds": "Signal::from_unix_str on " + _ROW}, **_t(_s in _Q_UNIX)))
_C19N.append({"group": "signals", "module": "c19win", "name": "c19_win_names_direct", "mem_gb": 5, "covers": ["first control name reached in a non-canonical letter case", "last control name parsed in a non-canonical letter case"],
              "bounds": "from_windows_str on all 13 documented control names, every letter case"})
for _n, _q in (("ctrl_close", False), ("close_ctrl_break", False), ("break", False), ("ctrl_c", False), ("c_kill", True), ("sigkill_force_stop", False), ("stop", True)):
    _C19N.append(dict({"group": "signals", "module": "c19win", "name": f"c19_win_fromstr_{_n}", "mem_gb": 5, "covers": ["first control name reached in a non-canonical letter case"],
                       "bounds": "FromStr on the named Windows control names, every letter case: the documented signal (control names win over unix short names)"}, **_t(_q)))
for _n in ("1_5", "6_10"):
    _C19N.append({"group": "signals", "module": "c19win", "name": f"c19_win_total_len_{_n}", "mem_gb": 4, "covers": ["first length reached"],
                  "bounds": "EVERY ASCII string (bytes < 0x80) of each length in the range: from_windows_str is Ok exactly for the 13 names in any case, never panics"})
for _l in range(1, 10):
    _C19N.append(dict({"group": "signals", "module": "c19total", "name": f"c19_total_unix_len{_l}", "mem_gb": 6, "covers": ["a string that spells a signal"],
                       "bounds": f"EVERY ASCII string of length {_l}: from_unix_str is Ok exactly for NAME / SIGNAME (any case) / [+-]?digits in 1..=31, with that signal; never panics"}, **_t(_l == 3)))
for _l in range(1, 11):
    _C19N.append(dict({"group": "signals", "module": "c19total", "name": f"c19_total_fromstr_len{_l}", "mem_gb": 7, "covers": ["a string that spells a signal"],
                       "bounds": f"EVERY ASCII string of length {_l} through FromStr (Windows names first)"}, **_t(_l == 4)))
for _n in ("hup_kill", "int_quit", "term_usr1", "usr2"):
    _C19N.append({"group": "signals", "module": "c19display", "name": f"c19_display_first_{_n}", "mem_gb": 7, "covers": ["first-class display form produced"],
                  "bounds": "real to_string of the named first-class signals equals SIGxxx byte for byte, and parses back (FromStr) to the same OS signal"})
for _n, _q in (("1_3", False), ("4_6", False), ("7_9", True), ("10_12", False), ("13_15", False), ("16_18", False), ("19_21", False), ("22_24", False), ("25_27", False), ("28_30", False), ("31", True)):
    _C19N.append(dict({"group": "signals", "module": "c19display", "name": f"c19_display_custom_{_n}", "mem_gb": 8, "covers": ["custom display form produced"],
                       "bounds": "Custom(n) for the n in the name (concrete per path): text is the decimal number and parses back to OS signal n"}, **_t(_q)))
for _n, _q in (("0_32_neg1", True), ("64_99_100", False), ("max_min", False)):
    _C19N.append(dict({"group": "signals", "module": "c19display", "name": f"c19_display_outside_{_n}", "mem_gb": 8, "covers": ["custom display form produced"],
                       "bounds": "Custom(n) for non-signal numbers: text is the number, to_nix is None, parse is Err without panic"}, **_t(_q)))
PROPERTIES["C19"]["harnesses"] += _C19N
PROPERTIES["C19"]["bounds"] += "; names: all 31 Linux signals x {NAME, SIGNAME, number} x every letter case through from_unix_str and FromStr (10 + 2 rows in quick, all 62 in thorough); the 13 Windows control names in every case; every ASCII string of length 1..=9 (from_unix_str) / 1..=10 (FromStr, from_windows_str) decided against the documented grammar; Display of the 7 first-class signals, Custom(1..=31) and 8 non-signal numbers, re-parsed"
PROPERTIES["C19"]["outside"] = "non-ASCII input, strings longer than 10 bytes, Custom numbers other than the listed ones in Display, the text of SignalParseError, --map-signal's FROM:TO splitting (clap value parser), Windows branches of Display"
PROPERTIES["C19"]["trusted"] += ["nix 0.29 signal name table as compiled", "stub alloc::fmt::format -> with_capacity(16) + core::fmt::write (same text)"]
