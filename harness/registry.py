"""Which harnesses decide which property, with the bounds each one states."""

DEFAULT_TIMEOUT = {"quick": 900, "thorough": 3600}
DEFAULT_MEM_GB = 12

STD_STUBS = ["std::panic::catch_unwind -> Ok(f()) (Kani ICE work-around; sound under panic=abort)"]

PROPERTIES = {
    "C20": {
        "bounds": "all discriminants 0..variant_count::<ProjectType>() (complete for the enumeration); no loops",
        "outside": "origins()/types() directory walks (tokio::fs) and the marker->type table are not encoded",
        "trusted": ["Kani 0.68 / CBMC 6.11 / CaDiCaL", "rustc MIR of project-origins as compiled by kani-compiler"],
        "assumptions": ["ProjectType is a fieldless enum laid out in one byte (asserted in the harness)"],
        "harnesses": [
            {"group": "origins", "name": "c20_vcs_xor_soft", "covers": ["some vcs type", "some soft type"],
             "bounds": "discriminant: all values < variant_count"},
        ],
    },
}
