// property=C02 group=lib harness=c02_priority_total_order
// check: C02: Priority order not transitive
// at src/c02.rs:40 in c02::c02_priority_total_order
// replay: ./check C02 --replay replays/C02/c02_priority_total_order.7a26fa9e7e.rs
#[test]
fn kani_concrete_playback_c02_priority_total_order_6703133596478305754() {
    let concrete_vals: Vec<Vec<u8>> = vec![
        // 1ul
        vec![1, 0, 0, 0, 0, 0, 0, 0],
        // 1ul
        vec![1, 0, 0, 0, 0, 0, 0, 0],
        // 0ul
        vec![0, 0, 0, 0, 0, 0, 0, 0],
    ];
    kani::concrete_playback_run(concrete_vals, c02_priority_total_order);
}
