// property=C02 group=lib harness=c02_priority_total_order
// check: C02: Low is not the minimum priority
// at src/c02.rs:42 in c02::c02_priority_total_order
// replay: ./check C02 --replay replays/C02/c02_priority_total_order.1bde034f23.rs
#[test]
fn kani_concrete_playback_c02_priority_total_order_6772974272341361142() {
    let concrete_vals: Vec<Vec<u8>> = vec![
        // 1ul
        vec![1, 0, 0, 0, 0, 0, 0, 0],
        // 3ul
        vec![3, 0, 0, 0, 0, 0, 0, 0],
        // 3ul
        vec![3, 0, 0, 0, 0, 0, 0, 0],
    ];
    kani::concrete_playback_run(concrete_vals, c02_priority_total_order);
}
