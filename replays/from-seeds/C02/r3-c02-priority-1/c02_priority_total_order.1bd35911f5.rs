// property=C02 group=lib harness=c02_priority_total_order
// check: C02: Priority order is not Low < Normal < High < Urgent
// at src/c02.rs:46 in c02::c02_priority_total_order
// replay: ./check C02 --replay replays/C02/c02_priority_total_order.1bd35911f5.rs
#[test]
fn kani_concrete_playback_c02_priority_total_order_59783288631811073() {
    let concrete_vals: Vec<Vec<u8>> = vec![
        // 1ul
        vec![1, 0, 0, 0, 0, 0, 0, 0],
        // 0ul
        vec![0, 0, 0, 0, 0, 0, 0, 0],
        // 3ul
        vec![3, 0, 0, 0, 0, 0, 0, 0],
    ];
    kani::concrete_playback_run(concrete_vals, c02_priority_total_order);
}
