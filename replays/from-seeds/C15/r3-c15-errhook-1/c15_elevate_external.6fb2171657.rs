// property=C15 group=lib harness=c15_elevate_external
// check: C15: elevate() did not end the main task with Elevated
// at src/c15.rs:212 in c15::scenario
// replay: ./check C15 --replay replays/C15/c15_elevate_external.6fb2171657.rs
#[test]
fn kani_concrete_playback_c15_elevate_external_6760150579982840670() {
    let concrete_vals: Vec<Vec<u8>> = vec![
        // 0ul
        vec![0, 0, 0, 0, 0, 0, 0, 0],
        // 0
        vec![0],
        // 0
        vec![0, 0, 0, 0],
        // 0
        vec![0],
        // 0
        vec![0],
        // 0
        vec![0],
    ];
    kani::concrete_playback_run(concrete_vals, c15_elevate_external);
}
