// property=C15 group=throttle harness=c15_loop_keep_first_elevate_second
// check: C15: elevate() on a later error did not end the main task with Elevated
// at src/errloop.rs:89 in errloop::scenario
// replay: ./check C15 --replay replays/C15/c15_loop_keep_first_elevate_second.290987341b.rs
#[test]
fn kani_concrete_playback_c15_loop_keep_first_elevate_second_11054208022329118284() {
    let concrete_vals: Vec<Vec<u8>> = vec![
    ];
    kani::concrete_playback_run(concrete_vals, c15_loop_keep_first_elevate_second);
}
