// property=C07 group=supervisor harness=c07_ticket_clone_first_job_gone_b
// check: C07: a task awaiting a ticket was never woken when it resolved
// at src/c07.rs:161 in c07::ticket_scenario
// replay: ./check C07 --replay replays/C07/c07_ticket_clone_first_job_gone_b.0a781bda4c.rs
#[test]
fn kani_concrete_playback_c07_ticket_clone_first_job_gone_b_15633727858132962035() {
    let concrete_vals: Vec<Vec<u8>> = vec![
        // 0ul
        vec![0, 0, 0, 0, 0, 0, 0, 0],
        // 0ul
        vec![0, 0, 0, 0, 0, 0, 0, 0],
    ];
    kani::concrete_playback_run(concrete_vals, c07_ticket_clone_first_job_gone_b);
}
