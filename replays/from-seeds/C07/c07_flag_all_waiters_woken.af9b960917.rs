// property=C07 group=supervisor harness=c07_flag_all_waiters_woken
// check: C07: a waiter of a raised flag was never woken
// at src/c07.rs:40 in c07::flag_scenario
// replay: ./check C07 --replay replays/C07/c07_flag_all_waiters_woken.af9b960917.rs
#[test]
fn kani_concrete_playback_c07_flag_all_waiters_woken_2041501332377722834() {
    let concrete_vals: Vec<Vec<u8>> = vec![
        // 3ul
        vec![3, 0, 0, 0, 0, 0, 0, 0],
        // 2ul
        vec![2, 0, 0, 0, 0, 0, 0, 0],
    ];
    kani::concrete_playback_run(concrete_vals, c07_flag_all_waiters_woken);
}
