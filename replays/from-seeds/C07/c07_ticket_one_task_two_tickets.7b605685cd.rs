// property=C07 group=supervisor harness=c07_ticket_one_task_two_tickets
// check: C07: task joining two tickets never woken for the outstanding one
// at src/c07.rs:248 in c07::one_task_two_tickets
// replay: ./check C07 --replay replays/C07/c07_ticket_one_task_two_tickets.7b605685cd.rs
#[test]
fn kani_concrete_playback_c07_ticket_one_task_two_tickets_12247498825175875224() {
    let concrete_vals: Vec<Vec<u8>> = vec![
        // 1ul
        vec![1, 0, 0, 0, 0, 0, 0, 0],
        // 0ul
        vec![0, 0, 0, 0, 0, 0, 0, 0],
        // 1ul
        vec![1, 0, 0, 0, 0, 0, 0, 0],
    ];
    kani::concrete_playback_run(concrete_vals, c07_ticket_one_task_two_tickets);
}
