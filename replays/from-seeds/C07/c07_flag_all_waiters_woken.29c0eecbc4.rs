// property=C07 group=supervisor harness=c07_flag_all_waiters_woken
// check: C07: a waiter of a raised flag was never woken
// at src/c07.rs:40 in c07::flag_scenario
// replay: ./check C07 --replay replays/C07/c07_flag_all_waiters_woken.29c0eecbc4.rs
#[test]
fn kani_concrete_playback_c07_flag_all_waiters_woken_3109348039840883154() {
    let concrete_vals: Vec<Vec<u8>> = vec![
        // 2ul
        vec![2, 0, 0, 0, 0, 0, 0, 0],
        // 0ul
        vec![0, 0, 0, 0, 0, 0, 0, 0],
    ];
    kani::concrete_playback_run(concrete_vals, c07_flag_all_waiters_woken);
}
