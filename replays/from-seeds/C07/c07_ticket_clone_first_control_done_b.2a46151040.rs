// property=C07 group=supervisor harness=c07_ticket_clone_first_control_done_b
// check: C07: a task awaiting a ticket was never woken when it resolved
// at src/c07.rs:161 in c07::ticket_scenario
// replay: ./check C07 --replay replays/C07/c07_ticket_clone_first_control_done_b.2a46151040.rs
#[test]
fn kani_concrete_playback_c07_ticket_clone_first_control_done_b_2342382844808354220() {
    let concrete_vals: Vec<Vec<u8>> = vec![
        // 1ul
        vec![1, 0, 0, 0, 0, 0, 0, 0],
        // 1ul
        vec![1, 0, 0, 0, 0, 0, 0, 0],
    ];
    kani::concrete_playback_run(concrete_vals, c07_ticket_clone_first_control_done_b);
}
