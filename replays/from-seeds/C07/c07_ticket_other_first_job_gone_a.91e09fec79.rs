// property=C07 group=supervisor harness=c07_ticket_other_first_job_gone_a
// check: C07: a task awaiting a ticket was never woken when it resolved
// at src/c07.rs:161 in c07::ticket_scenario
// replay: ./check C07 --replay replays/C07/c07_ticket_other_first_job_gone_a.91e09fec79.rs
#[test]
fn kani_concrete_playback_c07_ticket_other_first_job_gone_a_17689280309193444268() {
    let concrete_vals: Vec<Vec<u8>> = vec![
        // 0ul
        vec![0, 0, 0, 0, 0, 0, 0, 0],
        // 1ul
        vec![1, 0, 0, 0, 0, 0, 0, 0],
    ];
    kani::concrete_playback_run(concrete_vals, c07_ticket_other_first_job_gone_a);
}
