// property=C07 group=supervisor harness=c07_ticket_waker_replacement
// check: C07: the task now holding the ticket (latest waker) was never woken
// at src/c07.rs:284 in c07::waker_replacement
// replay: ./check C07 --replay replays/C07/c07_ticket_waker_replacement.089000426e.rs
#[test]
fn kani_concrete_playback_c07_ticket_waker_replacement_11705292363028472936() {
    let concrete_vals: Vec<Vec<u8>> = vec![
        // 0ul
        vec![0, 0, 0, 0, 0, 0, 0, 0],
        // 0ul
        vec![0, 0, 0, 0, 0, 0, 0, 0],
    ];
    kani::concrete_playback_run(concrete_vals, c07_ticket_waker_replacement);
}
