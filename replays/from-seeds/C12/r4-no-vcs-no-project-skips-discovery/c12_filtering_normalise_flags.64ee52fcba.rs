// property=C12 group=cli harness=c12_filtering_normalise_flags
// check: C12: --no-discover-ignore changed by normalise
// at src/c12.rs:73 in c12::c12_filtering_normalise_flags
// replay: ./check C12 --replay replays/C12/c12_filtering_normalise_flags.64ee52fcba.rs
#[test]
fn kani_concrete_playback_c12_filtering_normalise_flags_11719601392932689182() {
    let concrete_vals: Vec<Vec<u8>> = vec![
        // 1
        vec![1],
        // 1
        vec![1],
        // 1
        vec![1],
        // 1
        vec![1],
        // 0
        vec![0],
        // 0
        vec![0],
        // 1
        vec![1],
    ];
    kani::concrete_playback_run(concrete_vals, c12_filtering_normalise_flags);
}
