// property=C12 group=cli harness=c12_filtering_normalise_flags
// check: C12: --no-vcs-ignore changed by normalise
// at src/c12.rs:69 in c12::c12_filtering_normalise_flags
// replay: ./check C12 --replay replays/C12/c12_filtering_normalise_flags.137e14ed58.rs
#[test]
fn kani_concrete_playback_c12_filtering_normalise_flags_7181299612951200077() {
    let concrete_vals: Vec<Vec<u8>> = vec![
        // 0
        vec![0],
        // 1
        vec![1],
        // 1
        vec![1],
        // 1
        vec![1],
        // 1
        vec![1],
        // 0
        vec![0],
        // 1
        vec![1],
    ];
    kani::concrete_playback_run(concrete_vals, c12_filtering_normalise_flags);
}
