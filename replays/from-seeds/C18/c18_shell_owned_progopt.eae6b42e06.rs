// property=C18 group=shell harness=c18_shell_owned_progopt
// check: C18: command string altered or misplaced
// at src/c18shell.rs:282 in c18shell::shell_scenario
// replay: ./check C18 --replay replays/C18/c18_shell_owned_progopt.eae6b42e06.rs
#[test]
fn kani_concrete_playback_c18_shell_owned_progopt_11405804463026492955() {
    let concrete_vals: Vec<Vec<u8>> = vec![
        // 0ul
        vec![0, 0, 0, 0, 0, 0, 0, 0],
        // 0ul
        vec![0, 0, 0, 0, 0, 0, 0, 0],
        // 127
        vec![127],
        // 127
        vec![127],
        // 127
        vec![127],
        // 127
        vec![127],
        // 127
        vec![127],
        // 64
        vec![64],
        // 63
        vec![63],
        // 13
        vec![13],
        // 13
        vec![13],
        // 13
        vec![13],
        // 127
        vec![127],
        // 127
        vec![127],
        // 127
        vec![127],
        // 127
        vec![127],
        // 1
        vec![1],
        // 1
        vec![1],
        // 1
        vec![1],
    ];
    kani::concrete_playback_run(concrete_vals, c18_shell_owned_progopt);
}
