// property=C18 group=shell harness=c18_shell_owned_progopt
// check: C18: shell argv length wrong
// at src/c18shell.rs:272 in c18shell::shell_scenario
// replay: ./check C18 --replay replays/C18/c18_shell_owned_progopt.7cd6e0d917.rs
#[test]
fn kani_concrete_playback_c18_shell_owned_progopt_18436749501494002597() {
    let concrete_vals: Vec<Vec<u8>> = vec![
        // 2ul
        vec![2, 0, 0, 0, 0, 0, 0, 0],
        // 2ul
        vec![2, 0, 0, 0, 0, 0, 0, 0],
        // 1
        vec![1],
        // 64
        vec![64],
        // 64
        vec![64],
        // 64
        vec![64],
        // 1
        vec![1],
        // 64
        vec![64],
        // 64
        vec![64],
        // 1
        vec![1],
        // 1
        vec![1],
        // 1
        vec![1],
        // 64
        vec![64],
        // 64
        vec![64],
        // 1
        vec![1],
        // 1
        vec![1],
        // 1
        vec![1],
        // 0
        vec![0],
        // 1
        vec![1],
    ];
    kani::concrete_playback_run(concrete_vals, c18_shell_owned_progopt);
}
