// property=C18 group=shell harness=c18_shell_borrowed_progopt
// check: C18: shell argv length wrong
// at src/c18shell.rs:272 in c18shell::shell_scenario
// replay: ./check C18 --replay replays/C18/c18_shell_borrowed_progopt.01661f87c0.rs
#[test]
fn kani_concrete_playback_c18_shell_borrowed_progopt_16841326186251610893() {
    let concrete_vals: Vec<Vec<u8>> = vec![
        // 2ul
        vec![2, 0, 0, 0, 0, 0, 0, 0],
        // 2ul
        vec![2, 0, 0, 0, 0, 0, 0, 0],
        // 1
        vec![1],
        // 64
        vec![64],
        // 64
        vec![64],
        // 64
        vec![64],
        // 1
        vec![1],
        // 64
        vec![64],
        // 64
        vec![64],
        // 1
        vec![1],
        // 1
        vec![1],
        // 1
        vec![1],
        // 64
        vec![64],
        // 64
        vec![64],
        // 1
        vec![1],
        // 1
        vec![1],
        // 1
        vec![1],
        // 0
        vec![0],
        // 1
        vec![1],
    ];
    kani::concrete_playback_run(concrete_vals, c18_shell_borrowed_progopt);
}
