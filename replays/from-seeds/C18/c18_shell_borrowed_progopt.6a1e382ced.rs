// property=C18 group=shell harness=c18_shell_borrowed_progopt
// check: C18: command string altered or misplaced
// at src/c18shell.rs:282 in c18shell::shell_scenario
// replay: ./check C18 --replay replays/C18/c18_shell_borrowed_progopt.6a1e382ced.rs
#[test]
fn kani_concrete_playback_c18_shell_borrowed_progopt_3824549770211945294() {
    let concrete_vals: Vec<Vec<u8>> = vec![
        // 0ul
        vec![0, 0, 0, 0, 0, 0, 0, 0],
        // 0ul
        vec![0, 0, 0, 0, 0, 0, 0, 0],
        // 97
        vec![97],
        // 127
        vec![127],
        // 127
        vec![127],
        // 127
        vec![127],
        // 127
        vec![127],
        // 97
        vec![97],
        // 126
        vec![126],
        // 13
        vec![13],
        // 13
        vec![13],
        // 13
        vec![13],
        // 127
        vec![127],
        // 127
        vec![127],
        // 127
        vec![127],
        // 127
        vec![127],
        // 1
        vec![1],
        // 1
        vec![1],
        // 1
        vec![1],
    ];
    kani::concrete_playback_run(concrete_vals, c18_shell_borrowed_progopt);
}
