// property=C18 group=shell harness=c18_shell_new_helper
// check: C18: command string altered or misplaced
// at src/c18shell.rs:356 in c18shell::c18_shell_new_helper
// replay: ./check C18 --replay replays/C18/c18_shell_new_helper.4d6a779b54.rs
#[test]
fn kani_concrete_playback_c18_shell_new_helper_9692327249772933645() {
    let concrete_vals: Vec<Vec<u8>> = vec![
        // 0ul
        vec![0, 0, 0, 0, 0, 0, 0, 0],
        // 127
        vec![127],
        // 127
        vec![127],
        // 13
        vec![13],
        // 13
        vec![13],
        // 13
        vec![13],
        // 127
        vec![127],
        // 127
        vec![127],
        // 127
        vec![127],
        // 127
        vec![127],
        // 1
        vec![1],
        // 1
        vec![1],
        // 1
        vec![1],
    ];
    kani::concrete_playback_run(concrete_vals, c18_shell_new_helper);
}
