// property=C18 group=supervisor harness=c18_exec_argv_exact
// check: C18: argument bytes altered
// at src/c18.rs:103 in c18::exec_scenario
// replay: ./check C18 --replay replays/C18/c18_exec_argv_exact.bf987611b0.rs
#[test]
fn kani_concrete_playback_c18_exec_argv_exact_14688514556914565255() {
    let concrete_vals: Vec<Vec<u8>> = vec![
        // 1ul
        vec![1, 0, 0, 0, 0, 0, 0, 0],
        // 2ul
        vec![2, 0, 0, 0, 0, 0, 0, 0],
        // 10
        vec![10],
        // 10
        vec![10],
        // 127
        vec![127],
        // 127
        vec![127],
        // 127
        vec![127],
        // 127
        vec![127],
        // 64
        vec![64],
        // 127
        vec![127],
        // 1
        vec![1],
        // 0
        vec![0],
        // 1
        vec![1],
    ];
    kani::concrete_playback_run(concrete_vals, c18_exec_argv_exact);
}
