// property=C18 group=shell harness=c18_shell_no_progopt
// check: C18: command string altered or misplaced
// at src/c18shell.rs:282 in c18shell::shell_scenario
// replay: ./check C18 --replay replays/C18/c18_shell_no_progopt.54cace2241.rs
#[test]
fn kani_concrete_playback_c18_shell_no_progopt_18035024375694618388() {
    let concrete_vals: Vec<Vec<u8>> = vec![
        // 0ul
        vec![0, 0, 0, 0, 0, 0, 0, 0],
        // 0ul
        vec![0, 0, 0, 0, 0, 0, 0, 0],
        // 127
        vec![127],
        // 127
        vec![127],
        // 127
        vec![127],
        // 127
        vec![127],
        // 127
        vec![127],
        // 127
        vec![127],
        // 127
        vec![127],
        // 13
        vec![13],
        // 13
        vec![13],
        // 13
        vec![13],
        // 127
        vec![127],
        // 127
        vec![127],
        // 127
        vec![127],
        // 127
        vec![127],
        // 1
        vec![1],
        // 1
        vec![1],
        // 1
        vec![1],
    ];
    kani::concrete_playback_run(concrete_vals, c18_shell_no_progopt);
}
