// property=C18 group=supervisor harness=c18_exec_argv_exact
// check: C18: argument count changed (split or dropped)
// at src/c18.rs:97 in c18::exec_scenario
// replay: ./check C18 --replay replays/C18/c18_exec_argv_exact.869c5b3e72.rs
#[test]
fn kani_concrete_playback_c18_exec_argv_exact_7571380495659808512() {
    let concrete_vals: Vec<Vec<u8>> = vec![
        // 1ul
        vec![1, 0, 0, 0, 0, 0, 0, 0],
        // 1ul
        vec![1, 0, 0, 0, 0, 0, 0, 0],
        // 64
        vec![64],
        // 127
        vec![127],
        // 127
        vec![127],
        // 127
        vec![127],
        // 127
        vec![127],
        // 127
        vec![127],
        // 64
        vec![64],
        // 127
        vec![127],
        // 0
        vec![0],
        // 1
        vec![1],
        // 0
        vec![0],
    ];
    kani::concrete_playback_run(concrete_vals, c18_exec_argv_exact);
}
