// property=C18 group=supervisor harness=c18_exec_argv_exact
// check: C18: argument count changed (split or dropped)
// at src/c18.rs:95 in c18::exec_scenario
// replay: ./check C18 --replay replays/C18/c18_exec_argv_exact.86e101ef5a.rs
#[test]
fn kani_concrete_playback_c18_exec_argv_exact_85204148736598557() {
    let concrete_vals: Vec<Vec<u8>> = vec![
        // 3ul
        vec![3, 0, 0, 0, 0, 0, 0, 0],
        // 1ul
        vec![1, 0, 0, 0, 0, 0, 0, 0],
        // 64
        vec![64],
        // 64
        vec![64],
        // 64
        vec![64],
        // 64
        vec![64],
        // 64
        vec![64],
        // 64
        vec![64],
        // 64
        vec![64],
        // 64
        vec![64],
        // 0
        vec![0],
        // 0
        vec![0],
        // 0
        vec![0],
    ];
    kani::concrete_playback_run(concrete_vals, c18_exec_argv_exact);
}
