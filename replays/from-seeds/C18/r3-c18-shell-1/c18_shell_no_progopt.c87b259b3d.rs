// property=C18 group=shell harness=c18_shell_no_progopt
// check: C18: command string altered or misplaced
// at src/c18shell.rs:282 in c18shell::shell_scenario
// replay: ./check C18 --replay replays/C18/c18_shell_no_progopt.c87b259b3d.rs
#[test]
fn kani_concrete_playback_c18_shell_no_progopt_16326155169230790816() {
    let concrete_vals: Vec<Vec<u8>> = vec![
        // 2ul
        vec![2, 0, 0, 0, 0, 0, 0, 0],
        // 2ul
        vec![2, 0, 0, 0, 0, 0, 0, 0],
        // 64
        vec![64],
        // 64
        vec![64],
        // 64
        vec![64],
        // 64
        vec![64],
        // 64
        vec![64],
        // 64
        vec![64],
        // 64
        vec![64],
        // 64
        vec![64],
        // 64
        vec![64],
        // 64
        vec![64],
        // 64
        vec![64],
        // 64
        vec![64],
        // 64
        vec![64],
        // 64
        vec![64],
        // 0
        vec![0],
        // 0
        vec![0],
        // 0
        vec![0],
    ];
    kani::concrete_playback_run(concrete_vals, c18_shell_no_progopt);
}
