// property=C18 group=shell harness=c18_shell_order_one_of_each
// check: C18: command string altered or misplaced
// at src/c18shell.rs:282 in c18shell::shell_scenario
// replay: ./check C18 --replay replays/C18/c18_shell_order_one_of_each.4d3d13a166.rs
#[test]
fn kani_concrete_playback_c18_shell_order_one_of_each_6161506526078317568() {
    let concrete_vals: Vec<Vec<u8>> = vec![
        // 115
        vec![115],
        // 127
        vec![127],
        // 127
        vec![127],
        // 127
        vec![127],
        // 127
        vec![127],
        // 124
        vec![124],
        // 127
        vec![127],
        // 13
        vec![13],
        // 13
        vec![13],
        // 13
        vec![13],
        // 127
        vec![127],
        // 127
        vec![127],
        // 127
        vec![127],
        // 127
        vec![127],
        // 0
        vec![0],
        // 0
        vec![0],
        // 1
        vec![1],
    ];
    kani::concrete_playback_run(concrete_vals, c18_shell_order_one_of_each);
}
