// property=C18 group=supervisor harness=c18_exec_argv_unicode
// check: C18: argument bytes altered
// at src/c18.rs:103 in c18::exec_scenario
// replay: ./check C18 --replay replays/C18/c18_exec_argv_unicode.20f4c3d960.rs
#[test]
fn kani_concrete_playback_c18_exec_argv_unicode_2646451063394772279() {
    let concrete_vals: Vec<Vec<u8>> = vec![
        // 1ul
        vec![1, 0, 0, 0, 0, 0, 0, 0],
        // 127
        vec![127],
        // 127
        vec![127],
        // 10
        vec![10],
        // 127
        vec![127],
        // 127
        vec![127],
        // 127
        vec![127],
        // 127
        vec![127],
        // 127
        vec![127],
        // 1
        vec![1],
        // 1
        vec![1],
        // 1
        vec![1],
    ];
    kani::concrete_playback_run(concrete_vals, c18_exec_argv_unicode);
}
