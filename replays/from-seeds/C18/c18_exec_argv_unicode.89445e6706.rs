// property=C18 group=supervisor harness=c18_exec_argv_unicode
// check: C18: process-group option not honoured
// at src/c18.rs:72 in c18::check_wrappers
// replay: ./check C18 --replay replays/C18/c18_exec_argv_unicode.89445e6706.rs
#[test]
fn kani_concrete_playback_c18_exec_argv_unicode_10425570121285408351() {
    let concrete_vals: Vec<Vec<u8>> = vec![
        // 0ul
        vec![0, 0, 0, 0, 0, 0, 0, 0],
        // 127
        vec![127],
        // 127
        vec![127],
        // 127
        vec![127],
        // 127
        vec![127],
        // 127
        vec![127],
        // 127
        vec![127],
        // 127
        vec![127],
        // 127
        vec![127],
        // 1
        vec![1],
        // 1
        vec![1],
        // 1
        vec![1],
    ];
    kani::concrete_playback_run(concrete_vals, c18_exec_argv_unicode);
}
