// property=C19 group=signals harness=c19_total_fromstr_len4
// check: C19: a string parsed to a different OS signal than it spells
// at src/c19total.rs:122 in c19total::check_total
// replay: ./check C19 --replay replays/C19/c19_total_fromstr_len4.56aa6b943e.rs
#[test]
fn kani_concrete_playback_c19_total_fromstr_len4_12519102151780309406() {
    let concrete_vals: Vec<Vec<u8>> = vec![
        // 115
        vec![115],
        // 116
        vec![116],
        // 111
        vec![111],
        // 112
        vec![112],
    ];
    kani::concrete_playback_run(concrete_vals, c19_total_fromstr_len4);
}
