// property=C19 group=signals harness=c19_win_fromstr_stop
// check: C19: Windows control name parsed as a different signal than documented
// at src/c19win.rs:33 in c19win::check_win_rows
// replay: ./check C19 --replay replays/C19/c19_win_fromstr_stop.f91240dd39.rs
#[test]
fn kani_concrete_playback_c19_win_fromstr_stop_14620124974104815531() {
    let concrete_vals: Vec<Vec<u8>> = vec![
        // 0ul
        vec![0, 0, 0, 0, 0, 0, 0, 0],
        // 65535
        vec![255, 255],
    ];
    kani::concrete_playback_run(concrete_vals, c19_win_fromstr_stop);
}
