// property=C19 group=events harness=c19_exitstatus_to_processend
// check: C19: terminating signal not preserved
// at src/c19.rs:93 in c19::c19_exitstatus_to_processend
// replay: ./check C19 --replay replays/C19/c19_exitstatus_to_processend.098acc6cc0.rs
#[test]
fn kani_concrete_playback_c19_exitstatus_to_processend_13980871110047115602() {
    let concrete_vals: Vec<Vec<u8>> = vec![
        // 268
        vec![12, 1, 0, 0],
    ];
    kani::concrete_playback_run(concrete_vals, c19_exitstatus_to_processend);
}
