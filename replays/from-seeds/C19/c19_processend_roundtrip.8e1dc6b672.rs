// property=C19 group=events harness=c19_processend_roundtrip
// check: C19: terminating signal changed by exit status round trip
// at src/c19.rs:140 in c19::c19_processend_roundtrip
// replay: ./check C19 --replay replays/C19/c19_processend_roundtrip.8e1dc6b672.rs
#[test]
fn kani_concrete_playback_c19_processend_roundtrip_3281485102777187143() {
    let concrete_vals: Vec<Vec<u8>> = vec![
        // 3
        vec![3],
        // 7
        vec![7],
        // 14
        vec![14, 0, 0, 0],
    ];
    kani::concrete_playback_run(concrete_vals, c19_processend_roundtrip);
}
