// property=C19 group=signals harness=c19_name_unix_kill
// check: C19: from_unix_str rejected a spelling of a platform signal
// at src/c19names.rs:174 in c19names::check_spelling
// replay: ./check C19 --replay replays/C19/c19_name_unix_kill.99622ce583.rs
#[test]
fn kani_concrete_playback_c19_name_unix_kill_15922130612714268829() {
    let concrete_vals: Vec<Vec<u8>> = vec![
        // 1ul
        vec![1, 0, 0, 0, 0, 0, 0, 0],
        // 65534
        vec![254, 255],
    ];
    kani::concrete_playback_run(concrete_vals, c19_name_unix_kill);
}
