// property=C19 group=signals harness=c19_name_fromstr_stop
// check: C19: FromStr rejected a spelling of a platform signal
// at src/c19names.rs:189 in c19names::check_spelling
// replay: ./check C19 --replay replays/C19/c19_name_fromstr_stop.127429130b.rs
#[test]
fn kani_concrete_playback_c19_name_fromstr_stop_18077772362815948483() {
    let concrete_vals: Vec<Vec<u8>> = vec![
        // 1ul
        vec![1, 0, 0, 0, 0, 0, 0, 0],
        // 65531
        vec![251, 255],
    ];
    kani::concrete_playback_run(concrete_vals, c19_name_fromstr_stop);
}
