// property=C19 group=signals harness=c19_name_fromstr_vtalrm
// check: C19: FromStr rejected a spelling of a platform signal
// at src/c19names.rs:189 in c19names::check_spelling
// replay: ./check C19 --replay replays/C19/c19_name_fromstr_vtalrm.76d5addf1c.rs
#[test]
fn kani_concrete_playback_c19_name_fromstr_vtalrm_311470103684582843() {
    let concrete_vals: Vec<Vec<u8>> = vec![
        // 1ul
        vec![1, 0, 0, 0, 0, 0, 0, 0],
        // 65534
        vec![254, 255],
    ];
    kani::concrete_playback_run(concrete_vals, c19_name_fromstr_vtalrm);
}
