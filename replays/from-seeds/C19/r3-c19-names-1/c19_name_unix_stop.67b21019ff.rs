// property=C19 group=signals harness=c19_name_unix_stop
// check: C19: from_unix_str rejected a spelling of a platform signal
// at src/c19names.rs:174 in c19names::check_spelling
// replay: ./check C19 --replay replays/C19/c19_name_unix_stop.67b21019ff.rs
#[test]
fn kani_concrete_playback_c19_name_unix_stop_9071752051276375717() {
    let concrete_vals: Vec<Vec<u8>> = vec![
        // 1ul
        vec![1, 0, 0, 0, 0, 0, 0, 0],
        // 65534
        vec![254, 255],
    ];
    kani::concrete_playback_run(concrete_vals, c19_name_unix_stop);
}
