// property=C19 group=events harness=c19_from_i32_vs_to_nix
// check: C19: from(i32) then to_nix changed the number
// at src/c19.rs:19 in c19::c19_from_i32_vs_to_nix
// replay: ./check C19 --replay replays/C19/c19_from_i32_vs_to_nix.04e18ebb6a.rs
#[test]
fn kani_concrete_playback_c19_from_i32_vs_to_nix_218115191167872519() {
    let concrete_vals: Vec<Vec<u8>> = vec![
        // 14
        vec![14, 0, 0, 0],
    ];
    kani::concrete_playback_run(concrete_vals, c19_from_i32_vs_to_nix);
}
