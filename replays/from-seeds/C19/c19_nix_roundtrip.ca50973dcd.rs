// property=C19 group=events harness=c19_nix_roundtrip
// check: C19: from_nix and from(i32) disagree
// at src/c19.rs:48 in c19::c19_nix_roundtrip
// replay: ./check C19 --replay replays/C19/c19_nix_roundtrip.ca50973dcd.rs
#[test]
fn kani_concrete_playback_c19_nix_roundtrip_7846944290810175160() {
    let concrete_vals: Vec<Vec<u8>> = vec![
        // 128
        vec![128],
        // 14
        vec![14, 0, 0, 0],
    ];
    kani::concrete_playback_run(concrete_vals, c19_nix_roundtrip);
}
