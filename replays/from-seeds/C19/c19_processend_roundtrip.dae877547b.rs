// property=C19 group=events harness=c19_processend_roundtrip
// check: C19: process end changed by exit status round trip
// at src/c19.rs:142 in c19::c19_processend_roundtrip
// replay: ./check C19 --replay replays/C19/c19_processend_roundtrip.dae877547b.rs
#[test]
fn kani_concrete_playback_c19_processend_roundtrip_11493053426424733179() {
    let concrete_vals: Vec<Vec<u8>> = vec![
        // 1
        vec![1],
        // 255
        vec![255, 0, 0, 0, 0, 0, 0, 0],
    ];
    kani::concrete_playback_run(concrete_vals, c19_processend_roundtrip);
}
