// property=C19 group=events harness=c19_exitstatus_to_processend
// check: C19: terminating signal not preserved
// at src/c19.rs:93 in c19::c19_exitstatus_to_processend
// replay: ./check C19 --replay replays/C19/c19_exitstatus_to_processend.863695bcaf.rs
#[test]
fn kani_concrete_playback_c19_exitstatus_to_processend_17775295692970251305() {
    let concrete_vals: Vec<Vec<u8>> = vec![
        // -65345
        vec![191, 0, 255, 255],
    ];
    kani::concrete_playback_run(concrete_vals, c19_exitstatus_to_processend);
}
