// property=C19 group=signals harness=c19_win_total_len_6_10
// check: C19: from_windows_str accepted a string that is not a documented control name
// at src/c19win.rs:85 in c19win::check_win_total
// replay: ./check C19 --replay replays/C19/c19_win_total_len_6_10.4d75605dfa.rs
#[test]
fn kani_concrete_playback_c19_win_total_len_6_10_14956905767905318491() {
    let concrete_vals: Vec<Vec<u8>> = vec![
        // 2ul
        vec![2, 0, 0, 0, 0, 0, 0, 0],
        // 115
        vec![115],
        // 105
        vec![105],
        // 103
        vec![103],
        // 99
        vec![99],
        // 108
        vec![108],
        // 111
        vec![111],
        // 115
        vec![115],
        // 69
        vec![69],
    ];
    kani::concrete_playback_run(concrete_vals, c19_win_total_len_6_10);
}
