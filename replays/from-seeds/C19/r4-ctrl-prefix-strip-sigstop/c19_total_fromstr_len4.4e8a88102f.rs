// property=C19 group=signals harness=c19_total_fromstr_len4
// check: C19: a string that is no spelling of any signal was accepted
// at src/c19total.rs:121 in c19total::check_total
// replay: ./check C19 --replay replays/C19/c19_total_fromstr_len4.4e8a88102f.rs
#[test]
fn kani_concrete_playback_c19_total_fromstr_len4_15233234290804794642() {
    let concrete_vals: Vec<Vec<u8>> = vec![
        // 115
        vec![115],
        // 73
        vec![73],
        // 103
        vec![103],
        // 99
        vec![99],
    ];
    kani::concrete_playback_run(concrete_vals, c19_total_fromstr_len4);
}
