// property=C19 group=signals harness=c19_win_total_len_1_5
// check: C19: from_windows_str accepted a string that is not a documented control name
// at src/c19win.rs:85 in c19win::check_win_total
// replay: ./check C19 --replay replays/C19/c19_win_total_len_1_5.da23ba0244.rs
#[test]
fn kani_concrete_playback_c19_win_total_len_1_5_4279688706190818507() {
    let concrete_vals: Vec<Vec<u8>> = vec![
        // 3ul
        vec![3, 0, 0, 0, 0, 0, 0, 0],
        // 83
        vec![83],
        // 73
        vec![73],
        // 71
        vec![71],
        // 67
        vec![67],
    ];
    kani::concrete_playback_run(concrete_vals, c19_win_total_len_1_5);
}
