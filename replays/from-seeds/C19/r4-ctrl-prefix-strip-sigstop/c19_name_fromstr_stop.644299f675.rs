// property=C19 group=signals harness=c19_name_fromstr_stop
// check: C19: FromStr parsed a different OS signal than the spelling names (Windows control names first, otherwise as from_unix_str)
// at src/c19names.rs:181 in c19names::check_spelling
// replay: ./check C19 --replay replays/C19/c19_name_fromstr_stop.644299f675.rs
#[test]
fn kani_concrete_playback_c19_name_fromstr_stop_4196799882387727915() {
    let concrete_vals: Vec<Vec<u8>> = vec![
        // 1ul
        vec![1, 0, 0, 0, 0, 0, 0, 0],
        // 65535
        vec![255, 255],
    ];
    kani::concrete_playback_run(concrete_vals, c19_name_fromstr_stop);
}
