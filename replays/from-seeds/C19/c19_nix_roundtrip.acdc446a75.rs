// property=C19 group=events harness=c19_nix_roundtrip
// check: C19: from_nix and from(i32) disagree
// at src/c19.rs:48 in c19::c19_nix_roundtrip
// replay: ./check C19 --replay replays/C19/c19_nix_roundtrip.acdc446a75.rs
#[test]
fn kani_concrete_playback_c19_nix_roundtrip_16078986217325562036() {
    let concrete_vals: Vec<Vec<u8>> = vec![
        // 128
        vec![128],
        // 30
        vec![30, 0, 0, 0],
    ];
    kani::concrete_playback_run(concrete_vals, c19_nix_roundtrip);
}
