// property=C19 group=events harness=c19_nix_roundtrip
// check: C19: only invalid custom numbers lack an OS signal
// at src/c19.rs:53 in c19::c19_nix_roundtrip
// replay: ./check C19 --replay replays/C19/c19_nix_roundtrip.13b934863f.rs
#[test]
fn kani_concrete_playback_c19_nix_roundtrip_2811365832831889334() {
    let concrete_vals: Vec<Vec<u8>> = vec![
        // 128
        vec![128],
        // 1
        vec![1, 0, 0, 0],
    ];
    kani::concrete_playback_run(concrete_vals, c19_nix_roundtrip);
}
