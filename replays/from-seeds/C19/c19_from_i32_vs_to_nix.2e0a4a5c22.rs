// property=C19 group=events harness=c19_from_i32_vs_to_nix
// check: C19: from(i32) then to_nix changed the number
// at src/c19.rs:19 in c19::c19_from_i32_vs_to_nix
// replay: ./check C19 --replay replays/C19/c19_from_i32_vs_to_nix.2e0a4a5c22.rs
#[test]
fn kani_concrete_playback_c19_from_i32_vs_to_nix_1270362108996984538() {
    let concrete_vals: Vec<Vec<u8>> = vec![
        // 30
        vec![30, 0, 0, 0],
    ];
    kani::concrete_playback_run(concrete_vals, c19_from_i32_vs_to_nix);
}
