// property=C19 group=signals harness=c19_name_fromstr_vtalrm
// check: C19: FromStr rejected a spelling of a platform signal
// at src/c19names.rs:189 in c19names::check_spelling
// replay: ./check C19 --replay replays/C19/c19_name_fromstr_vtalrm.d44c871f97.rs
#[test]
fn kani_concrete_playback_c19_name_fromstr_vtalrm_8055606037437533485() {
    let concrete_vals: Vec<Vec<u8>> = vec![
        // 1ul
        vec![1, 0, 0, 0, 0, 0, 0, 0],
        // 65531
        vec![251, 255],
    ];
    kani::concrete_playback_run(concrete_vals, c19_name_fromstr_vtalrm);
}
