// property=C19 group=signals harness=c19_name_fromstr_hup
// check: C19: FromStr rejected a spelling of a platform signal
// at src/c19names.rs:189 in c19names::check_spelling
// replay: ./check C19 --replay replays/C19/c19_name_fromstr_hup.3c5eb3f708.rs
#[test]
fn kani_concrete_playback_c19_name_fromstr_hup_11943987992895895324() {
    let concrete_vals: Vec<Vec<u8>> = vec![
        // 1ul
        vec![1, 0, 0, 0, 0, 0, 0, 0],
        // 4
        vec![4, 0],
    ];
    kani::concrete_playback_run(concrete_vals, c19_name_fromstr_hup);
}
