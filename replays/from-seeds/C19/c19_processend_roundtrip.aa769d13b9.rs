// property=C19 group=events harness=c19_processend_roundtrip
// check: C19: terminating signal changed by exit status round trip
// at src/c19.rs:140 in c19::c19_processend_roundtrip
// replay: ./check C19 --replay replays/C19/c19_processend_roundtrip.aa769d13b9.rs
#[test]
fn kani_concrete_playback_c19_processend_roundtrip_14233528194965233368() {
    let concrete_vals: Vec<Vec<u8>> = vec![
        // 255
        vec![255],
        // 255
        vec![255],
        // 31
        vec![31, 0, 0, 0],
    ];
    kani::concrete_playback_run(concrete_vals, c19_processend_roundtrip);
}
