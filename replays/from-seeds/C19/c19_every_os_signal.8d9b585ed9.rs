// property=C19 group=events harness=c19_every_os_signal
// check: C19: from_nix disagrees with from(i32)
// at src/c19.rs:67 in c19::c19_every_os_signal
// replay: ./check C19 --replay replays/C19/c19_every_os_signal.8d9b585ed9.rs
#[test]
fn kani_concrete_playback_c19_every_os_signal_2022848005169854590() {
    let concrete_vals: Vec<Vec<u8>> = vec![
        // 14
        vec![14, 0, 0, 0],
    ];
    kani::concrete_playback_run(concrete_vals, c19_every_os_signal);
}
