// property=C19 group=events harness=c19_exitstatus_to_processend
// check: C19: exit code not preserved
// at src/c19.rs:89 in c19::c19_exitstatus_to_processend
// replay: ./check C19 --replay replays/C19/c19_exitstatus_to_processend.9e71959d92.rs
#[test]
fn kani_concrete_playback_c19_exitstatus_to_processend_5215619061433842354() {
    let concrete_vals: Vec<Vec<u8>> = vec![
        // 196352
        vec![0, 255, 2, 0],
    ];
    kani::concrete_playback_run(concrete_vals, c19_exitstatus_to_processend);
}
