// property=C16 group=events harness=c16_tag_roundtrip
// check: C16: tag changed across the wire conversion
// at src/c16.rs:77 in c16::c16_tag_roundtrip
// replay: ./check C16 --replay replays/C16/c16_tag_roundtrip.d749d2f2de.rs
#[test]
fn kani_concrete_playback_c16_tag_roundtrip_1283055196777308006() {
    let concrete_vals: Vec<Vec<u8>> = vec![
        // 0
        vec![0],
        // 0
        vec![0],
        // 0
        vec![0],
    ];
    kani::concrete_playback_run(concrete_vals, c16_tag_roundtrip);
}
