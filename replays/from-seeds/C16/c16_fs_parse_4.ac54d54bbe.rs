// property=C16 group=events harness=c16_fs_parse_4
// check: C16: fs kind wire name parsed to a different kind
// at src/c16.rs:340 in c16::parse_half
// replay: ./check C16 --replay replays/C16/c16_fs_parse_4.ac54d54bbe.rs
#[test]
fn kani_concrete_playback_c16_fs_parse_4_10624649260241219385() {
    let concrete_vals: Vec<Vec<u8>> = vec![
        // 28ul
        vec![28, 0, 0, 0, 0, 0, 0, 0],
        // 1
        vec![1],
        // 255
        vec![255],
    ];
    kani::concrete_playback_run(concrete_vals, c16_fs_parse_4);
}
