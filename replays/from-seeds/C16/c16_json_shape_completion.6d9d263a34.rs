// property=C16 group=events harness=c16_json_shape_completion
// check: C16: error shape
// at src/c16ser.rs:320 in c16ser::c16_json_shape_completion
// replay: ./check C16 --replay replays/C16/c16_json_shape_completion.6d9d263a34.rs
#[test]
fn kani_concrete_playback_c16_json_shape_completion_11876290912597645210() {
    let concrete_vals: Vec<Vec<u8>> = vec![
        // 1
        vec![1],
        // 1
        vec![1],
        // 2147483649
        vec![1, 0, 0, 128, 0, 0, 0, 0],
    ];
    kani::concrete_playback_run(concrete_vals, c16_json_shape_completion);
}
