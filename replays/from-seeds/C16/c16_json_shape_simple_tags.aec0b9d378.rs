// property=C16 group=events harness=c16_json_shape_simple_tags
// check: C16: signal name
// at src/c16ser.rs:269 in c16ser::simple_tag_shape
// replay: ./check C16 --replay replays/C16/c16_json_shape_simple_tags.aec0b9d378.rs
#[test]
fn kani_concrete_playback_c16_json_shape_simple_tags_3192305343384080107() {
    let concrete_vals: Vec<Vec<u8>> = vec![
        // 4
        vec![4],
        // 3
        vec![3],
    ];
    kani::concrete_playback_run(concrete_vals, c16_json_shape_simple_tags);
}
