// property=C16 group=events harness=c16_signal_wire_parse
// check: C16: wire form of a signal changed class
// at src/c16.rs:438 in c16::c16_signal_wire_parse
// replay: ./check C16 --replay replays/C16/c16_signal_wire_parse.e0a9e363c5.rs
#[test]
fn kani_concrete_playback_c16_signal_wire_parse_5877286391878005334() {
    let concrete_vals: Vec<Vec<u8>> = vec![
        // 128
        vec![128],
        // 1
        vec![1, 0, 0, 0],
    ];
    kani::concrete_playback_run(concrete_vals, c16_signal_wire_parse);
}
