// property=C16 group=events harness=c16_wire_fields
// check: C16: error wire form
// at src/c16.rs:104 in c16::c16_wire_fields
// replay: ./check C16 --replay replays/C16/c16_wire_fields.677e6c74ed.rs
#[test]
fn kani_concrete_playback_c16_wire_fields_13164730757705433555() {
    let concrete_vals: Vec<Vec<u8>> = vec![
        // 5
        vec![5],
        // 1
        vec![1],
        // 1
        vec![1],
        // -9223372036854775804
        vec![4, 0, 0, 0, 0, 0, 0, 128],
    ];
    kani::concrete_playback_run(concrete_vals, c16_wire_fields);
}
