// property=C16 group=events harness=c16_signal_wire_roundtrip
// check: C16: signal changed across the wire conversion
// at src/c16.rs:413 in c16::c16_signal_wire_roundtrip
// replay: ./check C16 --replay replays/C16/c16_signal_wire_roundtrip.b9b71595c3.rs
#[test]
fn kani_concrete_playback_c16_signal_wire_roundtrip_18026076522600207660() {
    let concrete_vals: Vec<Vec<u8>> = vec![
        // 128
        vec![128],
        // 1
        vec![1, 0, 0, 0],
    ];
    kani::concrete_playback_run(concrete_vals, c16_signal_wire_roundtrip);
}
