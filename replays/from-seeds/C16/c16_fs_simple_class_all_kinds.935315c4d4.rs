// property=C16 group=events harness=c16_fs_simple_class_all_kinds
// check: C16: coarse fs class disagrees with the kind
// at src/c16.rs:451 in c16::c16_fs_simple_class_all_kinds
// replay: ./check C16 --replay replays/C16/c16_fs_simple_class_all_kinds.935315c4d4.rs
#[test]
fn kani_concrete_playback_c16_fs_simple_class_all_kinds_5390656289569738740() {
    let concrete_vals: Vec<Vec<u8>> = vec![
        // 11ul
        vec![11, 0, 0, 0, 0, 0, 0, 0],
    ];
    kani::concrete_playback_run(concrete_vals, c16_fs_simple_class_all_kinds);
}
