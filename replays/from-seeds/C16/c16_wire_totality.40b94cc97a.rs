// property=C16 group=events harness=c16_wire_totality
// check: C16: completion with missing/zero code must be Unknown
// at src/c16.rs:202 in c16::c16_wire_totality
// replay: ./check C16 --replay replays/C16/c16_wire_totality.40b94cc97a.rs
#[test]
fn kani_concrete_playback_c16_wire_totality_13020496282252740871() {
    let concrete_vals: Vec<Vec<u8>> = vec![
        // 1
        vec![1],
        // 7
        vec![7],
        // 1
        vec![1],
        // 0
        vec![0],
        // 1
        vec![1],
        // 3
        vec![3],
        // 0
        vec![0],
        // 0
        vec![0],
        // 1
        vec![1],
        // 1
        vec![1],
        // 8
        vec![8, 0, 0, 0],
        // 1
        vec![1],
        // 0
        vec![0],
        // 1
        vec![1],
        // 5
        vec![5],
        // 0
        vec![0],
    ];
    kani::concrete_playback_run(concrete_vals, c16_wire_totality);
}
