// property=C16 group=events harness=c16_tag_roundtrip
// check: C16: tag changed across the wire conversion
// at src/c16.rs:77 in c16::c16_tag_roundtrip
// replay: ./check C16 --replay replays/C16/c16_tag_roundtrip.1e3a8f8c73.rs
#[test]
fn kani_concrete_playback_c16_tag_roundtrip_14238218048317180345() {
    let concrete_vals: Vec<Vec<u8>> = vec![
        // 5
        vec![5],
        // 1
        vec![1],
        // 1
        vec![1],
        // 4611686018427387909
        vec![5, 0, 0, 0, 0, 0, 0, 64],
    ];
    kani::concrete_playback_run(concrete_vals, c16_tag_roundtrip);
}
