// property=C16 group=events harness=c16_json_values_wire_enums
// check: C16: tag kind spelling
// at src/c16ser.rs:380 in c16ser::c16_json_values_wire_enums
// replay: ./check C16 --replay replays/C16/c16_json_values_wire_enums.d9b9f96e91.rs
#[test]
fn kani_concrete_playback_c16_json_values_wire_enums_477736570075713710() {
    let concrete_vals: Vec<Vec<u8>> = vec![
        // 1
        vec![1],
        // 0
        vec![0],
    ];
    kani::concrete_playback_run(concrete_vals, c16_json_values_wire_enums);
}
