// property=C16 group=events harness=c16_json_shape_simple_tags
// check: C16: unknown tag shape
// at src/c16ser.rs:279 in c16ser::simple_tag_shape
// replay: ./check C16 --replay replays/C16/c16_json_shape_simple_tags.30ea117c66.rs
#[test]
fn kani_concrete_playback_c16_json_shape_simple_tags_2196470260134773502() {
    let concrete_vals: Vec<Vec<u8>> = vec![
        // 5
        vec![5],
    ];
    kani::concrete_playback_run(concrete_vals, c16_json_shape_simple_tags);
}
