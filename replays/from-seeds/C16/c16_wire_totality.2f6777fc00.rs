// property=C16 group=events harness=c16_wire_totality
// check: C16: wire object parsed as a different kind
// at src/c16.rs:200 in c16::c16_wire_totality
// replay: ./check C16 --replay replays/C16/c16_wire_totality.2f6777fc00.rs
#[test]
fn kani_concrete_playback_c16_wire_totality_4971189590636406709() {
    let concrete_vals: Vec<Vec<u8>> = vec![
        // 255
        vec![255],
        // 255
        vec![255],
        // 1
        vec![1],
        // 1
        vec![1],
        // 1
        vec![1],
        // 255
        vec![255],
        // 1
        vec![1],
        // 255
        vec![255],
        // 1
        vec![1],
        // 255
        vec![255],
        // 1
        vec![1],
        // 1
        vec![1],
        // 4294967295
        vec![255, 255, 255, 255],
        // 1
        vec![1],
        // 255
        vec![255],
        // -1
        vec![255, 255, 255, 255],
        // 1
        vec![1],
        // 255
        vec![255],
        // 1
        vec![1],
        // -4611686018427387905
        vec![255, 255, 255, 255, 255, 255, 255, 191],
    ];
    kani::concrete_playback_run(concrete_vals, c16_wire_totality);
}
