// property=C16 group=events harness=c16_json_parse_degraded
// check: C16: a JSON tag object of a known kind failed to parse
// at src/c16de.rs:202 in c16de::parse
// replay: ./check C16 --replay replays/C16/c16_json_parse_degraded.8df8acb228.rs
#[test]
fn kani_concrete_playback_c16_json_parse_degraded_12658731647089616464() {
    let concrete_vals: Vec<Vec<u8>> = vec![
        // 14ul
        vec![14, 0, 0, 0, 0, 0, 0, 0],
        // 0
        vec![0, 0, 0, 0],
        // 0
        vec![0, 0, 0, 0, 0, 0, 0, 0],
    ];
    kani::concrete_playback_run(concrete_vals, c16_json_parse_degraded);
}
