// property=C16 group=events harness=c16_wire_fields
// check: C16: exception wire form
// at src/c16.rs:107 in c16::c16_wire_fields
// replay: ./check C16 --replay replays/C16/c16_wire_fields.ed8f0b4a0a.rs
#[test]
fn kani_concrete_playback_c16_wire_fields_5519203882971749500() {
    let concrete_vals: Vec<Vec<u8>> = vec![
        // 5
        vec![5],
        // 1
        vec![1],
        // 4
        vec![4],
        // -1073741825
        vec![255, 255, 255, 191],
    ];
    kani::concrete_playback_run(concrete_vals, c16_wire_fields);
}
