// property=C16 group=events harness=c16_json_parse_wellformed
// check: C16: a JSON tag object of a known kind failed to parse
// at src/c16de.rs:202 in c16de::parse
// replay: ./check C16 --replay replays/C16/c16_json_parse_wellformed.47b06c1361.rs
#[test]
fn kani_concrete_playback_c16_json_parse_wellformed_12271226500150592013() {
    let concrete_vals: Vec<Vec<u8>> = vec![
        // 1ul
        vec![1, 0, 0, 0, 0, 0, 0, 0],
        // 4294967295
        vec![255, 255, 255, 255],
        // -1
        vec![255, 255, 255, 255, 255, 255, 255, 255],
    ];
    kani::concrete_playback_run(concrete_vals, c16_json_parse_wellformed);
}
