// property=C16 group=events harness=c16_json_event_empty_roundtrip
// check: C16: the serialised form of a tagless event does not parse back
// at src/c16evjson.rs:36 in c16evjson::c16_json_event_empty_roundtrip
// replay: ./check C16 --replay replays/C16/c16_json_event_empty_roundtrip.da748f0a97.rs
#[test]
fn kani_concrete_playback_c16_json_event_empty_roundtrip_11352202143637930051() {
    let concrete_vals: Vec<Vec<u8>> = vec![
    ];
    kani::concrete_playback_run(concrete_vals, c16_json_event_empty_roundtrip);
}
