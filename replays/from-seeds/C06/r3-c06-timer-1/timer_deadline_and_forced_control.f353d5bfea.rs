// property=C06 group=jobq harness=timer_deadline_and_forced_control
// check: free argument must be NULL or valid pointer
// at /root/.kani/kani-0.68.0/library/kani/kani_lib.c:87 in __rust_dealloc
// replay: ./check C06 --replay replays/C06/timer_deadline_and_forced_control.f353d5bfea.rs
#[test]
fn kani_concrete_playback_timer_deadline_and_forced_control_15867348422066652951() {
    let concrete_vals: Vec<Vec<u8>> = vec![
        // 0ul
        vec![0, 0, 0, 0, 0, 0, 0, 0],
        // 3ul
        vec![3, 0, 0, 0, 0, 0, 0, 0],
        // 1ul
        vec![1, 0, 0, 0, 0, 0, 0, 0],
        // 999999998
        vec![254, 201, 154, 59],
        // 4294967295999999999ul
        vec![255, 255, 255, 255, 255, 201, 154, 59],
    ];
    kani::concrete_playback_run(concrete_vals, timer_deadline_and_forced_control);
}
