// property=C06 group=jobq harness=timer_any_grace
// check: rust_dealloc must be called on an object whose allocated size matches its layout
// at /root/.kani/kani-0.68.0/library/kani/kani_lib.c:85 in __rust_dealloc
// replay: ./check C06 --replay replays/C06/timer_any_grace.b144252888.rs
#[test]
fn kani_concrete_playback_timer_any_grace_12025301121711444313() {
    let concrete_vals: Vec<Vec<u8>> = vec![
        // 0ul
        vec![0, 0, 0, 0, 0, 0, 0, 0],
        // 4611686018427387903ul
        vec![255, 255, 255, 255, 255, 255, 255, 63],
        // 536870911
        vec![255, 255, 255, 31],
        // 4294967295
        vec![255, 255, 255, 255],
        // 6917529027641081855ul
        vec![255, 255, 255, 255, 255, 255, 255, 95],
    ];
    kani::concrete_playback_run(concrete_vals, timer_any_grace);
}
