// property=C06 group=jobq harness=timer_any_grace
// check: free argument has offset zero
// at /root/.kani/kani-0.68.0/library/kani/kani_lib.c:87 in __rust_dealloc
// replay: ./check C06 --replay replays/C06/timer_any_grace.79cecc4a6f.rs
#[test]
fn kani_concrete_playback_timer_any_grace_2076316395411619128() {
    let concrete_vals: Vec<Vec<u8>> = vec![
        // 0ul
        vec![0, 0, 0, 0, 0, 0, 0, 0],
        // 3916818378966173185ul
        vec![1, 6, 0, 64, 144, 85, 91, 54],
        // 281755647
        vec![255, 63, 203, 16],
        // 4153632153
        vec![153, 101, 147, 247],
        // 8070450532247928833ul
        vec![1, 0, 0, 0, 0, 0, 0, 112],
    ];
    kani::concrete_playback_run(concrete_vals, timer_any_grace);
}
