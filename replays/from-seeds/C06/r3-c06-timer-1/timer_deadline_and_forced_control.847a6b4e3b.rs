// property=C06 group=jobq harness=timer_deadline_and_forced_control
// check: rust_dealloc must be called on an object whose allocated size matches its layout
// at /root/.kani/kani-0.68.0/library/kani/kani_lib.c:85 in __rust_dealloc
// replay: ./check C06 --replay replays/C06/timer_deadline_and_forced_control.847a6b4e3b.rs
#[test]
fn kani_concrete_playback_timer_deadline_and_forced_control_8640408685684533626() {
    let concrete_vals: Vec<Vec<u8>> = vec![
        // 1ul
        vec![1, 0, 0, 0, 0, 0, 0, 0],
        // 3ul
        vec![3, 0, 0, 0, 0, 0, 0, 0],
        // 1ul
        vec![1, 0, 0, 0, 0, 0, 0, 0],
        // 999999998
        vec![254, 201, 154, 59],
        // 4294967295999999999ul
        vec![255, 255, 255, 255, 255, 201, 154, 59],
    ];
    kani::concrete_playback_run(concrete_vals, timer_deadline_and_forced_control);
}
