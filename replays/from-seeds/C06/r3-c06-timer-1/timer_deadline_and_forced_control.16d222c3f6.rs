// property=C06 group=jobq harness=timer_deadline_and_forced_control
// check: free argument has offset zero
// at /root/.kani/kani-0.68.0/library/kani/kani_lib.c:87 in __rust_dealloc
// replay: ./check C06 --replay replays/C06/timer_deadline_and_forced_control.16d222c3f6.rs
#[test]
fn kani_concrete_playback_timer_deadline_and_forced_control_2355093088536488132() {
    let concrete_vals: Vec<Vec<u8>> = vec![
        // 0ul
        vec![0, 0, 0, 0, 0, 0, 0, 0],
        // 0ul
        vec![0, 0, 0, 0, 0, 0, 0, 0],
        // 4611686018427387903ul
        vec![255, 255, 255, 255, 255, 255, 255, 63],
        // 536870911
        vec![255, 255, 255, 31],
        // 4611686018695823359ul
        vec![255, 255, 255, 15, 0, 0, 0, 64],
    ];
    kani::concrete_playback_run(concrete_vals, timer_deadline_and_forced_control);
}
