// property=C10 group=jobq harness=recv_armed_timer_urgent_first_after_wait
// check: C10: pending urgent control not returned before the pending high one while the timer is armed (both arrived while recv was waiting)
// at src/recv.rs:520 in recv::recv_armed_timer_urgent_first_after_wait_body
// replay: ./check C10 --replay replays/C10/recv_armed_timer_urgent_first_after_wait.fe27e85b59.rs
#[test]
fn kani_concrete_playback_recv_armed_timer_urgent_first_after_wait_13310620234621940650() {
    let concrete_vals: Vec<Vec<u8>> = vec![
        // 1ul
        vec![1, 0, 0, 0, 0, 0, 0, 0],
        // 2ul
        vec![2, 0, 0, 0, 0, 0, 0, 0],
        // 0
        vec![0, 0, 0, 0],
        // -2147483648
        vec![0, 0, 0, 128],
    ];
    kani::concrete_playback_run(concrete_vals, recv_armed_timer_urgent_first_after_wait);
}
