// property=C10 group=jobq harness=recv_high_first_after_wait
// check: C10: pending high control not returned before the pending normal one (both arrived while recv was waiting)
// at src/recv.rs:489 in recv::recv_high_first_after_wait
// replay: ./check C10 --replay replays/C10/recv_high_first_after_wait.19c92168b7.rs
#[test]
fn kani_concrete_playback_recv_high_first_after_wait_4377402098982922584() {
    let concrete_vals: Vec<Vec<u8>> = vec![
        // 2ul
        vec![2, 0, 0, 0, 0, 0, 0, 0],
        // 0
        vec![0, 0, 0, 0],
        // -2147483648
        vec![0, 0, 0, 128],
    ];
    kani::concrete_playback_run(concrete_vals, recv_high_first_after_wait);
}
