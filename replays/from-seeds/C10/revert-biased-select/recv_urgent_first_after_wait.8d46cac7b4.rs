// property=C10 group=jobq harness=recv_urgent_first_after_wait
// check: C10: pending urgent control not returned before the pending normal one (both arrived while recv was waiting)
// at src/recv.rs:458 in recv::recv_urgent_first_after_wait
// replay: ./check C10 --replay replays/C10/recv_urgent_first_after_wait.8d46cac7b4.rs
#[test]
fn kani_concrete_playback_recv_urgent_first_after_wait_17493473224225707171() {
    let concrete_vals: Vec<Vec<u8>> = vec![
        // 2ul
        vec![2, 0, 0, 0, 0, 0, 0, 0],
        // 0
        vec![0, 0, 0, 0],
        // -2147483648
        vec![0, 0, 0, 128],
    ];
    kani::concrete_playback_run(concrete_vals, recv_urgent_first_after_wait);
}
