// property=C10 group=jobq harness=api_two_calls_in_order_3
// check: C10: queued control differs from the documented expansion (variant, order or payload)
// at src/api.rs:187 in api::scenario
// replay: ./check C10 --replay replays/C10/api_two_calls_in_order_3.e6eb65ec57.rs
#[test]
fn kani_concrete_playback_api_two_calls_in_order_3_10198525024641721963() {
    let concrete_vals: Vec<Vec<u8>> = vec![
        // 0
        vec![0],
        // 0
        vec![0],
        // 0ul
        vec![0, 0, 0, 0, 0, 0, 0, 0],
        // 0
        vec![0, 0, 0, 0],
        // 0ul
        vec![0, 0, 0, 0, 0, 0, 0, 0],
        // 0
        vec![0, 0, 0, 0],
        // 0ul
        vec![0, 0, 0, 0, 0, 0, 0, 0],
        // 4ul
        vec![4, 0, 0, 0, 0, 0, 0, 0],
    ];
    kani::concrete_playback_run(concrete_vals, api_two_calls_in_order_3);
}
