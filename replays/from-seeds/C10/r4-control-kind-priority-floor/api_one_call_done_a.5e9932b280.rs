// property=C10 group=jobq harness=api_one_call_done_a
// check: C10: a documented control is missing from its priority queue
// at src/api.rs:195 in api::scenario
// replay: ./check C10 --replay replays/C10/api_one_call_done_a.5e9932b280.rs
#[test]
fn kani_concrete_playback_api_one_call_done_a_12320873956021152479() {
    let concrete_vals: Vec<Vec<u8>> = vec![
        // 0
        vec![0],
        // 0
        vec![0],
        // 0ul
        vec![0, 0, 0, 0, 0, 0, 0, 0],
        // 0
        vec![0, 0, 0, 0],
        // 0ul
        vec![0, 0, 0, 0, 0, 0, 0, 0],
        // 0
        vec![0, 0, 0, 0],
        // 9ul
        vec![9, 0, 0, 0, 0, 0, 0, 0],
    ];
    kani::concrete_playback_run(concrete_vals, api_one_call_done_a);
}
