// property=C10 group=jobq harness=recv_armed_timer_urgent_first_after_wait
// check: free argument has offset zero
// at /root/.kani/kani-0.68.0/library/kani/kani_lib.c:87 in __rust_dealloc
// replay: ./check C10 --replay replays/C10/recv_armed_timer_urgent_first_after_wait.44371c3506.rs
#[test]
fn kani_concrete_playback_recv_armed_timer_urgent_first_after_wait_16552267928388518635() {
    let concrete_vals: Vec<Vec<u8>> = vec![
        // 1ul
        vec![1, 0, 0, 0, 0, 0, 0, 0],
        // 2ul
        vec![2, 0, 0, 0, 0, 0, 0, 0],
        // 0
        vec![0, 0, 0, 0],
        // 0
        vec![0, 0, 0, 0],
    ];
    kani::concrete_playback_run(concrete_vals, recv_armed_timer_urgent_first_after_wait);
}
