// property=C10 group=jobq harness=api_one_call_done_b
// check: C07: multi-control ticket resolved by a control that is not the last one
// at src/api.rs:241 in api::scenario
// replay: ./check C10 --replay replays/C10/api_one_call_done_b.4c4ed6c4df.rs
#[test]
fn kani_concrete_playback_api_one_call_done_b_4308281339473755950() {
    let concrete_vals: Vec<Vec<u8>> = vec![
        // 0
        vec![0],
        // 0
        vec![0],
        // 0ul
        vec![0, 0, 0, 0, 0, 0, 0, 0],
        // 0
        vec![0, 0, 0, 0],
        // 0ul
        vec![0, 0, 0, 0, 0, 0, 0, 0],
        // 0
        vec![0, 0, 0, 0],
        // 0ul
        vec![0, 0, 0, 0, 0, 0, 0, 0],
    ];
    kani::concrete_playback_run(concrete_vals, api_one_call_done_b);
}
