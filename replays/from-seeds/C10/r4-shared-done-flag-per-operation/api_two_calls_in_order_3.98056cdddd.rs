// property=C10 group=jobq harness=api_two_calls_in_order_3
// check: C07: multi-control ticket resolved by a control that is not the last one
// at src/api.rs:241 in api::scenario
// replay: ./check C10 --replay replays/C10/api_two_calls_in_order_3.98056cdddd.rs
#[test]
fn kani_concrete_playback_api_two_calls_in_order_3_12505002636202021013() {
    let concrete_vals: Vec<Vec<u8>> = vec![
        // 0
        vec![0],
        // 0
        vec![0],
        // 0ul
        vec![0, 0, 0, 0, 0, 0, 0, 0],
        // 0
        vec![0, 0, 0, 0],
        // 0ul
        vec![0, 0, 0, 0, 0, 0, 0, 0],
        // 0
        vec![0, 0, 0, 0],
        // 0ul
        vec![0, 0, 0, 0, 0, 0, 0, 0],
        // 3ul
        vec![3, 0, 0, 0, 0, 0, 0, 0],
    ];
    kani::concrete_playback_run(concrete_vals, api_two_calls_in_order_3);
}
