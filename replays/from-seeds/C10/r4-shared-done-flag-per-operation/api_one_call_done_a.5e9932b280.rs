// property=C10 group=jobq harness=api_one_call_done_a
// check: C07: multi-control ticket resolved by a control that is not the last one
// at src/api.rs:241 in api::scenario
// replay: ./check C10 --replay replays/C10/api_one_call_done_a.5e9932b280.rs
#[test]
fn kani_concrete_playback_api_one_call_done_a_12320873956021152479() {
    let concrete_vals: Vec<Vec<u8>> = vec![
        // 0
        vec![0],
        // 0
        vec![0],
        // 0ul
        vec![0, 0, 0, 0, 0, 0, 0, 0],
        // 0
        vec![0, 0, 0, 0],
        // 0ul
        vec![0, 0, 0, 0, 0, 0, 0, 0],
        // 0
        vec![0, 0, 0, 0],
        // 9ul
        vec![9, 0, 0, 0, 0, 0, 0, 0],
    ];
    kani::concrete_playback_run(concrete_vals, api_one_call_done_a);
}
