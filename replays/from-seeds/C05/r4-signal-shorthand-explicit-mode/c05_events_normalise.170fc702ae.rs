// property=C05 group=cli harness=c05_events_normalise
// check: C05: --restart does not select on-busy-update=restart
// at src/c05.rs:56 in c05::c05_events_normalise
// replay: ./check C05 --replay replays/C05/c05_events_normalise.170fc702ae.rs
#[test]
fn kani_concrete_playback_c05_events_normalise_17552733498069235255() {
    let concrete_vals: Vec<Vec<u8>> = vec![
        // 0
        vec![0],
        // 1
        vec![1],
        // 0
        vec![0],
        // 0
        vec![0],
        // 0
        vec![0],
        // 0
        vec![0],
        // 0
        vec![0],
        // 0
        vec![0],
    ];
    kani::concrete_playback_run(concrete_vals, c05_events_normalise);
}
