// property=C05 group=cli harness=c05_events_normalise
// check: C05: --signal does not select on-busy-update=signal
// at src/c05.rs:54 in c05::c05_events_normalise
// replay: ./check C05 --replay replays/C05/c05_events_normalise.56c48148c5.rs
#[test]
fn kani_concrete_playback_c05_events_normalise_11435281775593153837() {
    let concrete_vals: Vec<Vec<u8>> = vec![
        // 0
        vec![0],
        // 0
        vec![0],
        // 1
        vec![1],
        // 0
        vec![0],
        // 0
        vec![0],
        // 0
        vec![0],
        // 0
        vec![0],
        // 0
        vec![0],
        // 0
        vec![0],
    ];
    kani::concrete_playback_run(concrete_vals, c05_events_normalise);
}
