// property=C20 group=origins harness=c20_vcs_xor_soft
// check: C20: project type is neither vcs nor soft
// at src/lib.rs:23 in c20_vcs_xor_soft
// replay: ./check C20 --replay replays/C20/c20_vcs_xor_soft.90e4fc8677.rs
#[test]
fn kani_concrete_playback_c20_vcs_xor_soft_12407343950007309296() {
    let concrete_vals: Vec<Vec<u8>> = vec![
        // 4
        vec![4],
    ];
    kani::concrete_playback_run(concrete_vals, c20_vcs_xor_soft);
}
