// property=C13 group=lib harness=c13_watch_change_between_nexts
// check: C13: a configuration change made between two next() calls is lost (the worker is never told)
// at src/c13watch.rs:64 in c13watch::c13_watch_change_between_nexts
// replay: ./check C13 --replay replays/C13/c13_watch_change_between_nexts.a597044d29.rs
#[test]
fn kani_concrete_playback_c13_watch_change_between_nexts_5149923381326205300() {
    let concrete_vals: Vec<Vec<u8>> = vec![
        // 0ul
        vec![0, 0, 0, 0, 0, 0, 0, 0],
    ];
    kani::concrete_playback_run(concrete_vals, c13_watch_change_between_nexts);
}
