// property=C13 group=lib harness=c13_watch_two_changes_then_quiet
// check: C13: a configuration change made between two next() calls is lost (the worker is never told)
// at src/c13watch.rs:88 in c13watch::c13_watch_two_changes_then_quiet
// replay: ./check C13 --replay replays/C13/c13_watch_two_changes_then_quiet.4cf4a88bed.rs
#[test]
fn kani_concrete_playback_c13_watch_two_changes_then_quiet_6348364308159678536() {
    let concrete_vals: Vec<Vec<u8>> = vec![
        // 0ul
        vec![0, 0, 0, 0, 0, 0, 0, 0],
        // 0
        vec![0],
    ];
    kani::concrete_playback_run(concrete_vals, c13_watch_two_changes_then_quiet);
}
