// property=C13 group=lib harness=c13_replace_from_inside_call
// check: C13: call after replace-from-inside did not reach the new closure
// at src/c13.rs:125 in c13::c13_replace_from_inside_call
// replay: ./check C13 --replay replays/C13/c13_replace_from_inside_call.68228a44ba.rs
#[test]
fn kani_concrete_playback_c13_replace_from_inside_call_5651583282897508719() {
    let concrete_vals: Vec<Vec<u8>> = vec![
        // 0
        vec![0, 0, 0, 0],
    ];
    kani::concrete_playback_run(concrete_vals, c13_replace_from_inside_call);
}
