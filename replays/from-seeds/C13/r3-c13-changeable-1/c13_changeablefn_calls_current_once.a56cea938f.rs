// property=C13 group=lib harness=c13_changeablefn_calls_current_once
// check: C13: call after replace did not reach the new closure
// at src/c13.rs:90 in c13::c13_changeablefn_calls_current_once
// replay: ./check C13 --replay replays/C13/c13_changeablefn_calls_current_once.a56cea938f.rs
#[test]
fn kani_concrete_playback_c13_changeablefn_calls_current_once_14363976552667672986() {
    let concrete_vals: Vec<Vec<u8>> = vec![
        // 0
        vec![0, 0, 0, 0],
        // 0
        vec![0, 0, 0, 0],
        // 0
        vec![0, 0, 0, 0],
        // 0
        vec![0, 0, 0, 0],
        // 0
        vec![0, 0, 0, 0],
    ];
    kani::concrete_playback_run(concrete_vals, c13_changeablefn_calls_current_once);
}
