// property=C13 group=lib harness=c13_config_keyboard_events
// check: C13: Config setter did not signal the change to a registered listener
// at src/c13.rs:255 in c13::setter_scenario
// replay: ./check C13 --replay replays/C13/c13_config_keyboard_events.10c8a7ba30.rs
#[test]
fn kani_concrete_playback_c13_config_keyboard_events_3297587633564345771() {
    let concrete_vals: Vec<Vec<u8>> = vec![
        // 0
        vec![0],
    ];
    kani::concrete_playback_run(concrete_vals, c13_config_keyboard_events);
}
