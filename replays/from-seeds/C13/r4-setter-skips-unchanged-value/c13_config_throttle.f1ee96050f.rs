// property=C13 group=lib harness=c13_config_throttle
// check: C13: Config setter did not signal the change to a registered listener
// at src/c13.rs:255 in c13::setter_scenario
// replay: ./check C13 --replay replays/C13/c13_config_throttle.f1ee96050f.rs
#[test]
fn kani_concrete_playback_c13_config_throttle_484765090191793235() {
    let concrete_vals: Vec<Vec<u8>> = vec![
        // 0ul
        vec![0, 0, 0, 0, 0, 0, 0, 0],
        // 50000000
        vec![128, 240, 250, 2],
    ];
    kani::concrete_playback_run(concrete_vals, c13_config_throttle);
}
