// property=C13 group=lib harness=c13_config_pathset
// check: C13: Config setter did not signal the change to a registered listener
// at src/c13.rs:321 in c13::c13_config_pathset
// replay: ./check C13 --replay replays/C13/c13_config_pathset.a022ac9af1.rs
#[test]
fn kani_concrete_playback_c13_config_pathset_15665215374160411062() {
    let concrete_vals: Vec<Vec<u8>> = vec![
        // 0ul
        vec![0, 0, 0, 0, 0, 0, 0, 0],
        // 64
        vec![64],
        // 64
        vec![64],
        // 64
        vec![64],
        // 64
        vec![64],
    ];
    kani::concrete_playback_run(concrete_vals, c13_config_pathset);
}
