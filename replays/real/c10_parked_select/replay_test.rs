// Stage-2 replay of the C10 counterexample (harness recv_urgent_first_after_wait, start index 2)
// against REAL tokio: append to crates/supervisor/src/job/priority.rs and run
//   cargo test -p watchexec-supervisor --offline --lib verif_replay_c10
// Schedule: `recv` is polled once with nothing queued (parks in its select!), then a normal and an
// urgent control arrive before the task is polled again. tokio's select! starts at a random branch,
// so about one re-poll in three returns the normal control although an urgent one is pending.
#[cfg(test)]
mod verif_replay_c10 {
	use std::future::Future;
	use std::task::{Context, Poll};

	use super::*;

	async fn parked_then(first: Priority, second: Priority, armed: bool) -> usize {
		let mut lower_first = 0;
		for _ in 0..300 {
			// a fresh cooperative-scheduling budget per trial (tokio makes recv return Pending once it is used up)
			tokio::task::yield_now().await;
			let (tx, mut rx) = new();
			let mut st = if armed {
				Some(Timer::stop(Duration::from_secs(3600), Flag::default()))
			} else {
				None
			};
			let fut = rx.recv(&mut st);
			tokio::pin!(fut);
			let waker = futures::task::noop_waker();
			let mut cx = Context::from_waker(&waker);
			assert!(fut.as_mut().poll(&mut cx).is_pending());
			tx.send(
				ControlMessage { control: Control::Start, done: Flag::default() },
				first,
			);
			tx.send(
				ControlMessage { control: Control::Stop, done: Flag::default() },
				second,
			);
			match fut.as_mut().poll(&mut cx) {
				Poll::Ready(Some(m)) => {
					if matches!(m.control, Control::Start) {
						lower_first += 1;
					}
				}
				_ => panic!("recv still pending after controls arrived"),
			}
		}
		lower_first
	}

	#[tokio::test]
	async fn verif_replay_c10_urgent_before_normal_after_park() {
		assert_eq!(parked_then(Priority::Normal, Priority::Urgent, false).await, 0, "normal control returned before a pending urgent one (of 300 trials)");
	}
	#[tokio::test]
	async fn verif_replay_c10_high_before_normal_after_park() {
		assert_eq!(parked_then(Priority::Normal, Priority::High, false).await, 0, "normal control returned before a pending high one (of 300 trials)");
	}
	#[tokio::test]
	async fn verif_replay_c10_urgent_before_high_after_park_timer_armed() {
		assert_eq!(parked_then(Priority::High, Priority::Urgent, true).await, 0, "high control returned before a pending urgent one while the grace timer is armed (of 300 trials)");
	}
}
