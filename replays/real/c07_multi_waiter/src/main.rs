//! Two tasks await clones of one ticket. Both must finish once the control has run.
//! Before the `fix:` commit to flag.rs only the task that polled last is woken; the other one
//! sleeps forever (here: until the 3 s timeout), although its ticket is resolved.
use std::{sync::Arc, time::Duration};
use watchexec_supervisor::{
    command::{Command, Program},
    job::start_job,
};

#[tokio::main(flavor = "current_thread")]
async fn main() {
    let (job, task) = start_job(Arc::new(Command {
        program: Program::Exec { prog: "/bin/sleep".into(), args: vec!["30".into()] },
        options: Default::default(),
    }));
    job.start().await;
    let t1 = job.to_wait(); // resolves when the process ends
    let t2 = t1.clone();
    // a waiter counts as woken if it finishes promptly; the 3 s timeout only un-sticks the test
    // (at its deadline `timeout` re-polls the ticket, which by then reports Ready)
    let t0 = std::time::Instant::now();
    let a = tokio::spawn(async move { let _ = tokio::time::timeout(Duration::from_secs(3), t1).await; t0.elapsed() < Duration::from_secs(2) });
    let b = tokio::spawn(async move { let _ = tokio::time::timeout(Duration::from_secs(3), t2).await; t0.elapsed() < Duration::from_secs(2) });
    tokio::time::sleep(Duration::from_millis(100)).await; // both waiters have polled and are parked
    job.stop().await; // process ends -> the to_wait ticket resolves
    let (a, b) = (a.await.unwrap(), b.await.unwrap());
    job.delete_now().await;
    let _ = task.await;
    println!("waiter A woken: {a}, waiter B woken: {b}");
    if !(a && b) {
        println!("C07 VIOLATED: a task awaiting a resolved ticket was never woken");
        std::process::exit(1);
    }
}
