// property=C19 group=events harness=c19_exitstatus_to_processend
// check: C19: stopped status not reported as ExitStop with its signal
// at src/c19.rs:99 in c19::c19_exitstatus_to_processend
// replay: ./check C19 --replay replays/C19/c19_exitstatus_to_processend.13e89580fd.rs
#[test]
fn kani_concrete_playback_c19_exitstatus_to_processend_16179859638015892188() {
    let concrete_vals: Vec<Vec<u8>> = vec![
        // 383
        vec![127, 1, 0, 0],
    ];
    kani::concrete_playback_run(concrete_vals, c19_exitstatus_to_processend);
}
