// property=C19 group=events harness=c19_exitstatus_to_processend
// check: C19: continued status not reported as Continued
// at src/c19.rs:95 in c19::c19_exitstatus_to_processend
// replay: ./check C19 --replay replays/C19/c19_exitstatus_to_processend.71031eccb6.rs
#[test]
fn kani_concrete_playback_c19_exitstatus_to_processend_18410049785352555073() {
    let concrete_vals: Vec<Vec<u8>> = vec![
        // 65535
        vec![255, 255, 0, 0],
    ];
    kani::concrete_playback_run(concrete_vals, c19_exitstatus_to_processend);
}
