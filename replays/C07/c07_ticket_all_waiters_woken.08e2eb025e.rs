// property=C07 group=supervisor harness=c07_ticket_all_waiters_woken
// check: C07: a task awaiting a ticket was never woken when it resolved
// at src/c07.rs:89 in c07::c07_ticket_all_waiters_woken
// replay: ./check C07 --replay replays/C07/c07_ticket_all_waiters_woken.08e2eb025e.rs
#[test]
fn kani_concrete_playback_c07_ticket_all_waiters_woken_3207081800343983130() {
    let concrete_vals: Vec<Vec<u8>> = vec![
        // 1ul
        vec![1, 0, 0, 0, 0, 0, 0, 0],
        // 1
        vec![1],
        // 1ul
        vec![1, 0, 0, 0, 0, 0, 0, 0],
        // 1
        vec![1],
        // 2ul
        vec![2, 0, 0, 0, 0, 0, 0, 0],
        // 0
        vec![0],
        // 0ul
        vec![0, 0, 0, 0, 0, 0, 0, 0],
        // 1
        vec![1],
        // 0
        vec![0],
    ];
    kani::concrete_playback_run(concrete_vals, c07_ticket_all_waiters_woken);
}
