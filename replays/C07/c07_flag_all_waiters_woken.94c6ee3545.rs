// property=C07 group=supervisor harness=c07_flag_all_waiters_woken
// check: C07: a waiter of a raised flag was never woken
// at src/c07.rs:42 in c07::c07_flag_all_waiters_woken
// replay: ./check C07 --replay replays/C07/c07_flag_all_waiters_woken.94c6ee3545.rs
#[test]
fn kani_concrete_playback_c07_flag_all_waiters_woken_12004830263812774532() {
    let concrete_vals: Vec<Vec<u8>> = vec![
        // 2ul
        vec![2, 0, 0, 0, 0, 0, 0, 0],
        // 0ul
        vec![0, 0, 0, 0, 0, 0, 0, 0],
        // 0
        vec![0],
        // 0ul
        vec![0, 0, 0, 0, 0, 0, 0, 0],
        // 1
        vec![1],
        // 1ul
        vec![1, 0, 0, 0, 0, 0, 0, 0],
        // 0
        vec![0],
        // 1ul
        vec![1, 0, 0, 0, 0, 0, 0, 0],
        // 1
        vec![1],
    ];
    kani::concrete_playback_run(concrete_vals, c07_flag_all_waiters_woken);
}
