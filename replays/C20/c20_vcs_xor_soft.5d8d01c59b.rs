// property=C20 group=origins harness=c20_vcs_xor_soft
// check: C20: project type is both vcs and soft
// at src/lib.rs:24 in c20_vcs_xor_soft
// replay: ./check C20 --replay replays/C20/c20_vcs_xor_soft.5d8d01c59b.rs
#[test]
fn kani_concrete_playback_c20_vcs_xor_soft_5878782977062036526() {
    let concrete_vals: Vec<Vec<u8>> = vec![
        // 12
        vec![12],
    ];
    kani::concrete_playback_run(concrete_vals, c20_vcs_xor_soft);
}
