//! Stand-in for tokio-stream: `wrappers::ReadDirStream` only (signature-level; fs is not modelled).
pub use futures_core::Stream;
pub mod wrappers {
    use std::io;
    use std::pin::Pin;
    use std::task::{Context, Poll};
    use tokio::fs::{DirEntry, ReadDir};

    #[derive(Debug)]
    pub struct ReadDirStream {
        inner: ReadDir,
    }
    impl ReadDirStream {
        pub fn new(read_dir: ReadDir) -> Self {
            Self { inner: read_dir }
        }
        pub fn into_inner(self) -> ReadDir {
            self.inner
        }
    }
    impl futures_core::Stream for ReadDirStream {
        type Item = io::Result<DirEntry>;
        fn poll_next(mut self: Pin<&mut Self>, cx: &mut Context<'_>) -> Poll<Option<Self::Item>> {
            self.inner.poll_next_entry(cx).map(Result::transpose)
        }
    }
}
