//! Model of `async-priority-channel` 0.2.0 for Kani. Single-threaded by construction (see the
//! tokio model). Storage is a fixed array of `Option` slots written/read raw (no `MaybeUninit`,
//! no drop glue for the array itself: DESIGN.md section 2). Wakers are model wakers
//! (`tokio::verif::waker_id`), one parked receiver and one parked sender at most (VERIF-BOUND
//! assertion otherwise).
#![allow(clippy::all, dead_code)]
use std::cell::UnsafeCell;
use std::cmp::Ordering;
use std::future::Future;
use std::pin::Pin;
use std::sync::Arc;
use std::task::{Context, Poll};
use std::{error, fmt};

use tokio::verif;

/// Slots of the model queue; holding more messages than this at once is reported as VERIF-BOUND
/// (never silently dropped), whatever `cap` was asked for.
pub const SLOTS: usize = 2;
const NO_WAKER: usize = usize::MAX;

struct Cell<T>(UnsafeCell<T>);
unsafe impl<T> Send for Cell<T> {}
unsafe impl<T> Sync for Cell<T> {}

struct Item<I, P> {
    msg: I,
    priority: P,
    seq: u64,
}

struct Chan<I, P> {
    slots: [Option<Item<I, P>>; SLOTS],
    len: u64,
    cap: u64,
    closed: bool,
    next_seq: u64,
    sender_count: usize,
    receiver_count: usize,
    rx_waker: usize,
    tx_waker: usize,
}

impl<I, P: Ord> Chan<I, P> {
    fn wake_rx(&mut self) {
        if self.rx_waker != NO_WAKER {
            verif::wake_id(self.rx_waker);
            self.rx_waker = NO_WAKER;
        }
    }
    fn wake_tx(&mut self) {
        if self.tx_waker != NO_WAKER {
            verif::wake_id(self.tx_waker);
            self.tx_waker = NO_WAKER;
        }
    }
    fn close(&mut self) -> bool {
        let was = self.closed;
        self.closed = true;
        self.wake_rx();
        self.wake_tx();
        !was
    }
    fn push(&mut self, msg: I, priority: P) {
        let mut free = SLOTS;
        let mut i = 0;
        while i < SLOTS {
            if self.slots[i].is_none() && free == SLOTS {
                free = i;
            }
            i += 1;
        }
        assert!(free < SLOTS, "VERIF-BOUND: slot array of the priority channel model is full");
        let seq = self.next_seq;
        self.next_seq += 1;
        // the slot is None: overwrite without running drop glue on it
        unsafe { std::ptr::write(&mut self.slots[free], Some(Item { msg, priority, seq })) };
        self.len += 1;
        self.wake_rx();
    }
    /// Highest priority first; oldest first among equal priorities.
    fn pop(&mut self) -> Option<(I, P)> {
        let mut best = SLOTS;
        let mut i = 0;
        while i < SLOTS {
            if let Some(it) = &self.slots[i] {
                let better = if best == SLOTS {
                    true
                } else {
                    match &self.slots[best] {
                        Some(b) => match it.priority.cmp(&b.priority) {
                            Ordering::Greater => true,
                            Ordering::Equal => it.seq < b.seq,
                            Ordering::Less => false,
                        },
                        None => true,
                    }
                };
                if better {
                    best = i;
                }
            }
            i += 1;
        }
        if best == SLOTS {
            return None;
        }
        let v = unsafe { std::ptr::read(&self.slots[best]) };
        unsafe { std::ptr::write(&mut self.slots[best], None) };
        self.len -= 1;
        self.wake_tx();
        v.map(|it| (it.msg, it.priority))
    }
}

pub fn bounded<I, P: Ord>(cap: u64) -> (Sender<I, P>, Receiver<I, P>) {
    if cap == 0 {
        panic!("cap must be positive");
    }
    let channel = Arc::new(Cell(UnsafeCell::new(Chan {
        slots: [const { None }; SLOTS],
        len: 0,
        cap,
        closed: false,
        next_seq: 0,
        sender_count: 1,
        receiver_count: 1,
        rx_waker: NO_WAKER,
        tx_waker: NO_WAKER,
    })));
    (Sender { channel: channel.clone() }, Receiver { channel })
}
pub fn unbounded<I, P: Ord>() -> (Sender<I, P>, Receiver<I, P>) {
    bounded(u64::MAX)
}

pub struct Sender<I, P: Ord> {
    channel: Arc<Cell<Chan<I, P>>>,
}
pub struct Receiver<I, P: Ord> {
    channel: Arc<Cell<Chan<I, P>>>,
}
impl<I, P: Ord> fmt::Debug for Sender<I, P> {
    fn fmt(&self, f: &mut fmt::Formatter<'_>) -> fmt::Result {
        f.write_str("Sender")
    }
}
impl<I, P: Ord> fmt::Debug for Receiver<I, P> {
    fn fmt(&self, f: &mut fmt::Formatter<'_>) -> fmt::Result {
        f.write_str("Receiver")
    }
}
impl<I, P: Ord> Sender<I, P> {
    #[allow(clippy::mut_from_ref)]
    fn chan(&self) -> &mut Chan<I, P> {
        unsafe { &mut *self.channel.0.get() }
    }
}
impl<I, P: Ord> Receiver<I, P> {
    #[allow(clippy::mut_from_ref)]
    fn chan(&self) -> &mut Chan<I, P> {
        unsafe { &mut *self.channel.0.get() }
    }
}
impl<I, P: Ord> Drop for Sender<I, P> {
    fn drop(&mut self) {
        let c = self.chan();
        c.sender_count -= 1;
        if c.sender_count == 0 {
            c.close();
        }
    }
}
impl<I, P: Ord> Drop for Receiver<I, P> {
    fn drop(&mut self) {
        let c = self.chan();
        c.receiver_count -= 1;
        if c.receiver_count == 0 {
            c.close();
        }
    }
}
impl<I, P: Ord> Clone for Sender<I, P> {
    fn clone(&self) -> Self {
        self.chan().sender_count += 1;
        Sender { channel: self.channel.clone() }
    }
}
impl<I, P: Ord> Clone for Receiver<I, P> {
    fn clone(&self) -> Self {
        self.chan().receiver_count += 1;
        Receiver { channel: self.channel.clone() }
    }
}

macro_rules! common {
    () => {
        /// Closes the channel and notifies all blocked operations; true if this call closed it.
        pub fn close(&self) -> bool {
            self.chan().close()
        }
        pub fn is_closed(&self) -> bool {
            self.chan().closed
        }
        pub fn is_empty(&self) -> bool {
            self.chan().len == 0
        }
        pub fn is_full(&self) -> bool {
            let c = self.chan();
            c.len == c.cap
        }
        pub fn len(&self) -> u64 {
            self.chan().len
        }
        pub fn capacity(&self) -> Option<u64> {
            match self.chan().cap {
                u64::MAX => None,
                c => Some(c),
            }
        }
        pub fn receiver_count(&self) -> usize {
            self.chan().receiver_count
        }
        pub fn sender_count(&self) -> usize {
            self.chan().sender_count
        }
    };
}

impl<T, P: Ord> Sender<T, P> {
    common!();

    pub fn try_send(&self, msg: T, priority: P) -> Result<(), TrySendError<(T, P)>> {
        let c = self.chan();
        if c.closed {
            return Err(TrySendError::Closed((msg, priority)));
        }
        if c.len >= c.cap {
            return Err(TrySendError::Full((msg, priority)));
        }
        c.push(msg, priority);
        Ok(())
    }

    /// Waits for space; error iff the channel is closed. (`async fn` in the real crate; a named
    /// future here - same call syntax.)
    pub fn send(&self, msg: T, priority: P) -> SendFut<'_, T, P> {
        SendFut { tx: self, item: Some((msg, priority)) }
    }
}

pub struct SendFut<'a, T, P: Ord> {
    tx: &'a Sender<T, P>,
    item: Option<(T, P)>,
}
impl<T, P: Ord> Unpin for SendFut<'_, T, P> {}
impl<T, P: Ord> Future for SendFut<'_, T, P> {
    type Output = Result<(), SendError<(T, P)>>;
    fn poll(mut self: Pin<&mut Self>, cx: &mut Context<'_>) -> Poll<Self::Output> {
        let (msg, priority) = self.item.take().expect("polled after completion");
        match self.tx.try_send(msg, priority) {
            Ok(()) => Poll::Ready(Ok(())),
            Err(TrySendError::Closed(v)) => Poll::Ready(Err(SendError(v))),
            Err(TrySendError::Full(v)) => {
                self.item = Some(v);
                let c = self.tx.chan();
                let id = verif::waker_id(cx.waker());
                assert!(
                    c.tx_waker == NO_WAKER || c.tx_waker == id,
                    "VERIF-BOUND: more than one sender parked on the priority channel model"
                );
                c.tx_waker = id;
                Poll::Pending
            }
        }
    }
}

impl<I, P: Ord> Receiver<I, P> {
    common!();

    pub fn try_recv(&self) -> Result<(I, P), TryRecvError> {
        let c = self.chan();
        match c.pop() {
            Some(v) => Ok(v),
            None if c.closed => Err(TryRecvError::Closed),
            None => Err(TryRecvError::Empty),
        }
    }

    /// Waits for a message; error iff the channel is empty and closed. (`async fn` in the real
    /// crate; a named future here - same call syntax.)
    pub fn recv(&self) -> RecvFut<'_, I, P> {
        RecvFut { rx: self, registered: false }
    }
}

pub struct RecvFut<'a, I, P: Ord> {
    rx: &'a Receiver<I, P>,
    registered: bool,
}
impl<I, P: Ord> Unpin for RecvFut<'_, I, P> {}
impl<I, P: Ord> Future for RecvFut<'_, I, P> {
    type Output = Result<(I, P), RecvError>;
    fn poll(mut self: Pin<&mut Self>, cx: &mut Context<'_>) -> Poll<Self::Output> {
        match self.rx.try_recv() {
            Ok(v) => Poll::Ready(Ok(v)),
            Err(TryRecvError::Closed) => Poll::Ready(Err(RecvError)),
            Err(TryRecvError::Empty) => {
                let c = self.rx.chan();
                let id = verif::waker_id(cx.waker());
                assert!(
                    c.rx_waker == NO_WAKER || c.rx_waker == id,
                    "VERIF-BOUND: more than one receiver parked on the priority channel model"
                );
                c.rx_waker = id;
                self.registered = true;
                Poll::Pending
            }
        }
    }
}
impl<I, P: Ord> Drop for RecvFut<'_, I, P> {
    /// A dropped `recv()` no longer listens (event-listener removes its entry).
    fn drop(&mut self) {
        if self.registered {
            self.rx.chan().rx_waker = NO_WAKER;
        }
    }
}

#[derive(PartialEq, Eq, Clone, Copy)]
pub struct SendError<T>(pub T);
impl<T> SendError<T> {
    pub fn into_inner(self) -> T {
        self.0
    }
}
impl<T> error::Error for SendError<T> {}
impl<T> fmt::Debug for SendError<T> {
    fn fmt(&self, f: &mut fmt::Formatter<'_>) -> fmt::Result {
        f.write_str("SendError(..)")
    }
}
impl<T> fmt::Display for SendError<T> {
    fn fmt(&self, f: &mut fmt::Formatter<'_>) -> fmt::Result {
        f.write_str("sending into a closed channel")
    }
}

#[derive(PartialEq, Eq, Clone, Copy, Debug)]
pub struct RecvError;
impl error::Error for RecvError {}
impl fmt::Display for RecvError {
    fn fmt(&self, f: &mut fmt::Formatter<'_>) -> fmt::Result {
        f.write_str("receiving from an empty and closed channel")
    }
}

#[derive(PartialEq, Eq, Clone, Copy)]
pub enum TrySendError<T> {
    Full(T),
    Closed(T),
}
impl<T> TrySendError<T> {
    pub fn into_inner(self) -> T {
        match self {
            TrySendError::Full(t) => t,
            TrySendError::Closed(t) => t,
        }
    }
    pub fn is_full(&self) -> bool {
        matches!(self, TrySendError::Full(_))
    }
    pub fn is_closed(&self) -> bool {
        matches!(self, TrySendError::Closed(_))
    }
}
impl<T> error::Error for TrySendError<T> {}
impl<T> fmt::Debug for TrySendError<T> {
    fn fmt(&self, f: &mut fmt::Formatter<'_>) -> fmt::Result {
        f.write_str(match self {
            TrySendError::Full(..) => "Full(..)",
            TrySendError::Closed(..) => "Closed(..)",
        })
    }
}
impl<T> fmt::Display for TrySendError<T> {
    fn fmt(&self, f: &mut fmt::Formatter<'_>) -> fmt::Result {
        f.write_str(match self {
            TrySendError::Full(..) => "sending into a full channel",
            TrySendError::Closed(..) => "sending into a closed channel",
        })
    }
}

#[derive(PartialEq, Eq, Clone, Copy, Debug)]
pub enum TryRecvError {
    Empty,
    Closed,
}
impl TryRecvError {
    pub fn is_empty(&self) -> bool {
        matches!(self, TryRecvError::Empty)
    }
    pub fn is_closed(&self) -> bool {
        matches!(self, TryRecvError::Closed)
    }
}
impl error::Error for TryRecvError {}
impl fmt::Display for TryRecvError {
    fn fmt(&self, f: &mut fmt::Formatter<'_>) -> fmt::Result {
        f.write_str(match self {
            TryRecvError::Empty => "receiving from an empty channel",
            TryRecvError::Closed => "receiving from an empty and closed channel",
        })
    }
}
