//! `spawn` hands the future to the model's task table; the harness is the executor.
use std::future::Future;
use std::pin::Pin;
use std::sync::Arc;
use std::task::{Context, Poll};

use crate::verif::{self, Shared};

#[derive(Debug)]
pub struct JoinError {
    cancelled: bool,
}
impl JoinError {
    pub fn is_cancelled(&self) -> bool {
        self.cancelled
    }
    pub fn is_panic(&self) -> bool {
        !self.cancelled
    }
}
impl std::fmt::Display for JoinError {
    fn fmt(&self, f: &mut std::fmt::Formatter<'_>) -> std::fmt::Result {
        f.write_str("task was cancelled")
    }
}
impl std::error::Error for JoinError {}

pub struct JoinHandle<T> {
    id: usize,
    out: Arc<Shared<Option<T>>>,
}
impl<T> std::fmt::Debug for JoinHandle<T> {
    fn fmt(&self, f: &mut std::fmt::Formatter<'_>) -> std::fmt::Result {
        f.write_str("JoinHandle")
    }
}
impl<T> Unpin for JoinHandle<T> {}
impl<T> JoinHandle<T> {
    pub fn abort(&self) {
        verif::task_abort(self.id);
    }
    pub fn is_finished(&self) -> bool {
        verif::task_done(self.id)
    }
    /// Model-only: the task table index.
    pub fn verif_id(&self) -> usize {
        self.id
    }
    pub fn abort_handle(&self) -> AbortHandle {
        AbortHandle { id: self.id }
    }
}
#[derive(Debug, Clone)]
pub struct AbortHandle {
    id: usize,
}
impl AbortHandle {
    pub fn abort(&self) {
        verif::task_abort(self.id);
    }
    pub fn is_finished(&self) -> bool {
        verif::task_done(self.id)
    }
}
impl<T> Future for JoinHandle<T> {
    type Output = Result<T, JoinError>;
    fn poll(self: Pin<&mut Self>, cx: &mut Context<'_>) -> Poll<Self::Output> {
        if let Some(v) = self.out.get().take() {
            return Poll::Ready(Ok(v));
        }
        if verif::task_aborted(self.id) {
            return Poll::Ready(Err(JoinError { cancelled: true }));
        }
        verif::join_register(self.id, cx.waker());
        Poll::Pending
    }
}

pub fn spawn<F>(fut: F) -> JoinHandle<F::Output>
where
    F: Future + Send + 'static,
    F::Output: Send + 'static,
{
    let out = Arc::new(Shared::new(None));
    let out2 = out.clone();
    // a named wrapper, not an `async move` block: a wrapping coroutine would nest the task future's
    // state union inside its own (nothing read back from it would fold, see DESIGN section 2)
    let id = verif::task_insert(Box::pin(TaskWrap { fut, out: out2 }));
    JoinHandle { id, out }
}

struct TaskWrap<F: Future> {
    fut: F,
    out: Arc<Shared<Option<F::Output>>>,
}
impl<F: Future> Future for TaskWrap<F> {
    type Output = ();
    fn poll(self: Pin<&mut Self>, cx: &mut Context<'_>) -> Poll<()> {
        // SAFETY: `fut` is structurally pinned; it is never moved out of `self`
        let this = unsafe { self.get_unchecked_mut() };
        match unsafe { Pin::new_unchecked(&mut this.fut) }.poll(cx) {
            Poll::Ready(v) => {
                *this.out.get() = Some(v);
                Poll::Ready(())
            }
            Poll::Pending => Poll::Pending,
        }
    }
}

/// Yield once to the executor.
pub async fn yield_now() {
    let mut yielded = false;
    std::future::poll_fn(move |cx| {
        if yielded {
            Poll::Ready(())
        } else {
            yielded = true;
            cx.waker().wake_by_ref();
            Poll::Pending
        }
    })
    .await
}
