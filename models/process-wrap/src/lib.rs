//! Model of `process_wrap::tokio` over a simulated process world (`verif`).
#![allow(clippy::all, static_mut_refs)]

pub mod verif;

pub mod tokio {
    use std::future::Future;
    use std::io::Result;
    use std::process::ExitStatus;

    pub use ::tokio::process::Command;

    use crate::verif::{self, SimChild};

    /// Which wrappers a command carries (the real crate keys them by `TypeId`).
    #[derive(Clone, Copy, Debug, PartialEq, Eq)]
    pub enum WrapKind {
        KillOnDrop,
        ProcessGroup,
        ProcessSession,
        ResetSigmask,
        Other,
    }

    pub trait TokioCommandWrapper: std::fmt::Debug + Send + Sync {
        /// Model-only: identifies the wrapper.
        fn verif_kind(&self) -> WrapKind {
            WrapKind::Other
        }
    }

    #[derive(Clone, Copy, Debug)]
    pub struct KillOnDrop;
    impl TokioCommandWrapper for KillOnDrop {
        fn verif_kind(&self) -> WrapKind {
            WrapKind::KillOnDrop
        }
    }
    #[derive(Clone, Copy, Debug)]
    pub struct ProcessSession;
    impl TokioCommandWrapper for ProcessSession {
        fn verif_kind(&self) -> WrapKind {
            WrapKind::ProcessSession
        }
    }
    #[derive(Clone, Copy, Debug)]
    pub struct ProcessGroup {
        leader: i32,
    }
    impl ProcessGroup {
        pub fn leader() -> Self {
            Self { leader: 0 }
        }
        pub fn attach_to(leader: u32) -> Self {
            Self { leader: leader as i32 }
        }
    }
    impl TokioCommandWrapper for ProcessGroup {
        fn verif_kind(&self) -> WrapKind {
            WrapKind::ProcessGroup
        }
    }
    #[derive(Clone, Copy, Debug)]
    pub struct ResetSigmask;
    impl TokioCommandWrapper for ResetSigmask {
        fn verif_kind(&self) -> WrapKind {
            WrapKind::ResetSigmask
        }
    }

    pub const MAX_WRAPS: usize = 4;

    #[derive(Debug)]
    pub struct TokioCommandWrap {
        command: Command,
        wraps: [Option<WrapKind>; MAX_WRAPS],
    }
    impl From<Command> for TokioCommandWrap {
        fn from(command: Command) -> Self {
            Self { command, wraps: [None; MAX_WRAPS] }
        }
    }
    impl TokioCommandWrap {
        pub fn with_new(program: impl AsRef<std::ffi::OsStr>, init: impl FnOnce(&mut Command)) -> Self {
            let mut command = Command::new(program);
            init(&mut command);
            Self::from(command)
        }
        pub fn command(&self) -> &Command {
            &self.command
        }
        pub fn command_mut(&mut self) -> &mut Command {
            &mut self.command
        }
        pub fn into_command(self) -> Command {
            self.command
        }
        pub fn wrap<W: TokioCommandWrapper + 'static>(&mut self, wrapper: W) -> &mut Self {
            let k = wrapper.verif_kind();
            let mut i = 0;
            while i < MAX_WRAPS {
                match self.wraps[i] {
                    Some(x) if x == k => return self, // same type: the real crate `extend`s
                    None => {
                        self.wraps[i] = Some(k);
                        return self;
                    }
                    _ => {}
                }
                i += 1;
            }
            panic!("VERIF-BOUND: wrapper table of the process-wrap model is full");
        }
        /// Model-only: does the command carry this wrapper?
        pub fn verif_has(&self, k: WrapKind) -> bool {
            let mut i = 0;
            while i < MAX_WRAPS {
                if self.wraps[i] == Some(k) {
                    return true;
                }
                i += 1;
            }
            false
        }
        pub fn verif_wrap_count(&self) -> usize {
            let mut n = 0;
            let mut i = 0;
            while i < MAX_WRAPS {
                if self.wraps[i].is_some() {
                    n += 1;
                }
                i += 1;
            }
            n
        }
        pub fn spawn(&mut self) -> Result<Box<dyn TokioChildWrapper>> {
            let c = verif::spawn(self.verif_has(WrapKind::KillOnDrop))?;
            Ok(Box::new(c))
        }
    }

    pub trait TokioChildWrapper: std::fmt::Debug + Send + Sync {
        fn id(&self) -> Option<u32>;
        fn kill(&mut self) -> Box<dyn Future<Output = Result<()>> + Send + '_> {
            Box::new(async {
                self.start_kill()?;
                Box::into_pin(self.wait()).await?;
                Ok(())
            })
        }
        fn start_kill(&mut self) -> Result<()>;
        fn try_wait(&mut self) -> Result<Option<ExitStatus>>;
        fn wait(&mut self) -> Box<dyn Future<Output = Result<ExitStatus>> + Send + '_>;
        fn signal(&self, sig: i32) -> Result<()>;
    }

    impl TokioChildWrapper for SimChild {
        fn id(&self) -> Option<u32> {
            Some(self.pid())
        }
        fn start_kill(&mut self) -> Result<()> {
            verif::start_kill(self.index())
        }
        fn try_wait(&mut self) -> Result<Option<ExitStatus>> {
            verif::try_wait(self.index())
        }
        fn wait(&mut self) -> Box<dyn Future<Output = Result<ExitStatus>> + Send + '_> {
            Box::new(verif::Wait::new(self.index()))
        }
        fn signal(&self, sig: i32) -> Result<()> {
            verif::signal(self.index(), sig)
        }
    }
}
