//! The simulated process world. Everything the harness wants to quantify over is a field it
//! sets (from `kani::any()`) before or between steps; everything the property needs to observe
//! is in the event log.
use std::future::Future;
use std::io::{Error, Result};
use std::os::unix::process::ExitStatusExt;
use std::pin::Pin;
use std::process::ExitStatus;
use std::task::{Context, Poll};

use ::tokio::verif as tv;

pub const MAX_CHILDREN: usize = 4;
pub const MAX_LOG: usize = 16;
pub const NEVER: u64 = u64::MAX;

/// Behaviour of one simulated process (set by the harness before it is spawned).
#[derive(Clone, Copy, Debug)]
pub struct Behaviour {
    /// Virtual time (relative to spawn) after which the process exits by itself; NEVER = runs on.
    pub exits_after: u64,
    /// Raw exit status it reports then.
    pub exit_code: u8,
    /// Delay between receiving a (non-KILL) signal and exiting because of it; NEVER = ignores.
    pub reacts_after: u64,
}
impl Behaviour {
    pub const fn runs_forever() -> Self {
        Self { exits_after: NEVER, exit_code: 0, reacts_after: NEVER }
    }
}

#[derive(Clone, Copy, Debug, PartialEq, Eq)]
pub enum Ev {
    Spawn,
    SpawnFailed,
    Signal,
    SignalFailed,
    Kill,
    KillFailed,
    Reaped,
    WaitFailed,
    Dropped,
}
#[derive(Clone, Copy, Debug)]
pub struct LogEntry {
    pub ev: Ev,
    pub child: usize,
    pub at: u64,
    pub arg: i32,
}

#[derive(Clone, Copy, Debug)]
struct Proc {
    spawned: bool,
    spawned_at: u64,
    /// absolute virtual time at which the process ends (NEVER = not scheduled)
    ends_at: u64,
    /// raw wait status it will report
    status: i32,
    reaped: bool,
    dropped: bool,
    kill_on_drop: bool,
    behaviour: Behaviour,
    timer: Option<usize>,
}
const PROC0: Proc = Proc {
    spawned: false,
    spawned_at: 0,
    ends_at: NEVER,
    status: 0,
    reaped: false,
    dropped: false,
    kill_on_drop: false,
    behaviour: Behaviour::runs_forever(),
    timer: None,
};

pub struct World {
    procs: [Proc; MAX_CHILDREN],
    n_spawned: usize,
    n_spawn_calls: usize,
    log: [LogEntry; MAX_LOG],
    n_log: usize,
    /// behaviours for the i-th successfully spawned child
    pub behaviours: [Behaviour; MAX_CHILDREN],
    /// the spawn call (0-based, counting failures) that fails; usize::MAX = none
    pub fail_spawn_call: usize,
    /// the signal / kill / wait call (0-based, global) that fails; usize::MAX = none
    pub fail_signal_call: usize,
    pub fail_kill_call: usize,
    pub fail_wait_call: usize,
    n_signal_calls: usize,
    n_kill_calls: usize,
    n_wait_calls: usize,
    /// maximum number of simultaneously live (spawned, not reaped/dropped) children ever seen
    pub max_live: usize,
    /// a spawn happened while another child was still live
    pub overlap: bool,
}
static mut WORLD: World = World {
    procs: [PROC0; MAX_CHILDREN],
    n_spawned: 0,
    n_spawn_calls: 0,
    log: [LogEntry { ev: Ev::Spawn, child: 0, at: 0, arg: 0 }; MAX_LOG],
    n_log: 0,
    behaviours: [Behaviour::runs_forever(); MAX_CHILDREN],
    fail_spawn_call: usize::MAX,
    fail_signal_call: usize::MAX,
    fail_kill_call: usize::MAX,
    fail_wait_call: usize::MAX,
    n_signal_calls: 0,
    n_kill_calls: 0,
    n_wait_calls: 0,
    max_live: 0,
    overlap: false,
};

pub fn world() -> &'static mut World {
    unsafe { &mut WORLD }
}

fn log(ev: Ev, child: usize, arg: i32) {
    let w = world();
    assert!(w.n_log < MAX_LOG, "VERIF-BOUND: event log of the process model is full");
    w.log[w.n_log] = LogEntry { ev, child, at: tv::now_ns(), arg };
    w.n_log += 1;
}

impl World {
    pub fn log(&self) -> &[LogEntry] {
        &self.log[..self.n_log]
    }
    pub fn n_log(&self) -> usize {
        self.n_log
    }
    pub fn entry(&self, i: usize) -> LogEntry {
        self.log[i]
    }
    pub fn count(&self, ev: Ev) -> usize {
        let mut n = 0;
        let mut i = 0;
        while i < MAX_LOG {
            if i < self.n_log && self.log[i].ev == ev {
                n += 1;
            }
            i += 1;
        }
        n
    }
    pub fn n_spawned(&self) -> usize {
        self.n_spawned
    }
    /// spawned and neither reaped nor dropped
    pub fn live(&self) -> usize {
        let mut n = 0;
        let mut i = 0;
        while i < MAX_CHILDREN {
            let p = &self.procs[i];
            if p.spawned && !p.reaped && !p.dropped {
                n += 1;
            }
            i += 1;
        }
        n
    }
    /// has child i (by spawn order) ended (its end time has passed)?
    pub fn ended(&self, i: usize) -> bool {
        self.procs[i].spawned && self.procs[i].ends_at <= tv::now_ns()
    }
    pub fn reaped(&self, i: usize) -> bool {
        self.procs[i].reaped
    }
    pub fn dropped(&self, i: usize) -> bool {
        self.procs[i].dropped
    }
    pub fn ends_at(&self, i: usize) -> u64 {
        self.procs[i].ends_at
    }
    pub fn spawned_at(&self, i: usize) -> u64 {
        self.procs[i].spawned_at
    }
}

fn os_err() -> Error {
    Error::from_raw_os_error(5) // EIO; no heap allocation
}

/// A handle to simulated process `idx`. Dropping it models dropping the real child wrapper:
/// with KillOnDrop the process is killed (and left to the runtime's orphan reaper).
#[derive(Debug)]
pub struct SimChild {
    idx: usize,
}
impl SimChild {
    pub fn index(&self) -> usize {
        self.idx
    }
    pub fn pid(&self) -> u32 {
        1000 + self.idx as u32
    }
}
impl Drop for SimChild {
    fn drop(&mut self) {
        let w = world();
        let p = &mut w.procs[self.idx];
        if !p.reaped {
            p.dropped = true;
            if let Some(t) = p.timer.take() {
                tv::timer_release(t);
            }
            log(Ev::Dropped, self.idx, p.kill_on_drop as i32);
        }
    }
}

pub fn spawn(kill_on_drop: bool) -> Result<SimChild> {
    let w = world();
    let call = w.n_spawn_calls;
    w.n_spawn_calls += 1;
    if call == w.fail_spawn_call {
        log(Ev::SpawnFailed, w.n_spawned, 0);
        return Err(os_err());
    }
    let idx = w.n_spawned;
    assert!(idx < MAX_CHILDREN, "VERIF-BOUND: process table of the process model is full");
    if w.live() > 0 {
        w.overlap = true;
    }
    w.n_spawned += 1;
    let b = w.behaviours[idx];
    let now = tv::now_ns();
    w.procs[idx] = Proc {
        spawned: true,
        spawned_at: now,
        ends_at: if b.exits_after == NEVER { NEVER } else { now.saturating_add(b.exits_after) },
        status: (b.exit_code as i32) << 8,
        reaped: false,
        dropped: false,
        kill_on_drop,
        behaviour: b,
        timer: None,
    };
    log(Ev::Spawn, idx, 0);
    let live = w.live();
    if live > w.max_live {
        w.max_live = live;
    }
    Ok(SimChild { idx })
}

const NO_WAKER: usize = usize::MAX;
static mut WAIT_WAKERS: [usize; MAX_CHILDREN] = [NO_WAKER; MAX_CHILDREN];

fn reschedule(idx: usize) {
    // the end time moved: re-arm the wake-up of a pending wait()
    let w = world();
    let p = &mut w.procs[idx];
    unsafe {
        if WAIT_WAKERS[idx] != NO_WAKER {
            if p.ends_at <= tv::now_ns() {
                if let Some(t) = p.timer.take() {
                    tv::timer_release(t);
                }
                tv::wake_id(WAIT_WAKERS[idx]);
                WAIT_WAKERS[idx] = NO_WAKER;
            } else if p.ends_at != NEVER {
                let t = tv::timer_register_id(p.timer, p.ends_at, WAIT_WAKERS[idx]);
                p.timer = Some(t);
            }
        }
    }
}

pub fn signal(idx: usize, sig: i32) -> Result<()> {
    let w = world();
    let call = w.n_signal_calls;
    w.n_signal_calls += 1;
    if call == w.fail_signal_call {
        log(Ev::SignalFailed, idx, sig);
        return Err(os_err());
    }
    log(Ev::Signal, idx, sig);
    let now = tv::now_ns();
    let p = &mut w.procs[idx];
    if p.ends_at > now {
        if sig == 9 {
            p.ends_at = now;
            p.status = 9;
        } else if p.behaviour.reacts_after != NEVER {
            let t = now.saturating_add(p.behaviour.reacts_after);
            if t < p.ends_at {
                p.ends_at = t;
                p.status = sig & 0x7f;
            }
        }
        reschedule(idx);
    }
    Ok(())
}

pub fn start_kill(idx: usize) -> Result<()> {
    let w = world();
    let call = w.n_kill_calls;
    w.n_kill_calls += 1;
    if call == w.fail_kill_call {
        log(Ev::KillFailed, idx, 0);
        return Err(os_err());
    }
    log(Ev::Kill, idx, 0);
    let now = tv::now_ns();
    let p = &mut w.procs[idx];
    if p.ends_at > now {
        p.ends_at = now;
        p.status = 9;
        reschedule(idx);
    }
    Ok(())
}

fn reap(idx: usize) -> ExitStatus {
    let w = world();
    let p = &mut w.procs[idx];
    if !p.reaped {
        p.reaped = true;
        if let Some(t) = p.timer.take() {
            tv::timer_release(t);
        }
        let st = p.status;
        log(Ev::Reaped, idx, st);
    }
    ExitStatus::from_raw(world().procs[idx].status)
}

pub fn try_wait(idx: usize) -> Result<Option<ExitStatus>> {
    if world().procs[idx].ends_at <= tv::now_ns() {
        Ok(Some(reap(idx)))
    } else {
        Ok(None)
    }
}

/// Future of `child.wait()`.
pub struct Wait {
    idx: usize,
    counted: bool,
}
impl Wait {
    pub fn new(idx: usize) -> Self {
        Self { idx, counted: false }
    }
}
impl Future for Wait {
    type Output = Result<ExitStatus>;
    fn poll(mut self: Pin<&mut Self>, cx: &mut Context<'_>) -> Poll<Self::Output> {
        let idx = self.idx;
        let w = world();
        if !self.counted {
            self.counted = true;
            let call = w.n_wait_calls;
            w.n_wait_calls += 1;
            if call == w.fail_wait_call {
                log(Ev::WaitFailed, idx, 0);
                return Poll::Ready(Err(os_err()));
            }
        }
        let p = &mut w.procs[idx];
        if p.ends_at <= tv::now_ns() {
            unsafe { WAIT_WAKERS[idx] = NO_WAKER };
            return Poll::Ready(Ok(reap(idx)));
        }
        unsafe { WAIT_WAKERS[idx] = tv::waker_id(cx.waker()) };
        if p.ends_at != NEVER {
            let t = tv::timer_register(p.timer, p.ends_at, cx.waker());
            p.timer = Some(t);
        }
        Poll::Pending
    }
}
impl Drop for Wait {
    fn drop(&mut self) {
        // a dropped wait future deregisters its wake-ups (tokio's Child::wait is cancel-safe)
        let p = &mut world().procs[self.idx];
        if let Some(t) = p.timer.take() {
            tv::timer_release(t);
        }
        unsafe { WAIT_WAKERS[self.idx] = NO_WAKER };
    }
}
