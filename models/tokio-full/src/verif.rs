//! Harness-facing control surface of the model: virtual clock, timers, task table, wakers.
use std::cell::UnsafeCell;
use std::future::Future;
use std::pin::Pin;
use std::task::{Context, Poll, RawWaker, RawWakerVTable, Waker};

/// Interior-mutable cell shared between handles. Sound only because nothing here ever runs on
/// two threads (Kani executes sequentially; native replays run one test on one thread).
pub struct Shared<T>(UnsafeCell<T>);
unsafe impl<T> Send for Shared<T> {}
unsafe impl<T> Sync for Shared<T> {}
impl<T> Shared<T> {
    pub const fn new(v: T) -> Self {
        Self(UnsafeCell::new(v))
    }
    #[allow(clippy::mut_from_ref)]
    pub fn get(&self) -> &mut T {
        unsafe { &mut *self.0.get() }
    }
}
impl<T> std::fmt::Debug for Shared<T> {
    fn fmt(&self, f: &mut std::fmt::Formatter<'_>) -> std::fmt::Result {
        f.write_str("Shared")
    }
}

/// `select!` start index policy: usize::MAX = solver-chosen per call (default, every branch
/// order is explored); k = fixed rotation k % n (one order per harness run; cheaper).
pub static mut SELECT_START: usize = usize::MAX;
pub fn set_select_start(k: usize) {
    unsafe { SELECT_START = k }
}

/// A solver-chosen value in 0..n (n > 0).
pub fn choose(n: u32) -> u32 {
    unsafe {
        if SELECT_START != usize::MAX {
            return (SELECT_START as u32) % n;
        }
    }
    #[cfg(kani)]
    {
        let x: u32 = kani::any();
        kani::assume(x < n);
        x
    }
    #[cfg(not(kani))]
    {
        let _ = n;
        0
    }
}

// ---------------------------------------------------------------- wakers
//
// A waker is just a small integer id; waking sets bit `id` in WOKEN. Task i of the task table
// has id i (< MAX_TASKS); harness-level waiters use ids from HARNESS_ID_BASE up.

pub const MAX_TASKS: usize = 4;
pub const HARNESS_ID_BASE: usize = 8;
pub const MAX_IDS: usize = 32;

static mut WOKEN: u32 = 0;
static mut WAKE_COUNT: [u8; MAX_IDS] = [0; MAX_IDS];

/// Waker identities are addresses inside this array (not integers cast to pointers): CBMC folds
/// equality and difference of pointers into one object to constants, which keeps
/// `Waker::will_wake` and everything that branches on it concrete.
static ID_CELLS: [u8; MAX_IDS] = [0; MAX_IDS];
fn id_ptr(id: usize) -> *const () {
    unsafe { ID_CELLS.as_ptr().add(id) as *const () }
}
fn ptr_id(p: *const ()) -> usize {
    unsafe { (p as *const u8).offset_from(ID_CELLS.as_ptr()) as usize }
}

unsafe fn vt_clone(p: *const ()) -> RawWaker {
    RawWaker::new(p, &VTABLE)
}
unsafe fn vt_wake(p: *const ()) {
    wake_id(ptr_id(p));
}
unsafe fn vt_drop(_: *const ()) {}
static VTABLE: RawWakerVTable = RawWakerVTable::new(vt_clone, vt_wake, vt_wake, vt_drop);

/// Identity of a model waker (every waker that reaches the model was made by `waker()`).
pub fn waker_id(w: &Waker) -> usize {
    ptr_id(w.data())
}
/// Wake by identity (what `Waker::wake` of a model waker does), without an indirect call.
pub fn wake_id(id: usize) {
    unsafe {
        WOKEN |= 1 << id;
        WAKE_COUNT[id] = WAKE_COUNT[id].saturating_add(1);
    }
}

/// The waker with identity `id`.
pub fn waker(id: usize) -> Waker {
    assert!(id < MAX_IDS);
    unsafe { Waker::from_raw(RawWaker::new(id_ptr(id), &VTABLE)) }
}
/// Has waker `id` been woken since the flag was last cleared?
pub fn woken(id: usize) -> bool {
    unsafe { WOKEN & (1 << id) != 0 }
}
pub fn clear_woken(id: usize) {
    unsafe { WOKEN &= !(1 << id) }
}
pub fn wake_count(id: usize) -> u8 {
    unsafe { WAKE_COUNT[id] }
}
/// Poll `fut` once with waker `id` (clears the woken flag first).
pub fn poll_with<F: Future + ?Sized>(id: usize, fut: Pin<&mut F>) -> Poll<F::Output> {
    clear_woken(id);
    let w = waker(id);
    let mut cx = Context::from_waker(&w);
    fut.poll(&mut cx)
}

// ---------------------------------------------------------------- virtual clock + timers

static mut NOW_NS: u64 = 0;
pub const MAX_TIMERS: usize = 2; // tokio-full: 2 (6 in models/tokio)
#[derive(Clone, Copy)]
struct TimerSlot {
    active: bool,
    deadline: u64,
    waker: usize, // waker id; NO_WAKER = fired / none
}
const NO_WAKER: usize = usize::MAX;
static mut TIMERS: [TimerSlot; MAX_TIMERS] =
    [TimerSlot { active: false, deadline: 0, waker: NO_WAKER }; MAX_TIMERS];

/// Current virtual time in nanoseconds since the model epoch.
pub fn now_ns() -> u64 {
    unsafe { NOW_NS }
}

/// Register (or refresh) a wake-up at `deadline`. Returns the slot.
pub fn timer_register(slot: Option<usize>, deadline: u64, w: &Waker) -> usize {
    timer_register_id(slot, deadline, waker_id(w))
}
pub fn timer_register_id(slot: Option<usize>, deadline: u64, w: usize) -> usize {
    unsafe {
        let s = match slot {
            Some(s) => s,
            None => {
                let mut found = MAX_TIMERS;
                let mut i = 0;
                while i < MAX_TIMERS {
                    if !TIMERS[i].active && found == MAX_TIMERS {
                        found = i;
                    }
                    i += 1;
                }
                assert!(found < MAX_TIMERS, "VERIF-BOUND: timer table of the tokio model is full");
                found
            }
        };
        TIMERS[s].active = true;
        TIMERS[s].deadline = deadline;
        TIMERS[s].waker = w;
        s
    }
}
pub fn timer_release(slot: usize) {
    unsafe {
        TIMERS[slot].active = false;
        TIMERS[slot].waker = NO_WAKER;
    }
}
/// Earliest pending timer deadline, if any.
pub fn next_deadline() -> Option<u64> {
    unsafe {
        let mut best: Option<u64> = None;
        let mut i = 0;
        while i < MAX_TIMERS {
            if TIMERS[i].active {
                best = Some(match best {
                    Some(b) if b <= TIMERS[i].deadline => b,
                    _ => TIMERS[i].deadline,
                });
            }
            i += 1;
        }
        best
    }
}
/// Move the virtual clock forward to `t` (never backwards) and fire every timer that is due.
pub fn advance_to(t: u64) {
    unsafe {
        if t > NOW_NS {
            NOW_NS = t;
        }
        let mut i = 0;
        while i < MAX_TIMERS {
            if TIMERS[i].active && TIMERS[i].deadline <= NOW_NS {
                if TIMERS[i].waker != NO_WAKER {
                    wake_id(TIMERS[i].waker);
                    TIMERS[i].waker = NO_WAKER;
                }
            }
            i += 1;
        }
    }
}
pub fn advance_by(d: u64) {
    advance_to(now_ns().saturating_add(d));
}

// ---------------------------------------------------------------- task table / executor

type TaskFut = Pin<Box<dyn Future<Output = ()> + Send + 'static>>;
static mut TASKS: [Option<TaskFut>; MAX_TASKS] = [const { None }; MAX_TASKS];
static mut TASK_DONE: [bool; MAX_TASKS] = [false; MAX_TASKS];
static mut TASK_ABORTED: [bool; MAX_TASKS] = [false; MAX_TASKS];
static mut N_TASKS: usize = 0;
static mut POLLING: usize = usize::MAX;

pub(crate) fn task_insert(f: TaskFut) -> usize {
    unsafe {
        let id = N_TASKS;
        assert!(id < MAX_TASKS, "VERIF-BOUND: task table of the tokio model is full");
        N_TASKS += 1;
        TASKS[id] = Some(f);
        WOKEN |= 1 << id; // a freshly spawned task is runnable
        id
    }
}
pub fn task_count() -> usize {
    unsafe { N_TASKS }
}
pub fn task_done(id: usize) -> bool {
    unsafe { TASK_DONE[id] }
}
pub fn task_aborted(id: usize) -> bool {
    unsafe { TASK_ABORTED[id] }
}
pub(crate) fn task_abort(id: usize) {
    unsafe {
        if !TASK_DONE[id] {
            TASK_ABORTED[id] = true;
            TASK_DONE[id] = true;
            if POLLING != id {
                TASKS[id] = None; // drops the future (runs its destructors)
            }
            join_wake(id);
        }
    }
}

static mut JOIN_WAKERS: [usize; MAX_TASKS] = [NO_WAKER; MAX_TASKS];
pub(crate) fn join_register(id: usize, w: &Waker) {
    unsafe { JOIN_WAKERS[id] = waker_id(w) }
}
fn join_wake(id: usize) {
    unsafe {
        if JOIN_WAKERS[id] != NO_WAKER {
            wake_id(JOIN_WAKERS[id]);
            JOIN_WAKERS[id] = NO_WAKER;
        }
    }
}

/// Poll task `id` once if it is runnable. Returns true if it was polled.
pub fn poll_task(id: usize) -> bool {
    unsafe {
        if id >= N_TASKS || TASK_DONE[id] || !woken(id) {
            return false;
        }
        clear_woken(id);
        let w = waker(id);
        let mut cx = Context::from_waker(&w);
        POLLING = id;
        let r = match TASKS[id].as_mut() {
            Some(f) => f.as_mut().poll(&mut cx),
            None => Poll::Ready(()),
        };
        POLLING = usize::MAX;
        if r.is_ready() || TASK_ABORTED[id] {
            TASK_DONE[id] = true;
            TASKS[id] = None;
            join_wake(id);
        }
        true
    }
}
/// Is any task runnable?
pub fn any_runnable() -> bool {
    unsafe {
        let mut i = 0;
        while i < MAX_TASKS {
            if i < N_TASKS && !TASK_DONE[i] && woken(i) {
                return true;
            }
            i += 1;
        }
        false
    }
}
/// One executor turn: polls every runnable task once, lowest id first.
pub fn turn() -> bool {
    let mut any = false;
    let mut i = 0;
    while i < MAX_TASKS {
        if poll_task(i) {
            any = true;
        }
        i += 1;
    }
    any
}
/// Drop every task (end of harness: lets destructors run, e.g. KillOnDrop).
pub fn drop_all_tasks() {
    unsafe {
        let mut i = 0;
        while i < MAX_TASKS {
            TASKS[i] = None;
            i += 1;
        }
    }
}
/// Leak every task (end of harness: skips drop glue, which is expensive to encode).
pub fn forget_all_tasks() {
    unsafe {
        let mut i = 0;
        while i < MAX_TASKS {
            std::mem::forget(TASKS[i].take());
            i += 1;
        }
    }
}
