//! Signature-only stubs of `tokio::signal::unix` (not modelled).
pub mod unix {
    use std::io;
    #[derive(Debug, Clone, Copy, PartialEq, Eq, Hash)]
    pub struct SignalKind(i32);
    impl SignalKind {
        pub const fn from_raw(n: i32) -> Self { Self(n) }
        pub const fn as_raw_value(&self) -> i32 { self.0 }
        pub const fn alarm() -> Self { Self(14) }
        pub const fn child() -> Self { Self(17) }
        pub const fn hangup() -> Self { Self(1) }
        pub const fn interrupt() -> Self { Self(2) }
        pub const fn io() -> Self { Self(29) }
        pub const fn pipe() -> Self { Self(13) }
        pub const fn quit() -> Self { Self(3) }
        pub const fn terminate() -> Self { Self(15) }
        pub const fn user_defined1() -> Self { Self(10) }
        pub const fn user_defined2() -> Self { Self(12) }
        pub const fn window_change() -> Self { Self(28) }
    }
    #[derive(Debug)]
    pub struct Signal(());
    impl Signal {
        pub async fn recv(&mut self) -> Option<()> {
            unimplemented!("tokio model: OS signals are not modelled")
        }
    }
    pub fn signal(_kind: SignalKind) -> io::Result<Signal> {
        unimplemented!("tokio model: OS signals are not modelled")
    }
}
