//! `tokio::process::Command` as a recorder of what it is given (no OS process is created).
use std::ffi::{OsStr, OsString};

#[derive(Debug, Clone, Default)]
pub struct Command {
    pub verif_program: OsString,
    pub verif_args: Vec<OsString>,
    pub verif_envs: Vec<(OsString, Option<OsString>)>,
    pub verif_cwd: Option<OsString>,
    pub verif_kill_on_drop: bool,
    pub verif_process_group: Option<i32>,
}

impl Command {
    pub fn new<S: AsRef<OsStr>>(program: S) -> Command {
        Command { verif_program: program.as_ref().to_os_string(), ..Default::default() }
    }
    pub fn arg<S: AsRef<OsStr>>(&mut self, arg: S) -> &mut Command {
        self.verif_args.push(arg.as_ref().to_os_string());
        self
    }
    pub fn args<I, S>(&mut self, args: I) -> &mut Command
    where
        I: IntoIterator<Item = S>,
        S: AsRef<OsStr>,
    {
        for a in args {
            self.arg(a);
        }
        self
    }
    pub fn env<K: AsRef<OsStr>, V: AsRef<OsStr>>(&mut self, k: K, v: V) -> &mut Command {
        self.verif_envs.push((k.as_ref().to_os_string(), Some(v.as_ref().to_os_string())));
        self
    }
    pub fn env_remove<K: AsRef<OsStr>>(&mut self, k: K) -> &mut Command {
        self.verif_envs.push((k.as_ref().to_os_string(), None));
        self
    }
    pub fn current_dir<P: AsRef<std::path::Path>>(&mut self, dir: P) -> &mut Command {
        self.verif_cwd = Some(dir.as_ref().as_os_str().to_os_string());
        self
    }
    pub fn kill_on_drop(&mut self, v: bool) -> &mut Command {
        self.verif_kill_on_drop = v;
        self
    }
    pub fn process_group(&mut self, pgroup: i32) -> &mut Command {
        self.verif_process_group = Some(pgroup);
        self
    }
}
