//! Virtual time. `Instant` counts nanoseconds on the model clock (`verif::now_ns`).
use std::future::Future;
use std::ops::{Add, AddAssign, Sub};
use std::pin::Pin;
use std::task::{Context, Poll};
pub use std::time::Duration;

use crate::verif;

#[derive(Clone, Copy, Debug, PartialEq, Eq, PartialOrd, Ord, Hash)]
pub struct Instant(u64);

fn dur_ns(d: Duration) -> u64 {
    let n = d.as_nanos();
    if n > u64::MAX as u128 { u64::MAX } else { n as u64 }
}

impl Instant {
    pub fn now() -> Self {
        Self(verif::now_ns())
    }
    pub fn from_ns(ns: u64) -> Self {
        Self(ns)
    }
    pub fn as_ns(&self) -> u64 {
        self.0
    }
    pub fn elapsed(&self) -> Duration {
        Duration::from_nanos(verif::now_ns().saturating_sub(self.0))
    }
    pub fn duration_since(&self, earlier: Instant) -> Duration {
        Duration::from_nanos(self.0.saturating_sub(earlier.0))
    }
    pub fn saturating_duration_since(&self, earlier: Instant) -> Duration {
        Duration::from_nanos(self.0.saturating_sub(earlier.0))
    }
    pub fn checked_add(&self, d: Duration) -> Option<Instant> {
        self.0.checked_add(dur_ns(d)).map(Instant)
    }
}
impl Add<Duration> for Instant {
    type Output = Instant;
    /// tokio/std panic on overflow; the model saturates at "never" (far future), which is the
    /// documented behaviour of `sleep` for durations beyond the timer's range.
    fn add(self, d: Duration) -> Instant {
        Instant(self.0.saturating_add(dur_ns(d)))
    }
}
impl AddAssign<Duration> for Instant {
    fn add_assign(&mut self, d: Duration) {
        *self = *self + d;
    }
}
impl Sub<Instant> for Instant {
    type Output = Duration;
    fn sub(self, o: Instant) -> Duration {
        self.duration_since(o)
    }
}
impl Sub<Duration> for Instant {
    type Output = Instant;
    fn sub(self, d: Duration) -> Instant {
        Instant(self.0.saturating_sub(dur_ns(d)))
    }
}

/// Future returned by `sleep` / `sleep_until`.
#[derive(Debug)]
pub struct Sleep {
    deadline: u64,
    slot: Option<usize>,
}
impl Sleep {
    pub fn deadline(&self) -> Instant {
        Instant(self.deadline)
    }
    pub fn is_elapsed(&self) -> bool {
        verif::now_ns() >= self.deadline
    }
}
impl Future for Sleep {
    type Output = ();
    fn poll(mut self: Pin<&mut Self>, cx: &mut Context<'_>) -> Poll<()> {
        if verif::now_ns() >= self.deadline {
            if let Some(s) = self.slot.take() {
                verif::timer_release(s);
            }
            Poll::Ready(())
        } else {
            let s = verif::timer_register(self.slot, self.deadline, cx.waker());
            self.slot = Some(s);
            Poll::Pending
        }
    }
}
impl Drop for Sleep {
    fn drop(&mut self) {
        if let Some(s) = self.slot.take() {
            verif::timer_release(s);
        }
    }
}
pub fn sleep_until(deadline: Instant) -> Sleep {
    Sleep { deadline: deadline.0, slot: None }
}
pub fn sleep(d: Duration) -> Sleep {
    sleep_until(Instant::now() + d)
}

pub mod error {
    #[derive(Debug, PartialEq, Eq)]
    pub struct Elapsed(pub(crate) ());
    impl std::fmt::Display for Elapsed {
        fn fmt(&self, f: &mut std::fmt::Formatter<'_>) -> std::fmt::Result {
            f.write_str("deadline has elapsed")
        }
    }
    impl std::error::Error for Elapsed {}
}

/// Future returned by `timeout`: polls the inner future first, then the deadline (as tokio does).
pub struct Timeout<F> {
    fut: F,
    sleep: Sleep,
}
impl<F: Future> Future for Timeout<F> {
    type Output = Result<F::Output, error::Elapsed>;
    fn poll(self: Pin<&mut Self>, cx: &mut Context<'_>) -> Poll<Self::Output> {
        // structural pinning of both fields
        let this = unsafe { self.get_unchecked_mut() };
        let fut = unsafe { Pin::new_unchecked(&mut this.fut) };
        if let Poll::Ready(v) = fut.poll(cx) {
            return Poll::Ready(Ok(v));
        }
        match Pin::new(&mut this.sleep).poll(cx) {
            Poll::Ready(()) => Poll::Ready(Err(error::Elapsed(()))),
            Poll::Pending => Poll::Pending,
        }
    }
}
pub fn timeout<F: Future>(d: Duration, fut: F) -> Timeout<F> {
    Timeout { fut, sleep: sleep(d) }
}
