//! Signature-only stubs of `tokio::fs` (never on the path of a harness; present so that the
//! dependency graph of `watchexec` compiles against the model).
use std::io;
use std::path::{Path, PathBuf};

pub async fn canonicalize(_p: impl AsRef<Path>) -> io::Result<PathBuf> {
    unimplemented!("tokio model: fs is not modelled")
}
pub async fn metadata(_p: impl AsRef<Path>) -> io::Result<std::fs::Metadata> {
    unimplemented!("tokio model: fs is not modelled")
}
pub async fn read_to_string(_p: impl AsRef<Path>) -> io::Result<String> {
    unimplemented!("tokio model: fs is not modelled")
}
pub async fn read_dir(_p: impl AsRef<Path>) -> io::Result<ReadDir> {
    unimplemented!("tokio model: fs is not modelled")
}
#[derive(Debug)]
pub struct ReadDir(());
impl ReadDir {
    pub async fn next_entry(&mut self) -> io::Result<Option<DirEntry>> {
        unimplemented!("tokio model: fs is not modelled")
    }
    pub fn poll_next_entry(
        &mut self,
        _cx: &mut std::task::Context<'_>,
    ) -> std::task::Poll<io::Result<Option<DirEntry>>> {
        unimplemented!("tokio model: fs is not modelled")
    }
}
#[derive(Debug)]
pub struct DirEntry(());
impl DirEntry {
    pub fn path(&self) -> PathBuf {
        unimplemented!("tokio model: fs is not modelled")
    }
    pub fn file_name(&self) -> std::ffi::OsString {
        unimplemented!("tokio model: fs is not modelled")
    }
    pub async fn file_type(&self) -> io::Result<std::fs::FileType> {
        unimplemented!("tokio model: fs is not modelled")
    }
    pub async fn metadata(&self) -> io::Result<std::fs::Metadata> {
        unimplemented!("tokio model: fs is not modelled")
    }
}
