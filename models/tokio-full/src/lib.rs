//! Verification model of tokio (API subset used by watchexec), for Kani.
//!
//! Single-threaded by construction (Kani is sequential): shared state lives in `verif::Shared`
//! cells without locking. Time is virtual and only moves when the harness says so. `select!` is
//! tokio's own macro text (src/macros/select.rs copied verbatim from tokio 1.43.0); the only
//! change is in `macros::support::thread_rng_n`, which returns a solver-chosen start index.
#![allow(clippy::all, dead_code, unused_unsafe, static_mut_refs)]

pub mod verif;

#[macro_use]
pub mod macros;
pub mod fs;
pub mod io;
pub mod process;
pub mod signal;
pub mod sync;
pub mod task;
pub mod time;

pub use task::spawn;

#[doc(hidden)]
pub use tokio_macros::select_priv_clean_pattern;
#[doc(hidden)]
pub use tokio_macros::select_priv_declare_output_enum;
pub use tokio_macros::{main, test};
