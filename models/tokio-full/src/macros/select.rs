macro_rules! doc {
    ($select:item) => {
        /// Waits on multiple concurrent branches, returning when the **first** branch
        /// completes, cancelling the remaining branches.
        ///
        /// The `select!` macro must be used inside of async functions, closures, and
        /// blocks.
        ///
        /// The `select!` macro accepts one or more branches with the following pattern:
        ///
        /// ```text
        /// <pattern> = <async expression> (, if <precondition>)? => <handler>,
        /// ```
        ///
        /// Additionally, the `select!` macro may include a single, optional `else`
        /// branch, which evaluates if none of the other branches match their patterns:
        ///
        /// ```text
        /// else => <expression>
        /// ```
        ///
        /// The macro aggregates all `<async expression>` expressions and runs them
        /// concurrently on the **current** task. Once the **first** expression
        /// completes with a value that matches its `<pattern>`, the `select!` macro
        /// returns the result of evaluating the completed branch's `<handler>`
        /// expression.
        ///
        /// Additionally, each branch may include an optional `if` precondition. If the
        /// precondition returns `false`, then the branch is disabled. The provided
        /// `<async expression>` is still evaluated but the resulting future is never
        /// polled. This capability is useful when using `select!` within a loop.
        ///
        /// The complete lifecycle of a `select!` expression is as follows:
        ///
        /// 1. Evaluate all provided `<precondition>` expressions. If the precondition
        ///    returns `false`, disable the branch for the remainder of the current call
        ///    to `select!`. Re-entering `select!` due to a loop clears the "disabled"
        ///    state.
        /// 2. Aggregate the `<async expression>`s from each branch, including the
        ///    disabled ones. If the branch is disabled, `<async expression>` is still
        ///    evaluated, but the resulting future is not polled.
        /// 3. If **all** branches are disabled: go to step 6.
        /// 4. Concurrently await on the results for all remaining `<async expression>`s.
        /// 5. Once an `<async expression>` returns a value, attempt to apply the value to the
        ///    provided `<pattern>`. If the pattern matches, evaluate the `<handler>` and return.
        ///    If the pattern **does not** match, disable the current branch for the remainder of
        ///    the current call to `select!`. Continue from step 3.
        /// 6. Evaluate the `else` expression. If no else expression is provided, panic.
        ///
        /// # Runtime characteristics
        ///
        /// By running all async expressions on the current task, the expressions are
        /// able to run **concurrently** but not in **parallel**. This means all
        /// expressions are run on the same thread and if one branch blocks the thread,
        /// all other expressions will be unable to continue. If parallelism is
        /// required, spawn each async expression using [`tokio::spawn`] and pass the
        /// join handle to `select!`.
        ///
        /// [`tokio::spawn`]: crate::spawn
        ///
        /// # Fairness
        ///
        /// By default, `select!` randomly picks a branch to check first. This provides
        /// some level of fairness when calling `select!` in a loop with branches that
        /// are always ready.
        ///
        /// This behavior can be overridden by adding `biased;` to the beginning of the
        /// macro usage. See the examples for details. This will cause `select` to poll
        /// the futures in the order they appear from top to bottom. There are a few
        /// reasons you may want this:
        ///
        /// - The random number generation of `tokio::select!` has a non-zero CPU cost
        /// - Your futures may interact in a way where known polling order is significant
        ///
        /// But there is an important caveat to this mode. It becomes your responsibility
        /// to ensure that the polling order of your futures is fair. If for example you
        /// are selecting between a stream and a shutdown future, and the stream has a
        /// huge volume of messages and zero or nearly zero time between them, you should
        /// place the shutdown future earlier in the `select!` list to ensure that it is
        /// always polled, and will not be ignored due to the stream being constantly
        /// ready.
        ///
        /// # Panics
        ///
        /// The `select!` macro panics if all branches are disabled **and** there is no
        /// provided `else` branch. A branch is disabled when the provided `if`
        /// precondition returns `false` **or** when the pattern does not match the
        /// result of `<async expression>`.
        ///
        /// # Cancellation safety
        ///
        /// When using `select!` in a loop to receive messages from multiple sources,
        /// you should make sure that the receive call is cancellation safe to avoid
        /// losing messages. This section goes through various common methods and
        /// describes whether they are cancel safe.  The lists in this section are not
        /// exhaustive.
        ///
        /// The following methods are cancellation safe:
        ///
        ///  * [`tokio::sync::mpsc::Receiver::recv`](crate::sync::mpsc::Receiver::recv)
        ///  * [`tokio::sync::mpsc::UnboundedReceiver::recv`](crate::sync::mpsc::UnboundedReceiver::recv)
        ///  * [`tokio::sync::broadcast::Receiver::recv`](crate::sync::broadcast::Receiver::recv)
        ///  * [`tokio::sync::watch::Receiver::changed`](crate::sync::watch::Receiver::changed)
        ///  * [`tokio::net::TcpListener::accept`](crate::net::TcpListener::accept)
        ///  * [`tokio::net::UnixListener::accept`](crate::net::UnixListener::accept)
        ///  * [`tokio::signal::unix::Signal::recv`](crate::signal::unix::Signal::recv)
        ///  * [`tokio::io::AsyncReadExt::read`](crate::io::AsyncReadExt::read) on any `AsyncRead`
        ///  * [`tokio::io::AsyncReadExt::read_buf`](crate::io::AsyncReadExt::read_buf) on any `AsyncRead`
        ///  * [`tokio::io::AsyncWriteExt::write`](crate::io::AsyncWriteExt::write) on any `AsyncWrite`
        ///  * [`tokio::io::AsyncWriteExt::write_buf`](crate::io::AsyncWriteExt::write_buf) on any `AsyncWrite`
        ///  * [`tokio_stream::StreamExt::next`](https://docs.rs/tokio-stream/0.1/tokio_stream/trait.StreamExt.html#method.next) on any `Stream`
        ///  * [`futures::stream::StreamExt::next`](https://docs.rs/futures/0.3/futures/stream/trait.StreamExt.html#method.next) on any `Stream`
        ///
        /// The following methods are not cancellation safe and can lead to loss of data:
        ///
        ///  * [`tokio::io::AsyncReadExt::read_exact`](crate::io::AsyncReadExt::read_exact)
        ///  * [`tokio::io::AsyncReadExt::read_to_end`](crate::io::AsyncReadExt::read_to_end)
        ///  * [`tokio::io::AsyncReadExt::read_to_string`](crate::io::AsyncReadExt::read_to_string)
        ///  * [`tokio::io::AsyncWriteExt::write_all`](crate::io::AsyncWriteExt::write_all)
        ///
        /// The following methods are not cancellation safe because they use a queue for
        /// fairness and cancellation makes you lose your place in the queue:
        ///
        ///  * [`tokio::sync::Mutex::lock`](crate::sync::Mutex::lock)
        ///  * [`tokio::sync::RwLock::read`](crate::sync::RwLock::read)
        ///  * [`tokio::sync::RwLock::write`](crate::sync::RwLock::write)
        ///  * [`tokio::sync::Semaphore::acquire`](crate::sync::Semaphore::acquire)
        ///  * [`tokio::sync::Notify::notified`](crate::sync::Notify::notified)
        ///
        /// To determine whether your own methods are cancellation safe, look for the
        /// location of uses of `.await`. This is because when an asynchronous method is
        /// cancelled, that always happens at an `.await`. If your function behaves
        /// correctly even if it is restarted while waiting at an `.await`, then it is
        /// cancellation safe.
        ///
        /// Cancellation safety can be defined in the following way: If you have a
        /// future that has not yet completed, then it must be a no-op to drop that
        /// future and recreate it. This definition is motivated by the situation where
        /// a `select!` is used in a loop. Without this guarantee, you would lose your
        /// progress when another branch completes and you restart the `select!` by
        /// going around the loop.
        ///
        /// Be aware that cancelling something that is not cancellation safe is not
        /// necessarily wrong. For example, if you are cancelling a task because the
        /// application is shutting down, then you probably don't care that partially
        /// read data is lost.
        ///
        /// # Examples
        ///
        /// Basic select with two branches.
        ///
        /// ```
        /// async fn do_stuff_async() {
        ///     // async work
        /// }
        ///
        /// async fn more_async_work() {
        ///     // more here
        /// }
        ///
        /// #[tokio::main]
        /// async fn main() {
        ///     tokio::select! {
        ///         _ = do_stuff_async() => {
        ///             println!("do_stuff_async() completed first")
        ///         }
        ///         _ = more_async_work() => {
        ///             println!("more_async_work() completed first")
        ///         }
        ///     };
        /// }
        /// ```
        ///
        /// Basic stream selecting.
        ///
        /// ```
        /// use tokio_stream::{self as stream, StreamExt};
        ///
        /// #[tokio::main]
        /// async fn main() {
        ///     let mut stream1 = stream::iter(vec![1, 2, 3]);
        ///     let mut stream2 = stream::iter(vec![4, 5, 6]);
        ///
        ///     let next = tokio::select! {
        ///         v = stream1.next() => v.unwrap(),
        ///         v = stream2.next() => v.unwrap(),
        ///     };
        ///
        ///     assert!(next == 1 || next == 4);
        /// }
        /// ```
        ///
        /// Collect the contents of two streams. In this example, we rely on pattern
        /// matching and the fact that `stream::iter` is "fused", i.e. once the stream
        /// is complete, all calls to `next()` return `None`.
        ///
        /// ```
        /// use tokio_stream::{self as stream, StreamExt};
        ///
        /// #[tokio::main]
        /// async fn main() {
        ///     let mut stream1 = stream::iter(vec![1, 2, 3]);
        ///     let mut stream2 = stream::iter(vec![4, 5, 6]);
        ///
        ///     let mut values = vec![];
        ///
        ///     loop {
        ///         tokio::select! {
        ///             Some(v) = stream1.next() => values.push(v),
        ///             Some(v) = stream2.next() => values.push(v),
        ///             else => break,
        ///         }
        ///     }
        ///
        ///     values.sort();
        ///     assert_eq!(&[1, 2, 3, 4, 5, 6], &values[..]);
        /// }
        /// ```
        ///
        /// Using the same future in multiple `select!` expressions can be done by passing
        /// a reference to the future. Doing so requires the future to be [`Unpin`]. A
        /// future can be made [`Unpin`] by either using [`Box::pin`] or stack pinning.
        ///
        /// [`Unpin`]: std::marker::Unpin
        /// [`Box::pin`]: std::boxed::Box::pin
        ///
        /// Here, a stream is consumed for at most 1 second.
        ///
        /// ```
        /// use tokio_stream::{self as stream, StreamExt};
        /// use tokio::time::{self, Duration};
        ///
        /// #[tokio::main]
        /// async fn main() {
        ///     let mut stream = stream::iter(vec![1, 2, 3]);
        ///     let sleep = time::sleep(Duration::from_secs(1));
        ///     tokio::pin!(sleep);
        ///
        ///     loop {
        ///         tokio::select! {
        ///             maybe_v = stream.next() => {
        ///                 if let Some(v) = maybe_v {
        ///                     println!("got = {}", v);
        ///                 } else {
        ///                     break;
        ///                 }
        ///             }
        ///             _ = &mut sleep => {
        ///                 println!("timeout");
        ///                 break;
        ///             }
        ///         }
        ///     }
        /// }
        /// ```
        ///
        /// Joining two values using `select!`.
        ///
        /// ```
        /// use tokio::sync::oneshot;
        ///
        /// #[tokio::main]
        /// async fn main() {
        ///     let (tx1, mut rx1) = oneshot::channel();
        ///     let (tx2, mut rx2) = oneshot::channel();
        ///
        ///     tokio::spawn(async move {
        ///         tx1.send("first").unwrap();
        ///     });
        ///
        ///     tokio::spawn(async move {
        ///         tx2.send("second").unwrap();
        ///     });
        ///
        ///     let mut a = None;
        ///     let mut b = None;
        ///
        ///     while a.is_none() || b.is_none() {
        ///         tokio::select! {
        ///             v1 = (&mut rx1), if a.is_none() => a = Some(v1.unwrap()),
        ///             v2 = (&mut rx2), if b.is_none() => b = Some(v2.unwrap()),
        ///         }
        ///     }
        ///
        ///     let res = (a.unwrap(), b.unwrap());
        ///
        ///     assert_eq!(res.0, "first");
        ///     assert_eq!(res.1, "second");
        /// }
        /// ```
        ///
        /// Using the `biased;` mode to control polling order.
        ///
        /// ```
        /// #[tokio::main]
        /// async fn main() {
        ///     let mut count = 0u8;
        ///
        ///     loop {
        ///         tokio::select! {
        ///             // If you run this example without `biased;`, the polling order is
        ///             // pseudo-random, and the assertions on the value of count will
        ///             // (probably) fail.
        ///             biased;
        ///
        ///             _ = async {}, if count < 1 => {
        ///                 count += 1;
        ///                 assert_eq!(count, 1);
        ///             }
        ///             _ = async {}, if count < 2 => {
        ///                 count += 1;
        ///                 assert_eq!(count, 2);
        ///             }
        ///             _ = async {}, if count < 3 => {
        ///                 count += 1;
        ///                 assert_eq!(count, 3);
        ///             }
        ///             _ = async {}, if count < 4 => {
        ///                 count += 1;
        ///                 assert_eq!(count, 4);
        ///             }
        ///
        ///             else => {
        ///                 break;
        ///             }
        ///         };
        ///     }
        /// }
        /// ```
        ///
        /// ## Avoid racy `if` preconditions
        ///
        /// Given that `if` preconditions are used to disable `select!` branches, some
        /// caution must be used to avoid missing values.
        ///
        /// For example, here is **incorrect** usage of `sleep` with `if`. The objective
        /// is to repeatedly run an asynchronous task for up to 50 milliseconds.
        /// However, there is a potential for the `sleep` completion to be missed.
        ///
        /// ```no_run,should_panic
        /// use tokio::time::{self, Duration};
        ///
        /// async fn some_async_work() {
        ///     // do work
        /// }
        ///
        /// #[tokio::main]
        /// async fn main() {
        ///     let sleep = time::sleep(Duration::from_millis(50));
        ///     tokio::pin!(sleep);
        ///
        ///     while !sleep.is_elapsed() {
        ///         tokio::select! {
        ///             _ = &mut sleep, if !sleep.is_elapsed() => {
        ///                 println!("operation timed out");
        ///             }
        ///             _ = some_async_work() => {
        ///                 println!("operation completed");
        ///             }
        ///         }
        ///     }
        ///
        ///     panic!("This example shows how not to do it!");
        /// }
        /// ```
        ///
        /// In the above example, `sleep.is_elapsed()` may return `true` even if
        /// `sleep.poll()` never returned `Ready`. This opens up a potential race
        /// condition where `sleep` expires between the `while !sleep.is_elapsed()`
        /// check and the call to `select!` resulting in the `some_async_work()` call to
        /// run uninterrupted despite the sleep having elapsed.
        ///
        /// One way to write the above example without the race would be:
        ///
        /// ```
        /// use tokio::time::{self, Duration};
        ///
        /// async fn some_async_work() {
        /// # time::sleep(Duration::from_millis(10)).await;
        ///     // do work
        /// }
        ///
        /// #[tokio::main]
        /// async fn main() {
        ///     let sleep = time::sleep(Duration::from_millis(50));
        ///     tokio::pin!(sleep);
        ///
        ///     loop {
        ///         tokio::select! {
        ///             _ = &mut sleep => {
        ///                 println!("operation timed out");
        ///                 break;
        ///             }
        ///             _ = some_async_work() => {
        ///                 println!("operation completed");
        ///             }
        ///         }
        ///     }
        /// }
        /// ```
        #[macro_export]
        #[cfg_attr(docsrs, doc(cfg(feature = "macros")))]
        $select
    };
}

#[cfg(doc)]
doc! {macro_rules! select {
    {
        $(
            biased;
        )?
        $(
            $bind:pat = $fut:expr $(, if $cond:expr)? => $handler:expr,
        )*
        $(
            else => $els:expr $(,)?
        )?
    } => {
        unimplemented!()
    };
}}

#[cfg(not(doc))]
doc! {macro_rules! select {
    // Uses a declarative macro to do **most** of the work. While it is possible
    // to implement fully with a declarative macro, a procedural macro is used
    // to enable improved error messages.
    //
    // The macro is structured as a tt-muncher. All branches are processed and
    // normalized. Once the input is normalized, it is passed to the top-most
    // rule. When entering the macro, `@{ }` is inserted at the front. This is
    // used to collect the normalized input.
    //
    // The macro only recurses once per branch. This allows using `select!`
    // without requiring the user to increase the recursion limit.

    // All input is normalized, now transform.
    (@ {
        // The index of the future to poll first (in bias mode), or the RNG
        // expression to use to pick a future to poll first.
        start=$start:expr;

        // One `_` for each branch in the `select!` macro. Passing this to
        // `count!` converts $skip to an integer.
        ( $($count:tt)* )

        // Normalized select branches. `( $skip )` is a set of `_` characters.
        // There is one `_` for each select branch **before** this one. Given
        // that all input futures are stored in a tuple, $skip is useful for
        // generating a pattern to reference the future for the current branch.
        // $skip is also used as an argument to `count!`, returning the index of
        // the current select branch.
        $( ( $($skip:tt)* ) $bind:pat = $fut:expr, if $c:expr => $handle:expr, )+

        // Fallback expression used when all select branches have been disabled.
        ; $else:expr

    }) => {{
        // Enter a context where stable "function-like" proc macros can be used.
        //
        // This module is defined within a scope and should not leak out of this
        // macro.
        #[doc(hidden)]
        mod __tokio_select_util {
            // Generate an enum with one variant per select branch
            $crate::select_priv_declare_output_enum!( ( $($count)* ) );
        }

        // `tokio::macros::support` is a public, but doc(hidden) module
        // including a re-export of all types needed by this macro.
        use $crate::macros::support::Future;
        use $crate::macros::support::Pin;
        use $crate::macros::support::Poll::{Ready, Pending};

        const BRANCHES: u32 = $crate::count!( $($count)* );

        let mut disabled: __tokio_select_util::Mask = Default::default();

        // First, invoke all the pre-conditions. For any that return true,
        // set the appropriate bit in `disabled`.
        $(
            if !$c {
                let mask: __tokio_select_util::Mask = 1 << $crate::count!( $($skip)* );
                disabled |= mask;
            }
        )*

        // Create a scope to separate polling from handling the output. This
        // adds borrow checker flexibility when using the macro.
        let mut output = {
            // Store each future directly first (that is, without wrapping the future in a call to
            // `IntoFuture::into_future`). This allows the `$fut` expression to make use of
            // temporary lifetime extension.
            //
            // https://doc.rust-lang.org/1.58.1/reference/destructors.html#temporary-lifetime-extension
            let futures_init = ($( $fut, )+);

            // Safety: Nothing must be moved out of `futures`. This is to
            // satisfy the requirement of `Pin::new_unchecked` called below.
            //
            // We can't use the `pin!` macro for this because `futures` is a
            // tuple and the standard library provides no way to pin-project to
            // the fields of a tuple.
            let mut futures = ($( $crate::macros::support::IntoFuture::into_future(
                        $crate::count_field!( futures_init.$($skip)* )
            ),)+);

            // This assignment makes sure that the `poll_fn` closure only has a
            // reference to the futures, instead of taking ownership of them.
            // This mitigates the issue described in
            // <https://internals.rust-lang.org/t/surprising-soundness-trouble-around-pollfn/17484>
            let mut futures = &mut futures;

            $crate::macros::support::poll_fn(|cx| {
                // Track if any branch returns pending. If no branch completes
                // **or** returns pending, this implies that all branches are
                // disabled.
                let mut is_pending = false;

                // Choose a starting index to begin polling the futures at. In
                // practice, this will either be a pseudo-randomly generated
                // number by default, or the constant 0 if `biased;` is
                // supplied.
                let start = $start;

                for i in 0..BRANCHES {
                    let branch;
                    #[allow(clippy::modulo_one)]
                    {
                        branch = (start + i) % BRANCHES;
                    }
                    match branch {
                        $(
                            #[allow(unreachable_code)]
                            $crate::count!( $($skip)* ) => {
                                // First, if the future has previously been
                                // disabled, do not poll it again. This is done
                                // by checking the associated bit in the
                                // `disabled` bit field.
                                let mask = 1 << branch;

                                if disabled & mask == mask {
                                    // The future has been disabled.
                                    continue;
                                }

                                // Extract the future for this branch from the
                                // tuple
                                let ( $($skip,)* fut, .. ) = &mut *futures;

                                // Safety: future is stored on the stack above
                                // and never moved.
                                let mut fut = unsafe { Pin::new_unchecked(fut) };

                                // Try polling it
                                let out = match Future::poll(fut, cx) {
                                    Ready(out) => out,
                                    Pending => {
                                        // Track that at least one future is
                                        // still pending and continue polling.
                                        is_pending = true;
                                        continue;
                                    }
                                };

                                // Disable the future from future polling.
                                disabled |= mask;

                                // The future returned a value, check if matches
                                // the specified pattern.
                                #[allow(unused_variables)]
                                #[allow(unused_mut)]
                                match &out {
                                    $crate::select_priv_clean_pattern!($bind) => {}
                                    _ => continue,
                                }

                                // The select is complete, return the value
                                return Ready($crate::select_variant!(__tokio_select_util::Out, ($($skip)*))(out));
                            }
                        )*
                        _ => unreachable!("reaching this means there probably is an off by one bug"),
                    }
                }

                if is_pending {
                    Pending
                } else {
                    // All branches have been disabled.
                    Ready(__tokio_select_util::Out::Disabled)
                }
            }).await
        };

        match output {
            $(
                $crate::select_variant!(__tokio_select_util::Out, ($($skip)*) ($bind)) => $handle,
            )*
            __tokio_select_util::Out::Disabled => $else,
            _ => unreachable!("failed to match bind"),
        }
    }};

    // ==== Normalize =====

    // These rules match a single `select!` branch and normalize it for
    // processing by the first rule.

    (@ { start=$start:expr; $($t:tt)* } ) => {
        // No `else` branch
        $crate::select!(@{ start=$start; $($t)*; panic!("all branches are disabled and there is no else branch") })
    };
    (@ { start=$start:expr; $($t:tt)* } else => $else:expr $(,)?) => {
        $crate::select!(@{ start=$start; $($t)*; $else })
    };
    (@ { start=$start:expr; ( $($s:tt)* ) $($t:tt)* } $p:pat = $f:expr, if $c:expr => $h:block, $($r:tt)* ) => {
        $crate::select!(@{ start=$start; ($($s)* _) $($t)* ($($s)*) $p = $f, if $c => $h, } $($r)*)
    };
    (@ { start=$start:expr; ( $($s:tt)* ) $($t:tt)* } $p:pat = $f:expr => $h:block, $($r:tt)* ) => {
        $crate::select!(@{ start=$start; ($($s)* _) $($t)* ($($s)*) $p = $f, if true => $h, } $($r)*)
    };
    (@ { start=$start:expr; ( $($s:tt)* ) $($t:tt)* } $p:pat = $f:expr, if $c:expr => $h:block $($r:tt)* ) => {
        $crate::select!(@{ start=$start; ($($s)* _) $($t)* ($($s)*) $p = $f, if $c => $h, } $($r)*)
    };
    (@ { start=$start:expr; ( $($s:tt)* ) $($t:tt)* } $p:pat = $f:expr => $h:block $($r:tt)* ) => {
        $crate::select!(@{ start=$start; ($($s)* _) $($t)* ($($s)*) $p = $f, if true => $h, } $($r)*)
    };
    (@ { start=$start:expr; ( $($s:tt)* ) $($t:tt)* } $p:pat = $f:expr, if $c:expr => $h:expr ) => {
        $crate::select!(@{ start=$start; ($($s)* _) $($t)* ($($s)*) $p = $f, if $c => $h, })
    };
    (@ { start=$start:expr; ( $($s:tt)* ) $($t:tt)* } $p:pat = $f:expr => $h:expr ) => {
        $crate::select!(@{ start=$start; ($($s)* _) $($t)* ($($s)*) $p = $f, if true => $h, })
    };
    (@ { start=$start:expr; ( $($s:tt)* ) $($t:tt)* } $p:pat = $f:expr, if $c:expr => $h:expr, $($r:tt)* ) => {
        $crate::select!(@{ start=$start; ($($s)* _) $($t)* ($($s)*) $p = $f, if $c => $h, } $($r)*)
    };
    (@ { start=$start:expr; ( $($s:tt)* ) $($t:tt)* } $p:pat = $f:expr => $h:expr, $($r:tt)* ) => {
        $crate::select!(@{ start=$start; ($($s)* _) $($t)* ($($s)*) $p = $f, if true => $h, } $($r)*)
    };

    // ===== Entry point =====

    ($(biased;)? else => $else:expr $(,)? ) => {{
        $else
    }};

    (biased; $p:pat = $($t:tt)* ) => {
        $crate::select!(@{ start=0; () } $p = $($t)*)
    };

    ( $p:pat = $($t:tt)* ) => {
        // Randomly generate a starting point. This makes `select!` a bit more
        // fair and avoids always polling the first future.
        $crate::select!(@{ start={ $crate::macros::support::thread_rng_n(BRANCHES) }; () } $p = $($t)*)
    };

    () => {
        compile_error!("select! requires at least one branch.")
    };
}}

// And here... we manually list out matches for up to 64 branches... I'm not
// happy about it either, but this is how we manage to use a declarative macro!

#[macro_export]
#[doc(hidden)]
macro_rules! count {
    () => {
        0
    };
    (_) => {
        1
    };
    (_ _) => {
        2
    };
    (_ _ _) => {
        3
    };
    (_ _ _ _) => {
        4
    };
    (_ _ _ _ _) => {
        5
    };
    (_ _ _ _ _ _) => {
        6
    };
    (_ _ _ _ _ _ _) => {
        7
    };
    (_ _ _ _ _ _ _ _) => {
        8
    };
    (_ _ _ _ _ _ _ _ _) => {
        9
    };
    (_ _ _ _ _ _ _ _ _ _) => {
        10
    };
    (_ _ _ _ _ _ _ _ _ _ _) => {
        11
    };
    (_ _ _ _ _ _ _ _ _ _ _ _) => {
        12
    };
    (_ _ _ _ _ _ _ _ _ _ _ _ _) => {
        13
    };
    (_ _ _ _ _ _ _ _ _ _ _ _ _ _) => {
        14
    };
    (_ _ _ _ _ _ _ _ _ _ _ _ _ _ _) => {
        15
    };
    (_ _ _ _ _ _ _ _ _ _ _ _ _ _ _ _) => {
        16
    };
    (_ _ _ _ _ _ _ _ _ _ _ _ _ _ _ _ _) => {
        17
    };
    (_ _ _ _ _ _ _ _ _ _ _ _ _ _ _ _ _ _) => {
        18
    };
    (_ _ _ _ _ _ _ _ _ _ _ _ _ _ _ _ _ _ _) => {
        19
    };
    (_ _ _ _ _ _ _ _ _ _ _ _ _ _ _ _ _ _ _ _) => {
        20
    };
    (_ _ _ _ _ _ _ _ _ _ _ _ _ _ _ _ _ _ _ _ _) => {
        21
    };
    (_ _ _ _ _ _ _ _ _ _ _ _ _ _ _ _ _ _ _ _ _ _) => {
        22
    };
    (_ _ _ _ _ _ _ _ _ _ _ _ _ _ _ _ _ _ _ _ _ _ _) => {
        23
    };
    (_ _ _ _ _ _ _ _ _ _ _ _ _ _ _ _ _ _ _ _ _ _ _ _) => {
        24
    };
    (_ _ _ _ _ _ _ _ _ _ _ _ _ _ _ _ _ _ _ _ _ _ _ _ _) => {
        25
    };
    (_ _ _ _ _ _ _ _ _ _ _ _ _ _ _ _ _ _ _ _ _ _ _ _ _ _) => {
        26
    };
    (_ _ _ _ _ _ _ _ _ _ _ _ _ _ _ _ _ _ _ _ _ _ _ _ _ _ _) => {
        27
    };
    (_ _ _ _ _ _ _ _ _ _ _ _ _ _ _ _ _ _ _ _ _ _ _ _ _ _ _ _) => {
        28
    };
    (_ _ _ _ _ _ _ _ _ _ _ _ _ _ _ _ _ _ _ _ _ _ _ _ _ _ _ _ _) => {
        29
    };
    (_ _ _ _ _ _ _ _ _ _ _ _ _ _ _ _ _ _ _ _ _ _ _ _ _ _ _ _ _ _) => {
        30
    };
    (_ _ _ _ _ _ _ _ _ _ _ _ _ _ _ _ _ _ _ _ _ _ _ _ _ _ _ _ _ _ _) => {
        31
    };
    (_ _ _ _ _ _ _ _ _ _ _ _ _ _ _ _ _ _ _ _ _ _ _ _ _ _ _ _ _ _ _ _) => {
        32
    };
    (_ _ _ _ _ _ _ _ _ _ _ _ _ _ _ _ _ _ _ _ _ _ _ _ _ _ _ _ _ _ _ _ _) => {
        33
    };
    (_ _ _ _ _ _ _ _ _ _ _ _ _ _ _ _ _ _ _ _ _ _ _ _ _ _ _ _ _ _ _ _ _ _) => {
        34
    };
    (_ _ _ _ _ _ _ _ _ _ _ _ _ _ _ _ _ _ _ _ _ _ _ _ _ _ _ _ _ _ _ _ _ _ _) => {
        35
    };
    (_ _ _ _ _ _ _ _ _ _ _ _ _ _ _ _ _ _ _ _ _ _ _ _ _ _ _ _ _ _ _ _ _ _ _ _) => {
        36
    };
    (_ _ _ _ _ _ _ _ _ _ _ _ _ _ _ _ _ _ _ _ _ _ _ _ _ _ _ _ _ _ _ _ _ _ _ _ _) => {
        37
    };
    (_ _ _ _ _ _ _ _ _ _ _ _ _ _ _ _ _ _ _ _ _ _ _ _ _ _ _ _ _ _ _ _ _ _ _ _ _ _) => {
        38
    };
    (_ _ _ _ _ _ _ _ _ _ _ _ _ _ _ _ _ _ _ _ _ _ _ _ _ _ _ _ _ _ _ _ _ _ _ _ _ _ _) => {
        39
    };
    (_ _ _ _ _ _ _ _ _ _ _ _ _ _ _ _ _ _ _ _ _ _ _ _ _ _ _ _ _ _ _ _ _ _ _ _ _ _ _ _) => {
        40
    };
    (_ _ _ _ _ _ _ _ _ _ _ _ _ _ _ _ _ _ _ _ _ _ _ _ _ _ _ _ _ _ _ _ _ _ _ _ _ _ _ _ _) => {
        41
    };
    (_ _ _ _ _ _ _ _ _ _ _ _ _ _ _ _ _ _ _ _ _ _ _ _ _ _ _ _ _ _ _ _ _ _ _ _ _ _ _ _ _ _) => {
        42
    };
    (_ _ _ _ _ _ _ _ _ _ _ _ _ _ _ _ _ _ _ _ _ _ _ _ _ _ _ _ _ _ _ _ _ _ _ _ _ _ _ _ _ _ _) => {
        43
    };
    (_ _ _ _ _ _ _ _ _ _ _ _ _ _ _ _ _ _ _ _ _ _ _ _ _ _ _ _ _ _ _ _ _ _ _ _ _ _ _ _ _ _ _ _) => {
        44
    };
    (_ _ _ _ _ _ _ _ _ _ _ _ _ _ _ _ _ _ _ _ _ _ _ _ _ _ _ _ _ _ _ _ _ _ _ _ _ _ _ _ _ _ _ _ _) => {
        45
    };
    (_ _ _ _ _ _ _ _ _ _ _ _ _ _ _ _ _ _ _ _ _ _ _ _ _ _ _ _ _ _ _ _ _ _ _ _ _ _ _ _ _ _ _ _ _ _) => {
        46
    };
    (_ _ _ _ _ _ _ _ _ _ _ _ _ _ _ _ _ _ _ _ _ _ _ _ _ _ _ _ _ _ _ _ _ _ _ _ _ _ _ _ _ _ _ _ _ _ _) => {
        47
    };
    (_ _ _ _ _ _ _ _ _ _ _ _ _ _ _ _ _ _ _ _ _ _ _ _ _ _ _ _ _ _ _ _ _ _ _ _ _ _ _ _ _ _ _ _ _ _ _ _) => {
        48
    };
    (_ _ _ _ _ _ _ _ _ _ _ _ _ _ _ _ _ _ _ _ _ _ _ _ _ _ _ _ _ _ _ _ _ _ _ _ _ _ _ _ _ _ _ _ _ _ _ _ _) => {
        49
    };
    (_ _ _ _ _ _ _ _ _ _ _ _ _ _ _ _ _ _ _ _ _ _ _ _ _ _ _ _ _ _ _ _ _ _ _ _ _ _ _ _ _ _ _ _ _ _ _ _ _ _) => {
        50
    };
    (_ _ _ _ _ _ _ _ _ _ _ _ _ _ _ _ _ _ _ _ _ _ _ _ _ _ _ _ _ _ _ _ _ _ _ _ _ _ _ _ _ _ _ _ _ _ _ _ _ _ _) => {
        51
    };
    (_ _ _ _ _ _ _ _ _ _ _ _ _ _ _ _ _ _ _ _ _ _ _ _ _ _ _ _ _ _ _ _ _ _ _ _ _ _ _ _ _ _ _ _ _ _ _ _ _ _ _ _) => {
        52
    };
    (_ _ _ _ _ _ _ _ _ _ _ _ _ _ _ _ _ _ _ _ _ _ _ _ _ _ _ _ _ _ _ _ _ _ _ _ _ _ _ _ _ _ _ _ _ _ _ _ _ _ _ _ _) => {
        53
    };
    (_ _ _ _ _ _ _ _ _ _ _ _ _ _ _ _ _ _ _ _ _ _ _ _ _ _ _ _ _ _ _ _ _ _ _ _ _ _ _ _ _ _ _ _ _ _ _ _ _ _ _ _ _ _) => {
        54
    };
    (_ _ _ _ _ _ _ _ _ _ _ _ _ _ _ _ _ _ _ _ _ _ _ _ _ _ _ _ _ _ _ _ _ _ _ _ _ _ _ _ _ _ _ _ _ _ _ _ _ _ _ _ _ _ _) => {
        55
    };
    (_ _ _ _ _ _ _ _ _ _ _ _ _ _ _ _ _ _ _ _ _ _ _ _ _ _ _ _ _ _ _ _ _ _ _ _ _ _ _ _ _ _ _ _ _ _ _ _ _ _ _ _ _ _ _ _) => {
        56
    };
    (_ _ _ _ _ _ _ _ _ _ _ _ _ _ _ _ _ _ _ _ _ _ _ _ _ _ _ _ _ _ _ _ _ _ _ _ _ _ _ _ _ _ _ _ _ _ _ _ _ _ _ _ _ _ _ _ _) => {
        57
    };
    (_ _ _ _ _ _ _ _ _ _ _ _ _ _ _ _ _ _ _ _ _ _ _ _ _ _ _ _ _ _ _ _ _ _ _ _ _ _ _ _ _ _ _ _ _ _ _ _ _ _ _ _ _ _ _ _ _ _) => {
        58
    };
    (_ _ _ _ _ _ _ _ _ _ _ _ _ _ _ _ _ _ _ _ _ _ _ _ _ _ _ _ _ _ _ _ _ _ _ _ _ _ _ _ _ _ _ _ _ _ _ _ _ _ _ _ _ _ _ _ _ _ _) => {
        59
    };
    (_ _ _ _ _ _ _ _ _ _ _ _ _ _ _ _ _ _ _ _ _ _ _ _ _ _ _ _ _ _ _ _ _ _ _ _ _ _ _ _ _ _ _ _ _ _ _ _ _ _ _ _ _ _ _ _ _ _ _ _) => {
        60
    };
    (_ _ _ _ _ _ _ _ _ _ _ _ _ _ _ _ _ _ _ _ _ _ _ _ _ _ _ _ _ _ _ _ _ _ _ _ _ _ _ _ _ _ _ _ _ _ _ _ _ _ _ _ _ _ _ _ _ _ _ _ _) => {
        61
    };
    (_ _ _ _ _ _ _ _ _ _ _ _ _ _ _ _ _ _ _ _ _ _ _ _ _ _ _ _ _ _ _ _ _ _ _ _ _ _ _ _ _ _ _ _ _ _ _ _ _ _ _ _ _ _ _ _ _ _ _ _ _ _) => {
        62
    };
    (_ _ _ _ _ _ _ _ _ _ _ _ _ _ _ _ _ _ _ _ _ _ _ _ _ _ _ _ _ _ _ _ _ _ _ _ _ _ _ _ _ _ _ _ _ _ _ _ _ _ _ _ _ _ _ _ _ _ _ _ _ _ _) => {
        63
    };
    (_ _ _ _ _ _ _ _ _ _ _ _ _ _ _ _ _ _ _ _ _ _ _ _ _ _ _ _ _ _ _ _ _ _ _ _ _ _ _ _ _ _ _ _ _ _ _ _ _ _ _ _ _ _ _ _ _ _ _ _ _ _ _ _) => {
        64
    };
}

#[macro_export]
#[doc(hidden)]
macro_rules! count_field {
    ($var:ident. ) => {
        $var.0
    };
    ($var:ident. _) => {
        $var.1
    };
    ($var:ident. _ _) => {
        $var.2
    };
    ($var:ident. _ _ _) => {
        $var.3
    };
    ($var:ident. _ _ _ _) => {
        $var.4
    };
    ($var:ident. _ _ _ _ _) => {
        $var.5
    };
    ($var:ident. _ _ _ _ _ _) => {
        $var.6
    };
    ($var:ident. _ _ _ _ _ _ _) => {
        $var.7
    };
    ($var:ident. _ _ _ _ _ _ _ _) => {
        $var.8
    };
    ($var:ident. _ _ _ _ _ _ _ _ _) => {
        $var.9
    };
    ($var:ident. _ _ _ _ _ _ _ _ _ _) => {
        $var.10
    };
    ($var:ident. _ _ _ _ _ _ _ _ _ _ _) => {
        $var.11
    };
    ($var:ident. _ _ _ _ _ _ _ _ _ _ _ _) => {
        $var.12
    };
    ($var:ident. _ _ _ _ _ _ _ _ _ _ _ _ _) => {
        $var.13
    };
    ($var:ident. _ _ _ _ _ _ _ _ _ _ _ _ _ _) => {
        $var.14
    };
    ($var:ident. _ _ _ _ _ _ _ _ _ _ _ _ _ _ _) => {
        $var.15
    };
    ($var:ident. _ _ _ _ _ _ _ _ _ _ _ _ _ _ _ _) => {
        $var.16
    };
    ($var:ident. _ _ _ _ _ _ _ _ _ _ _ _ _ _ _ _ _) => {
        $var.17
    };
    ($var:ident. _ _ _ _ _ _ _ _ _ _ _ _ _ _ _ _ _ _) => {
        $var.18
    };
    ($var:ident. _ _ _ _ _ _ _ _ _ _ _ _ _ _ _ _ _ _ _) => {
        $var.19
    };
    ($var:ident. _ _ _ _ _ _ _ _ _ _ _ _ _ _ _ _ _ _ _ _) => {
        $var.20
    };
    ($var:ident. _ _ _ _ _ _ _ _ _ _ _ _ _ _ _ _ _ _ _ _ _) => {
        $var.21
    };
    ($var:ident. _ _ _ _ _ _ _ _ _ _ _ _ _ _ _ _ _ _ _ _ _ _) => {
        $var.22
    };
    ($var:ident. _ _ _ _ _ _ _ _ _ _ _ _ _ _ _ _ _ _ _ _ _ _ _) => {
        $var.23
    };
    ($var:ident. _ _ _ _ _ _ _ _ _ _ _ _ _ _ _ _ _ _ _ _ _ _ _ _) => {
        $var.24
    };
    ($var:ident. _ _ _ _ _ _ _ _ _ _ _ _ _ _ _ _ _ _ _ _ _ _ _ _ _) => {
        $var.25
    };
    ($var:ident. _ _ _ _ _ _ _ _ _ _ _ _ _ _ _ _ _ _ _ _ _ _ _ _ _ _) => {
        $var.26
    };
    ($var:ident. _ _ _ _ _ _ _ _ _ _ _ _ _ _ _ _ _ _ _ _ _ _ _ _ _ _ _) => {
        $var.27
    };
    ($var:ident. _ _ _ _ _ _ _ _ _ _ _ _ _ _ _ _ _ _ _ _ _ _ _ _ _ _ _ _) => {
        $var.28
    };
    ($var:ident. _ _ _ _ _ _ _ _ _ _ _ _ _ _ _ _ _ _ _ _ _ _ _ _ _ _ _ _ _) => {
        $var.29
    };
    ($var:ident. _ _ _ _ _ _ _ _ _ _ _ _ _ _ _ _ _ _ _ _ _ _ _ _ _ _ _ _ _ _) => {
        $var.30
    };
    ($var:ident. _ _ _ _ _ _ _ _ _ _ _ _ _ _ _ _ _ _ _ _ _ _ _ _ _ _ _ _ _ _ _) => {
        $var.31
    };
    ($var:ident. _ _ _ _ _ _ _ _ _ _ _ _ _ _ _ _ _ _ _ _ _ _ _ _ _ _ _ _ _ _ _ _) => {
        $var.32
    };
    ($var:ident. _ _ _ _ _ _ _ _ _ _ _ _ _ _ _ _ _ _ _ _ _ _ _ _ _ _ _ _ _ _ _ _ _) => {
        $var.33
    };
    ($var:ident. _ _ _ _ _ _ _ _ _ _ _ _ _ _ _ _ _ _ _ _ _ _ _ _ _ _ _ _ _ _ _ _ _ _) => {
        $var.34
    };
    ($var:ident. _ _ _ _ _ _ _ _ _ _ _ _ _ _ _ _ _ _ _ _ _ _ _ _ _ _ _ _ _ _ _ _ _ _ _) => {
        $var.35
    };
    ($var:ident. _ _ _ _ _ _ _ _ _ _ _ _ _ _ _ _ _ _ _ _ _ _ _ _ _ _ _ _ _ _ _ _ _ _ _ _) => {
        $var.36
    };
    ($var:ident. _ _ _ _ _ _ _ _ _ _ _ _ _ _ _ _ _ _ _ _ _ _ _ _ _ _ _ _ _ _ _ _ _ _ _ _ _) => {
        $var.37
    };
    ($var:ident. _ _ _ _ _ _ _ _ _ _ _ _ _ _ _ _ _ _ _ _ _ _ _ _ _ _ _ _ _ _ _ _ _ _ _ _ _ _) => {
        $var.38
    };
    ($var:ident. _ _ _ _ _ _ _ _ _ _ _ _ _ _ _ _ _ _ _ _ _ _ _ _ _ _ _ _ _ _ _ _ _ _ _ _ _ _ _) => {
        $var.39
    };
    ($var:ident. _ _ _ _ _ _ _ _ _ _ _ _ _ _ _ _ _ _ _ _ _ _ _ _ _ _ _ _ _ _ _ _ _ _ _ _ _ _ _ _) => {
        $var.40
    };
    ($var:ident. _ _ _ _ _ _ _ _ _ _ _ _ _ _ _ _ _ _ _ _ _ _ _ _ _ _ _ _ _ _ _ _ _ _ _ _ _ _ _ _ _) => {
        $var.41
    };
    ($var:ident. _ _ _ _ _ _ _ _ _ _ _ _ _ _ _ _ _ _ _ _ _ _ _ _ _ _ _ _ _ _ _ _ _ _ _ _ _ _ _ _ _ _) => {
        $var.42
    };
    ($var:ident. _ _ _ _ _ _ _ _ _ _ _ _ _ _ _ _ _ _ _ _ _ _ _ _ _ _ _ _ _ _ _ _ _ _ _ _ _ _ _ _ _ _ _) => {
        $var.43
    };
    ($var:ident. _ _ _ _ _ _ _ _ _ _ _ _ _ _ _ _ _ _ _ _ _ _ _ _ _ _ _ _ _ _ _ _ _ _ _ _ _ _ _ _ _ _ _ _) => {
        $var.44
    };
    ($var:ident. _ _ _ _ _ _ _ _ _ _ _ _ _ _ _ _ _ _ _ _ _ _ _ _ _ _ _ _ _ _ _ _ _ _ _ _ _ _ _ _ _ _ _ _ _) => {
        $var.45
    };
    ($var:ident. _ _ _ _ _ _ _ _ _ _ _ _ _ _ _ _ _ _ _ _ _ _ _ _ _ _ _ _ _ _ _ _ _ _ _ _ _ _ _ _ _ _ _ _ _ _) => {
        $var.46
    };
    ($var:ident. _ _ _ _ _ _ _ _ _ _ _ _ _ _ _ _ _ _ _ _ _ _ _ _ _ _ _ _ _ _ _ _ _ _ _ _ _ _ _ _ _ _ _ _ _ _ _) => {
        $var.47
    };
    ($var:ident. _ _ _ _ _ _ _ _ _ _ _ _ _ _ _ _ _ _ _ _ _ _ _ _ _ _ _ _ _ _ _ _ _ _ _ _ _ _ _ _ _ _ _ _ _ _ _ _) => {
        $var.48
    };
    ($var:ident. _ _ _ _ _ _ _ _ _ _ _ _ _ _ _ _ _ _ _ _ _ _ _ _ _ _ _ _ _ _ _ _ _ _ _ _ _ _ _ _ _ _ _ _ _ _ _ _ _) => {
        $var.49
    };
    ($var:ident. _ _ _ _ _ _ _ _ _ _ _ _ _ _ _ _ _ _ _ _ _ _ _ _ _ _ _ _ _ _ _ _ _ _ _ _ _ _ _ _ _ _ _ _ _ _ _ _ _ _) => {
        $var.50
    };
    ($var:ident. _ _ _ _ _ _ _ _ _ _ _ _ _ _ _ _ _ _ _ _ _ _ _ _ _ _ _ _ _ _ _ _ _ _ _ _ _ _ _ _ _ _ _ _ _ _ _ _ _ _ _) => {
        $var.51
    };
    ($var:ident. _ _ _ _ _ _ _ _ _ _ _ _ _ _ _ _ _ _ _ _ _ _ _ _ _ _ _ _ _ _ _ _ _ _ _ _ _ _ _ _ _ _ _ _ _ _ _ _ _ _ _ _) => {
        $var.52
    };
    ($var:ident. _ _ _ _ _ _ _ _ _ _ _ _ _ _ _ _ _ _ _ _ _ _ _ _ _ _ _ _ _ _ _ _ _ _ _ _ _ _ _ _ _ _ _ _ _ _ _ _ _ _ _ _ _) => {
        $var.53
    };
    ($var:ident. _ _ _ _ _ _ _ _ _ _ _ _ _ _ _ _ _ _ _ _ _ _ _ _ _ _ _ _ _ _ _ _ _ _ _ _ _ _ _ _ _ _ _ _ _ _ _ _ _ _ _ _ _ _) => {
        $var.54
    };
    ($var:ident. _ _ _ _ _ _ _ _ _ _ _ _ _ _ _ _ _ _ _ _ _ _ _ _ _ _ _ _ _ _ _ _ _ _ _ _ _ _ _ _ _ _ _ _ _ _ _ _ _ _ _ _ _ _ _) => {
        $var.55
    };
    ($var:ident. _ _ _ _ _ _ _ _ _ _ _ _ _ _ _ _ _ _ _ _ _ _ _ _ _ _ _ _ _ _ _ _ _ _ _ _ _ _ _ _ _ _ _ _ _ _ _ _ _ _ _ _ _ _ _ _) => {
        $var.56
    };
    ($var:ident. _ _ _ _ _ _ _ _ _ _ _ _ _ _ _ _ _ _ _ _ _ _ _ _ _ _ _ _ _ _ _ _ _ _ _ _ _ _ _ _ _ _ _ _ _ _ _ _ _ _ _ _ _ _ _ _ _) => {
        $var.57
    };
    ($var:ident. _ _ _ _ _ _ _ _ _ _ _ _ _ _ _ _ _ _ _ _ _ _ _ _ _ _ _ _ _ _ _ _ _ _ _ _ _ _ _ _ _ _ _ _ _ _ _ _ _ _ _ _ _ _ _ _ _ _) => {
        $var.58
    };
    ($var:ident. _ _ _ _ _ _ _ _ _ _ _ _ _ _ _ _ _ _ _ _ _ _ _ _ _ _ _ _ _ _ _ _ _ _ _ _ _ _ _ _ _ _ _ _ _ _ _ _ _ _ _ _ _ _ _ _ _ _ _) => {
        $var.59
    };
    ($var:ident. _ _ _ _ _ _ _ _ _ _ _ _ _ _ _ _ _ _ _ _ _ _ _ _ _ _ _ _ _ _ _ _ _ _ _ _ _ _ _ _ _ _ _ _ _ _ _ _ _ _ _ _ _ _ _ _ _ _ _ _) => {
        $var.60
    };
    ($var:ident. _ _ _ _ _ _ _ _ _ _ _ _ _ _ _ _ _ _ _ _ _ _ _ _ _ _ _ _ _ _ _ _ _ _ _ _ _ _ _ _ _ _ _ _ _ _ _ _ _ _ _ _ _ _ _ _ _ _ _ _ _) => {
        $var.61
    };
    ($var:ident. _ _ _ _ _ _ _ _ _ _ _ _ _ _ _ _ _ _ _ _ _ _ _ _ _ _ _ _ _ _ _ _ _ _ _ _ _ _ _ _ _ _ _ _ _ _ _ _ _ _ _ _ _ _ _ _ _ _ _ _ _ _) => {
        $var.62
    };
    ($var:ident. _ _ _ _ _ _ _ _ _ _ _ _ _ _ _ _ _ _ _ _ _ _ _ _ _ _ _ _ _ _ _ _ _ _ _ _ _ _ _ _ _ _ _ _ _ _ _ _ _ _ _ _ _ _ _ _ _ _ _ _ _ _ _) => {
        $var.63
    };
    ($var:ident. _ _ _ _ _ _ _ _ _ _ _ _ _ _ _ _ _ _ _ _ _ _ _ _ _ _ _ _ _ _ _ _ _ _ _ _ _ _ _ _ _ _ _ _ _ _ _ _ _ _ _ _ _ _ _ _ _ _ _ _ _ _ _ _) => {
        $var.64
    };
}

#[macro_export]
#[doc(hidden)]
macro_rules! select_variant {
    ($($p:ident)::*, () $($t:tt)*) => {
        $($p)::*::_0 $($t)*
    };
    ($($p:ident)::*, (_) $($t:tt)*) => {
        $($p)::*::_1 $($t)*
    };
    ($($p:ident)::*, (_ _) $($t:tt)*) => {
        $($p)::*::_2 $($t)*
    };
    ($($p:ident)::*, (_ _ _) $($t:tt)*) => {
        $($p)::*::_3 $($t)*
    };
    ($($p:ident)::*, (_ _ _ _) $($t:tt)*) => {
        $($p)::*::_4 $($t)*
    };
    ($($p:ident)::*, (_ _ _ _ _) $($t:tt)*) => {
        $($p)::*::_5 $($t)*
    };
    ($($p:ident)::*, (_ _ _ _ _ _) $($t:tt)*) => {
        $($p)::*::_6 $($t)*
    };
    ($($p:ident)::*, (_ _ _ _ _ _ _) $($t:tt)*) => {
        $($p)::*::_7 $($t)*
    };
    ($($p:ident)::*, (_ _ _ _ _ _ _ _) $($t:tt)*) => {
        $($p)::*::_8 $($t)*
    };
    ($($p:ident)::*, (_ _ _ _ _ _ _ _ _) $($t:tt)*) => {
        $($p)::*::_9 $($t)*
    };
    ($($p:ident)::*, (_ _ _ _ _ _ _ _ _ _) $($t:tt)*) => {
        $($p)::*::_10 $($t)*
    };
    ($($p:ident)::*, (_ _ _ _ _ _ _ _ _ _ _) $($t:tt)*) => {
        $($p)::*::_11 $($t)*
    };
    ($($p:ident)::*, (_ _ _ _ _ _ _ _ _ _ _ _) $($t:tt)*) => {
        $($p)::*::_12 $($t)*
    };
    ($($p:ident)::*, (_ _ _ _ _ _ _ _ _ _ _ _ _) $($t:tt)*) => {
        $($p)::*::_13 $($t)*
    };
    ($($p:ident)::*, (_ _ _ _ _ _ _ _ _ _ _ _ _ _) $($t:tt)*) => {
        $($p)::*::_14 $($t)*
    };
    ($($p:ident)::*, (_ _ _ _ _ _ _ _ _ _ _ _ _ _ _) $($t:tt)*) => {
        $($p)::*::_15 $($t)*
    };
    ($($p:ident)::*, (_ _ _ _ _ _ _ _ _ _ _ _ _ _ _ _) $($t:tt)*) => {
        $($p)::*::_16 $($t)*
    };
    ($($p:ident)::*, (_ _ _ _ _ _ _ _ _ _ _ _ _ _ _ _ _) $($t:tt)*) => {
        $($p)::*::_17 $($t)*
    };
    ($($p:ident)::*, (_ _ _ _ _ _ _ _ _ _ _ _ _ _ _ _ _ _) $($t:tt)*) => {
        $($p)::*::_18 $($t)*
    };
    ($($p:ident)::*, (_ _ _ _ _ _ _ _ _ _ _ _ _ _ _ _ _ _ _) $($t:tt)*) => {
        $($p)::*::_19 $($t)*
    };
    ($($p:ident)::*, (_ _ _ _ _ _ _ _ _ _ _ _ _ _ _ _ _ _ _ _) $($t:tt)*) => {
        $($p)::*::_20 $($t)*
    };
    ($($p:ident)::*, (_ _ _ _ _ _ _ _ _ _ _ _ _ _ _ _ _ _ _ _ _) $($t:tt)*) => {
        $($p)::*::_21 $($t)*
    };
    ($($p:ident)::*, (_ _ _ _ _ _ _ _ _ _ _ _ _ _ _ _ _ _ _ _ _ _) $($t:tt)*) => {
        $($p)::*::_22 $($t)*
    };
    ($($p:ident)::*, (_ _ _ _ _ _ _ _ _ _ _ _ _ _ _ _ _ _ _ _ _ _ _) $($t:tt)*) => {
        $($p)::*::_23 $($t)*
    };
    ($($p:ident)::*, (_ _ _ _ _ _ _ _ _ _ _ _ _ _ _ _ _ _ _ _ _ _ _ _) $($t:tt)*) => {
        $($p)::*::_24 $($t)*
    };
    ($($p:ident)::*, (_ _ _ _ _ _ _ _ _ _ _ _ _ _ _ _ _ _ _ _ _ _ _ _ _) $($t:tt)*) => {
        $($p)::*::_25 $($t)*
    };
    ($($p:ident)::*, (_ _ _ _ _ _ _ _ _ _ _ _ _ _ _ _ _ _ _ _ _ _ _ _ _ _) $($t:tt)*) => {
        $($p)::*::_26 $($t)*
    };
    ($($p:ident)::*, (_ _ _ _ _ _ _ _ _ _ _ _ _ _ _ _ _ _ _ _ _ _ _ _ _ _ _) $($t:tt)*) => {
        $($p)::*::_27 $($t)*
    };
    ($($p:ident)::*, (_ _ _ _ _ _ _ _ _ _ _ _ _ _ _ _ _ _ _ _ _ _ _ _ _ _ _ _) $($t:tt)*) => {
        $($p)::*::_28 $($t)*
    };
    ($($p:ident)::*, (_ _ _ _ _ _ _ _ _ _ _ _ _ _ _ _ _ _ _ _ _ _ _ _ _ _ _ _ _) $($t:tt)*) => {
        $($p)::*::_29 $($t)*
    };
    ($($p:ident)::*, (_ _ _ _ _ _ _ _ _ _ _ _ _ _ _ _ _ _ _ _ _ _ _ _ _ _ _ _ _ _) $($t:tt)*) => {
        $($p)::*::_30 $($t)*
    };
    ($($p:ident)::*, (_ _ _ _ _ _ _ _ _ _ _ _ _ _ _ _ _ _ _ _ _ _ _ _ _ _ _ _ _ _ _) $($t:tt)*) => {
        $($p)::*::_31 $($t)*
    };
    ($($p:ident)::*, (_ _ _ _ _ _ _ _ _ _ _ _ _ _ _ _ _ _ _ _ _ _ _ _ _ _ _ _ _ _ _ _) $($t:tt)*) => {
        $($p)::*::_32 $($t)*
    };
    ($($p:ident)::*, (_ _ _ _ _ _ _ _ _ _ _ _ _ _ _ _ _ _ _ _ _ _ _ _ _ _ _ _ _ _ _ _ _) $($t:tt)*) => {
        $($p)::*::_33 $($t)*
    };
    ($($p:ident)::*, (_ _ _ _ _ _ _ _ _ _ _ _ _ _ _ _ _ _ _ _ _ _ _ _ _ _ _ _ _ _ _ _ _ _) $($t:tt)*) => {
        $($p)::*::_34 $($t)*
    };
    ($($p:ident)::*, (_ _ _ _ _ _ _ _ _ _ _ _ _ _ _ _ _ _ _ _ _ _ _ _ _ _ _ _ _ _ _ _ _ _ _) $($t:tt)*) => {
        $($p)::*::_35 $($t)*
    };
    ($($p:ident)::*, (_ _ _ _ _ _ _ _ _ _ _ _ _ _ _ _ _ _ _ _ _ _ _ _ _ _ _ _ _ _ _ _ _ _ _ _) $($t:tt)*) => {
        $($p)::*::_36 $($t)*
    };
    ($($p:ident)::*, (_ _ _ _ _ _ _ _ _ _ _ _ _ _ _ _ _ _ _ _ _ _ _ _ _ _ _ _ _ _ _ _ _ _ _ _ _) $($t:tt)*) => {
        $($p)::*::_37 $($t)*
    };
    ($($p:ident)::*, (_ _ _ _ _ _ _ _ _ _ _ _ _ _ _ _ _ _ _ _ _ _ _ _ _ _ _ _ _ _ _ _ _ _ _ _ _ _) $($t:tt)*) => {
        $($p)::*::_38 $($t)*
    };
    ($($p:ident)::*, (_ _ _ _ _ _ _ _ _ _ _ _ _ _ _ _ _ _ _ _ _ _ _ _ _ _ _ _ _ _ _ _ _ _ _ _ _ _ _) $($t:tt)*) => {
        $($p)::*::_39 $($t)*
    };
    ($($p:ident)::*, (_ _ _ _ _ _ _ _ _ _ _ _ _ _ _ _ _ _ _ _ _ _ _ _ _ _ _ _ _ _ _ _ _ _ _ _ _ _ _ _) $($t:tt)*) => {
        $($p)::*::_40 $($t)*
    };
    ($($p:ident)::*, (_ _ _ _ _ _ _ _ _ _ _ _ _ _ _ _ _ _ _ _ _ _ _ _ _ _ _ _ _ _ _ _ _ _ _ _ _ _ _ _ _) $($t:tt)*) => {
        $($p)::*::_41 $($t)*
    };
    ($($p:ident)::*, (_ _ _ _ _ _ _ _ _ _ _ _ _ _ _ _ _ _ _ _ _ _ _ _ _ _ _ _ _ _ _ _ _ _ _ _ _ _ _ _ _ _) $($t:tt)*) => {
        $($p)::*::_42 $($t)*
    };
    ($($p:ident)::*, (_ _ _ _ _ _ _ _ _ _ _ _ _ _ _ _ _ _ _ _ _ _ _ _ _ _ _ _ _ _ _ _ _ _ _ _ _ _ _ _ _ _ _) $($t:tt)*) => {
        $($p)::*::_43 $($t)*
    };
    ($($p:ident)::*, (_ _ _ _ _ _ _ _ _ _ _ _ _ _ _ _ _ _ _ _ _ _ _ _ _ _ _ _ _ _ _ _ _ _ _ _ _ _ _ _ _ _ _ _) $($t:tt)*) => {
        $($p)::*::_44 $($t)*
    };
    ($($p:ident)::*, (_ _ _ _ _ _ _ _ _ _ _ _ _ _ _ _ _ _ _ _ _ _ _ _ _ _ _ _ _ _ _ _ _ _ _ _ _ _ _ _ _ _ _ _ _) $($t:tt)*) => {
        $($p)::*::_45 $($t)*
    };
    ($($p:ident)::*, (_ _ _ _ _ _ _ _ _ _ _ _ _ _ _ _ _ _ _ _ _ _ _ _ _ _ _ _ _ _ _ _ _ _ _ _ _ _ _ _ _ _ _ _ _ _) $($t:tt)*) => {
        $($p)::*::_46 $($t)*
    };
    ($($p:ident)::*, (_ _ _ _ _ _ _ _ _ _ _ _ _ _ _ _ _ _ _ _ _ _ _ _ _ _ _ _ _ _ _ _ _ _ _ _ _ _ _ _ _ _ _ _ _ _ _) $($t:tt)*) => {
        $($p)::*::_47 $($t)*
    };
    ($($p:ident)::*, (_ _ _ _ _ _ _ _ _ _ _ _ _ _ _ _ _ _ _ _ _ _ _ _ _ _ _ _ _ _ _ _ _ _ _ _ _ _ _ _ _ _ _ _ _ _ _ _) $($t:tt)*) => {
        $($p)::*::_48 $($t)*
    };
    ($($p:ident)::*, (_ _ _ _ _ _ _ _ _ _ _ _ _ _ _ _ _ _ _ _ _ _ _ _ _ _ _ _ _ _ _ _ _ _ _ _ _ _ _ _ _ _ _ _ _ _ _ _ _) $($t:tt)*) => {
        $($p)::*::_49 $($t)*
    };
    ($($p:ident)::*, (_ _ _ _ _ _ _ _ _ _ _ _ _ _ _ _ _ _ _ _ _ _ _ _ _ _ _ _ _ _ _ _ _ _ _ _ _ _ _ _ _ _ _ _ _ _ _ _ _ _) $($t:tt)*) => {
        $($p)::*::_50 $($t)*
    };
    ($($p:ident)::*, (_ _ _ _ _ _ _ _ _ _ _ _ _ _ _ _ _ _ _ _ _ _ _ _ _ _ _ _ _ _ _ _ _ _ _ _ _ _ _ _ _ _ _ _ _ _ _ _ _ _ _) $($t:tt)*) => {
        $($p)::*::_51 $($t)*
    };
    ($($p:ident)::*, (_ _ _ _ _ _ _ _ _ _ _ _ _ _ _ _ _ _ _ _ _ _ _ _ _ _ _ _ _ _ _ _ _ _ _ _ _ _ _ _ _ _ _ _ _ _ _ _ _ _ _ _) $($t:tt)*) => {
        $($p)::*::_52 $($t)*
    };
    ($($p:ident)::*, (_ _ _ _ _ _ _ _ _ _ _ _ _ _ _ _ _ _ _ _ _ _ _ _ _ _ _ _ _ _ _ _ _ _ _ _ _ _ _ _ _ _ _ _ _ _ _ _ _ _ _ _ _) $($t:tt)*) => {
        $($p)::*::_53 $($t)*
    };
    ($($p:ident)::*, (_ _ _ _ _ _ _ _ _ _ _ _ _ _ _ _ _ _ _ _ _ _ _ _ _ _ _ _ _ _ _ _ _ _ _ _ _ _ _ _ _ _ _ _ _ _ _ _ _ _ _ _ _ _) $($t:tt)*) => {
        $($p)::*::_54 $($t)*
    };
    ($($p:ident)::*, (_ _ _ _ _ _ _ _ _ _ _ _ _ _ _ _ _ _ _ _ _ _ _ _ _ _ _ _ _ _ _ _ _ _ _ _ _ _ _ _ _ _ _ _ _ _ _ _ _ _ _ _ _ _ _) $($t:tt)*) => {
        $($p)::*::_55 $($t)*
    };
    ($($p:ident)::*, (_ _ _ _ _ _ _ _ _ _ _ _ _ _ _ _ _ _ _ _ _ _ _ _ _ _ _ _ _ _ _ _ _ _ _ _ _ _ _ _ _ _ _ _ _ _ _ _ _ _ _ _ _ _ _ _) $($t:tt)*) => {
        $($p)::*::_56 $($t)*
    };
    ($($p:ident)::*, (_ _ _ _ _ _ _ _ _ _ _ _ _ _ _ _ _ _ _ _ _ _ _ _ _ _ _ _ _ _ _ _ _ _ _ _ _ _ _ _ _ _ _ _ _ _ _ _ _ _ _ _ _ _ _ _ _) $($t:tt)*) => {
        $($p)::*::_57 $($t)*
    };
    ($($p:ident)::*, (_ _ _ _ _ _ _ _ _ _ _ _ _ _ _ _ _ _ _ _ _ _ _ _ _ _ _ _ _ _ _ _ _ _ _ _ _ _ _ _ _ _ _ _ _ _ _ _ _ _ _ _ _ _ _ _ _ _) $($t:tt)*) => {
        $($p)::*::_58 $($t)*
    };
    ($($p:ident)::*, (_ _ _ _ _ _ _ _ _ _ _ _ _ _ _ _ _ _ _ _ _ _ _ _ _ _ _ _ _ _ _ _ _ _ _ _ _ _ _ _ _ _ _ _ _ _ _ _ _ _ _ _ _ _ _ _ _ _ _) $($t:tt)*) => {
        $($p)::*::_59 $($t)*
    };
    ($($p:ident)::*, (_ _ _ _ _ _ _ _ _ _ _ _ _ _ _ _ _ _ _ _ _ _ _ _ _ _ _ _ _ _ _ _ _ _ _ _ _ _ _ _ _ _ _ _ _ _ _ _ _ _ _ _ _ _ _ _ _ _ _ _) $($t:tt)*) => {
        $($p)::*::_60 $($t)*
    };
    ($($p:ident)::*, (_ _ _ _ _ _ _ _ _ _ _ _ _ _ _ _ _ _ _ _ _ _ _ _ _ _ _ _ _ _ _ _ _ _ _ _ _ _ _ _ _ _ _ _ _ _ _ _ _ _ _ _ _ _ _ _ _ _ _ _ _) $($t:tt)*) => {
        $($p)::*::_61 $($t)*
    };
    ($($p:ident)::*, (_ _ _ _ _ _ _ _ _ _ _ _ _ _ _ _ _ _ _ _ _ _ _ _ _ _ _ _ _ _ _ _ _ _ _ _ _ _ _ _ _ _ _ _ _ _ _ _ _ _ _ _ _ _ _ _ _ _ _ _ _ _) $($t:tt)*) => {
        $($p)::*::_62 $($t)*
    };
    ($($p:ident)::*, (_ _ _ _ _ _ _ _ _ _ _ _ _ _ _ _ _ _ _ _ _ _ _ _ _ _ _ _ _ _ _ _ _ _ _ _ _ _ _ _ _ _ _ _ _ _ _ _ _ _ _ _ _ _ _ _ _ _ _ _ _ _ _) $($t:tt)*) => {
        $($p)::*::_63 $($t)*
    };
}
