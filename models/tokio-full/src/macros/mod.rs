#[macro_use]
mod select;

/// What the `select!` text refers to as `$crate::macros::support::*`.
#[doc(hidden)]
pub mod support {
    pub use std::future::{Future, IntoFuture};
    pub use std::pin::Pin;
    pub use std::task::Poll;

    pub use std::future::poll_fn;

    /// tokio: a thread-local xorshift value in 0..n. Model: any value in 0..n, chosen by the
    /// solver (every fairness-randomised branch order of `select!` is explored).
    pub fn thread_rng_n(n: u32) -> u32 {
        crate::verif::choose(n)
    }
}
