//! Signature-only stubs of `tokio::io` (stdin only; not modelled).
use std::future::Future;
use std::io;
use std::pin::Pin;
use std::task::{Context, Poll};

#[derive(Debug)]
pub struct Stdin(());
pub fn stdin() -> Stdin {
    Stdin(())
}
pub struct Read<'a> {
    _r: &'a mut Stdin,
    _b: &'a mut [u8],
}
impl Future for Read<'_> {
    type Output = io::Result<usize>;
    fn poll(self: Pin<&mut Self>, _cx: &mut Context<'_>) -> Poll<io::Result<usize>> {
        unimplemented!("tokio model: stdin is not modelled")
    }
}
pub trait AsyncReadExt {
    fn read<'a>(&'a mut self, buf: &'a mut [u8]) -> Read<'a>;
}
impl AsyncReadExt for Stdin {
    fn read<'a>(&'a mut self, buf: &'a mut [u8]) -> Read<'a> {
        Read { _r: self, _b: buf }
    }
}
