//! Model of `tokio::sync::mpsc` (bounded and unbounded) over a fixed ring buffer.
//! Contract kept: FIFO; `recv` yields `None` only when the queue is empty and every sender is
//! gone (or the receiver closed it); `send` fails iff the receiver is gone/closed; a bounded
//! `send` waits for capacity; `try_send` reports Full/Closed. tokio's cooperative-budget
//! yielding in `recv` is not modelled (it only adds spurious `Pending`s followed by a wake).
use std::sync::Arc;
use std::task::{Context, Poll, Waker};

use crate::verif::{self, Shared};

pub const RING: usize = 2; // tokio-full: 2 (4 in models/tokio) - every slot is a field of the heap object
const NO_WAKER: usize = usize::MAX;

struct Chan<T> {
    /// slots[head..head+len) (mod RING) are Some; raw writes/reads so that no drop glue of `T`
    /// is ever emitted for the ring itself
    slots: [Option<T>; RING],
    head: usize,
    len: usize,
    cap: usize, // RING for "unbounded"
    senders: usize,
    rx_alive: bool,
    rx_closed: bool,
    rx_waker: usize, // model waker id (see verif::waker_id)
    /// at most one sender may be parked on a full bounded channel (VERIF-BOUND otherwise)
    tx_waker: usize,
}
impl<T> Chan<T> {
    fn new(cap: usize) -> Self {
        Self {
            slots: [const { None }; RING],
            head: 0,
            len: 0,
            cap,
            senders: 1,
            rx_alive: true,
            rx_closed: false,
            rx_waker: NO_WAKER,
            tx_waker: NO_WAKER,
        }
    }
    fn push(&mut self, v: T) {
        assert!(self.len < RING, "VERIF-BOUND: channel ring of the tokio model is full");
        let i = (self.head + self.len) % RING;
        // the slot is None (ring invariant): overwrite without running drop glue on it
        unsafe { std::ptr::write(&mut self.slots[i], Some(v)) };
        self.len += 1;
        self.wake_rx();
    }
    fn pop(&mut self) -> Option<T> {
        if self.len == 0 {
            return None;
        }
        let v = unsafe { std::ptr::read(&self.slots[self.head]) };
        unsafe { std::ptr::write(&mut self.slots[self.head], None) };
        self.head = (self.head + 1) % RING;
        self.len -= 1;
        self.wake_txs();
        v
    }
    fn closed_for_send(&self) -> bool {
        !self.rx_alive || self.rx_closed
    }
    fn wake_rx(&mut self) {
        if self.rx_waker != NO_WAKER {
            verif::wake_id(self.rx_waker);
            self.rx_waker = NO_WAKER;
        }
    }
    fn wake_txs(&mut self) {
        if self.tx_waker != NO_WAKER {
            verif::wake_id(self.tx_waker);
            self.tx_waker = NO_WAKER;
        }
    }
    fn add_tx_waiter(&mut self, w: &Waker) {
        let id = verif::waker_id(w);
        assert!(self.tx_waker == NO_WAKER || self.tx_waker == id, "VERIF-BOUND: more than one sender parked on a full channel");
        self.tx_waker = id;
    }
}

pub mod error {
    use std::fmt;
    #[derive(PartialEq, Eq, Clone, Copy)]
    pub struct SendError<T>(pub T);
    impl<T> fmt::Debug for SendError<T> {
        fn fmt(&self, f: &mut fmt::Formatter<'_>) -> fmt::Result {
            f.write_str("SendError")
        }
    }
    impl<T> fmt::Display for SendError<T> {
        fn fmt(&self, f: &mut fmt::Formatter<'_>) -> fmt::Result {
            f.write_str("channel closed")
        }
    }
    impl<T> std::error::Error for SendError<T> {}

    #[derive(PartialEq, Eq, Clone, Copy)]
    pub enum TrySendError<T> {
        Full(T),
        Closed(T),
    }
    impl<T> fmt::Debug for TrySendError<T> {
        fn fmt(&self, f: &mut fmt::Formatter<'_>) -> fmt::Result {
            f.write_str(match self {
                Self::Full(_) => "Full(..)",
                Self::Closed(_) => "Closed(..)",
            })
        }
    }
    impl<T> fmt::Display for TrySendError<T> {
        fn fmt(&self, f: &mut fmt::Formatter<'_>) -> fmt::Result {
            f.write_str(match self {
                Self::Full(_) => "no available capacity",
                Self::Closed(_) => "channel closed",
            })
        }
    }
    impl<T> std::error::Error for TrySendError<T> {}

    #[derive(PartialEq, Eq, Clone, Copy, Debug)]
    pub enum TryRecvError {
        Empty,
        Disconnected,
    }
    impl fmt::Display for TryRecvError {
        fn fmt(&self, f: &mut fmt::Formatter<'_>) -> fmt::Result {
            f.write_str(match self {
                Self::Empty => "receiving on an empty channel",
                Self::Disconnected => "receiving on a closed channel",
            })
        }
    }
    impl std::error::Error for TryRecvError {}
}
use error::*;

// ------------------------------------------------------------------ shared halves

struct Tx<T>(Arc<Shared<Chan<T>>>);
impl<T> Tx<T> {
    fn chan(&self) -> &mut Chan<T> {
        self.0.get()
    }
}
impl<T> Clone for Tx<T> {
    fn clone(&self) -> Self {
        self.chan().senders += 1;
        Tx(self.0.clone())
    }
}
impl<T> Drop for Tx<T> {
    fn drop(&mut self) {
        let c = self.chan();
        c.senders -= 1;
        if c.senders == 0 {
            c.wake_rx();
        }
    }
}

struct Rx<T>(Arc<Shared<Chan<T>>>);
impl<T> Rx<T> {
    fn chan(&self) -> &mut Chan<T> {
        self.0.get()
    }
    fn poll_recv(&mut self, cx: &mut Context<'_>) -> Poll<Option<T>> {
        let c = self.chan();
        if let Some(v) = c.pop() {
            return Poll::Ready(Some(v));
        }
        if c.senders == 0 || c.rx_closed {
            return Poll::Ready(None);
        }
        c.rx_waker = verif::waker_id(cx.waker());
        Poll::Pending
    }
    fn try_recv(&mut self) -> Result<T, TryRecvError> {
        let c = self.chan();
        match c.pop() {
            Some(v) => Ok(v),
            None if c.senders == 0 || c.rx_closed => Err(TryRecvError::Disconnected),
            None => Err(TryRecvError::Empty),
        }
    }
    fn close(&mut self) {
        let c = self.chan();
        c.rx_closed = true;
        c.wake_txs();
    }
}
impl<T> Drop for Rx<T> {
    fn drop(&mut self) {
        let c = self.chan();
        c.rx_alive = false;
        c.rx_waker = NO_WAKER;
        // tokio drops the queued messages here; the model leaks them instead (their drop glue
        // is expensive to encode and has no effect any property observes)
        c.len = 0;
        c.wake_txs();
    }
}

// ------------------------------------------------------------------ unbounded

pub struct UnboundedSender<T>(Tx<T>);
pub struct UnboundedReceiver<T>(Rx<T>);
impl<T> std::fmt::Debug for UnboundedSender<T> {
    fn fmt(&self, f: &mut std::fmt::Formatter<'_>) -> std::fmt::Result {
        f.write_str("UnboundedSender")
    }
}
impl<T> std::fmt::Debug for UnboundedReceiver<T> {
    fn fmt(&self, f: &mut std::fmt::Formatter<'_>) -> std::fmt::Result {
        f.write_str("UnboundedReceiver")
    }
}
impl<T> Clone for UnboundedSender<T> {
    fn clone(&self) -> Self {
        Self(self.0.clone())
    }
}
pub fn unbounded_channel<T>() -> (UnboundedSender<T>, UnboundedReceiver<T>) {
    let c = Arc::new(Shared::new(Chan::new(RING)));
    (UnboundedSender(Tx(c.clone())), UnboundedReceiver(Rx(c)))
}
impl<T> UnboundedSender<T> {
    pub fn send(&self, v: T) -> Result<(), SendError<T>> {
        let c = self.0.chan();
        if c.closed_for_send() {
            return Err(SendError(v));
        }
        c.push(v);
        Ok(())
    }
    pub fn is_closed(&self) -> bool {
        self.0.chan().closed_for_send()
    }
}
impl<T> UnboundedReceiver<T> {
    pub async fn recv(&mut self) -> Option<T> {
        std::future::poll_fn(|cx| self.0.poll_recv(cx)).await
    }
    pub fn poll_recv(&mut self, cx: &mut Context<'_>) -> Poll<Option<T>> {
        self.0.poll_recv(cx)
    }
    pub fn try_recv(&mut self) -> Result<T, TryRecvError> {
        self.0.try_recv()
    }
    pub fn close(&mut self) {
        self.0.close()
    }
    pub fn is_empty(&self) -> bool {
        self.0.chan().len == 0
    }
    pub fn len(&self) -> usize {
        self.0.chan().len
    }
}

// ------------------------------------------------------------------ bounded

pub struct Sender<T>(Tx<T>);
pub struct Receiver<T>(Rx<T>);
impl<T> std::fmt::Debug for Sender<T> {
    fn fmt(&self, f: &mut std::fmt::Formatter<'_>) -> std::fmt::Result {
        f.write_str("Sender")
    }
}
impl<T> std::fmt::Debug for Receiver<T> {
    fn fmt(&self, f: &mut std::fmt::Formatter<'_>) -> std::fmt::Result {
        f.write_str("Receiver")
    }
}
impl<T> Clone for Sender<T> {
    fn clone(&self) -> Self {
        Self(self.0.clone())
    }
}
/// `buffer` beyond the model's ring (4) is clamped to the ring; exceeding the ring is reported
/// as a VERIF-BOUND failure (inconclusive), never silently dropped.
pub fn channel<T>(buffer: usize) -> (Sender<T>, Receiver<T>) {
    assert!(buffer > 0, "mpsc bounded channel requires buffer > 0");
    let cap = if buffer > RING { RING } else { buffer };
    let c = Arc::new(Shared::new(Chan::new(cap)));
    (Sender(Tx(c.clone())), Receiver(Rx(c)))
}
impl<T> Sender<T> {
    /// `async fn` in tokio; a named future here (same call syntax, one coroutine layer less).
    pub fn send(&self, v: T) -> SendFut<'_, T> {
        SendFut { tx: self, v: Some(v) }
    }
    pub fn try_send(&self, v: T) -> Result<(), TrySendError<T>> {
        let c = self.0.chan();
        if c.closed_for_send() {
            return Err(TrySendError::Closed(v));
        }
        if c.len >= c.cap {
            return Err(TrySendError::Full(v));
        }
        c.push(v);
        Ok(())
    }
    pub fn is_closed(&self) -> bool {
        self.0.chan().closed_for_send()
    }
    pub fn capacity(&self) -> usize {
        let c = self.0.chan();
        c.cap - c.len
    }
}
pub struct SendFut<'a, T> {
    tx: &'a Sender<T>,
    v: Option<T>,
}
impl<T> Unpin for SendFut<'_, T> {}
impl<T> std::future::Future for SendFut<'_, T> {
    type Output = Result<(), SendError<T>>;
    fn poll(mut self: std::pin::Pin<&mut Self>, cx: &mut Context<'_>) -> Poll<Self::Output> {
        let c = self.tx.0.chan();
        if c.closed_for_send() {
            return Poll::Ready(Err(SendError(self.v.take().expect("polled after completion"))));
        }
        if c.len < c.cap {
            c.push(self.v.take().expect("polled after completion"));
            return Poll::Ready(Ok(()));
        }
        c.add_tx_waiter(cx.waker());
        Poll::Pending
    }
}
pub struct RecvFut<'a, T>(&'a mut Receiver<T>);
impl<T> Unpin for RecvFut<'_, T> {}
impl<T> std::future::Future for RecvFut<'_, T> {
    type Output = Option<T>;
    fn poll(mut self: std::pin::Pin<&mut Self>, cx: &mut Context<'_>) -> Poll<Option<T>> {
        (self.0).0.poll_recv(cx)
    }
}
impl<T> Receiver<T> {
    /// `async fn` in tokio; a named future here (same call syntax, one coroutine layer less).
    pub fn recv(&mut self) -> RecvFut<'_, T> {
        RecvFut(self)
    }
    pub fn poll_recv(&mut self, cx: &mut Context<'_>) -> Poll<Option<T>> {
        self.0.poll_recv(cx)
    }
    pub fn try_recv(&mut self) -> Result<T, TryRecvError> {
        self.0.try_recv()
    }
    pub fn close(&mut self) {
        self.0.close()
    }
    pub fn is_empty(&self) -> bool {
        self.0.chan().len == 0
    }
    pub fn len(&self) -> usize {
        self.0.chan().len
    }
}
