//! Model of `tokio::sync::Notify`, following tokio's documented contract:
//!  * `notify_waiters()` wakes every `Notified` future that exists at that moment - a `Notified`
//!    is guaranteed to receive it from the moment it is *created* (tokio snapshots its
//!    `notify_waiters` call counter in `notified()`), polled/enabled or not - and stores no permit.
//!  * `notify_one()` wakes one enabled waiter, or stores a single permit if there is none.
use std::future::Future;
use std::pin::Pin;
use std::task::{Context, Poll, Waker};

use crate::verif::{self, Shared};

const NO_WAKER: usize = usize::MAX;

const MAX_WAITERS: usize = 2; // tokio-full: 2 (4 in models/tokio)

struct Inner {
    waiters_calls: usize,
    permit: bool,
    next_id: usize,
    /// enabled waiters: (id, waker)
    waiting: [Option<(usize, usize)>; MAX_WAITERS],
    /// ids handed a `notify_one` wake-up
    one_shot: [Option<usize>; MAX_WAITERS],
}

pub struct Notify {
    inner: Shared<Inner>,
}
impl std::fmt::Debug for Notify {
    fn fmt(&self, f: &mut std::fmt::Formatter<'_>) -> std::fmt::Result {
        f.write_str("Notify")
    }
}
impl Default for Notify {
    fn default() -> Self {
        Self::new()
    }
}

impl Notify {
    pub fn new() -> Self {
        Self {
            inner: Shared::new(Inner {
                waiters_calls: 0,
                permit: false,
                next_id: 0,
                waiting: [None; MAX_WAITERS],
                one_shot: [None; MAX_WAITERS],
            }),
        }
    }
    pub fn notified(&self) -> Notified<'_> {
        let i = self.inner.get();
        let id = i.next_id;
        i.next_id += 1;
        Notified { notify: self, id, snapshot: i.waiters_calls, enabled: false, done: false }
    }
    pub fn notify_waiters(&self) {
        let i = self.inner.get();
        i.waiters_calls = i.waiters_calls.wrapping_add(1);
        let mut k = 0;
        while k < MAX_WAITERS {
            if let Some((_, w)) = i.waiting[k].take() {
                if w != NO_WAKER {
                    verif::wake_id(w);
                }
            }
            k += 1;
        }
    }
    pub fn notify_one(&self) {
        let i = self.inner.get();
        let mut k = 0;
        while k < MAX_WAITERS {
            if let Some((id, w)) = i.waiting[k].take() {
                let mut j = 0;
                while j < MAX_WAITERS {
                    if i.one_shot[j].is_none() {
                        i.one_shot[j] = Some(id);
                        break;
                    }
                    j += 1;
                }
                if w != NO_WAKER {
                    verif::wake_id(w);
                }
                return;
            }
            k += 1;
        }
        i.permit = true;
    }
}

pub struct Notified<'a> {
    notify: &'a Notify,
    id: usize,
    snapshot: usize,
    enabled: bool,
    done: bool,
}
impl std::fmt::Debug for Notified<'_> {
    fn fmt(&self, f: &mut std::fmt::Formatter<'_>) -> std::fmt::Result {
        f.write_str("Notified")
    }
}

impl Notified<'_> {
    fn check(&mut self, waker: Option<&Waker>) -> bool {
        if self.done {
            return true;
        }
        let i = self.notify.inner.get();
        if i.waiters_calls != self.snapshot {
            self.done = true;
        } else {
            let mut j = 0;
            while j < MAX_WAITERS {
                if i.one_shot[j] == Some(self.id) {
                    i.one_shot[j] = None;
                    self.done = true;
                }
                j += 1;
            }
            if !self.done && !self.enabled && i.permit {
                i.permit = false;
                self.done = true;
            }
        }
        if self.done {
            self.unregister();
            return true;
        }
        // (re-)register
        let i = self.notify.inner.get();
        let mut free = MAX_WAITERS;
        let mut k = 0;
        while k < MAX_WAITERS {
            match &mut i.waiting[k] {
                Some((id, w)) if *id == self.id => {
                    if let Some(nw) = waker {
                        *w = verif::waker_id(nw);
                    }
                    self.enabled = true;
                    return false;
                }
                None if free == MAX_WAITERS => free = k,
                _ => {}
            }
            k += 1;
        }
        assert!(free < MAX_WAITERS, "VERIF-BOUND: waiter table of the Notify model is full");
        i.waiting[free] = Some((self.id, waker.map_or(NO_WAKER, verif::waker_id)));
        self.enabled = true;
        false
    }
    fn unregister(&mut self) {
        let i = self.notify.inner.get();
        let mut k = 0;
        while k < MAX_WAITERS {
            if matches!(&i.waiting[k], Some((id, _)) if *id == self.id) {
                i.waiting[k] = None;
            }
            k += 1;
        }
    }
    /// Adds this future to the list of waiters without polling it; returns true if it is
    /// already complete.
    pub fn enable(mut self: Pin<&mut Self>) -> bool {
        self.check(None)
    }
}
impl Future for Notified<'_> {
    type Output = ();
    fn poll(mut self: Pin<&mut Self>, cx: &mut Context<'_>) -> Poll<()> {
        if self.check(Some(cx.waker())) {
            Poll::Ready(())
        } else {
            Poll::Pending
        }
    }
}
impl Drop for Notified<'_> {
    fn drop(&mut self) {
        if self.enabled && !self.done {
            self.unregister();
        }
    }
}
