//! Signature-only stub of `tokio::sync::oneshot` (not modelled).
use std::future::Future;
use std::marker::PhantomData;
use std::pin::Pin;
use std::task::{Context, Poll};

pub mod error {
    #[derive(Debug, PartialEq, Eq, Clone)]
    pub struct RecvError(pub(super) ());
    impl std::fmt::Display for RecvError {
        fn fmt(&self, f: &mut std::fmt::Formatter<'_>) -> std::fmt::Result {
            f.write_str("channel closed")
        }
    }
    impl std::error::Error for RecvError {}
}
#[derive(Debug)]
pub struct Sender<T>(PhantomData<fn(T)>);
#[derive(Debug)]
pub struct Receiver<T>(PhantomData<fn() -> T>);
impl<T> Unpin for Receiver<T> {}
pub fn channel<T>() -> (Sender<T>, Receiver<T>) {
    (Sender(PhantomData), Receiver(PhantomData))
}
impl<T> Sender<T> {
    pub fn send(self, _v: T) -> Result<(), T> {
        unimplemented!("tokio model: oneshot is not modelled")
    }
    pub fn is_closed(&self) -> bool {
        unimplemented!("tokio model: oneshot is not modelled")
    }
}
impl<T> Receiver<T> {
    pub fn close(&mut self) {
        unimplemented!("tokio model: oneshot is not modelled")
    }
}
impl<T> Future for Receiver<T> {
    type Output = Result<T, error::RecvError>;
    fn poll(self: Pin<&mut Self>, _cx: &mut Context<'_>) -> Poll<Self::Output> {
        unimplemented!("tokio model: oneshot is not modelled")
    }
}
