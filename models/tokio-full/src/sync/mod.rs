pub mod mpsc;
mod notify;
pub use notify::{Notified, Notify};
pub mod oneshot;
