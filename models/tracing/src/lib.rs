//! No-op `tracing` shim. Macro arguments are not evaluated (the real macros do not evaluate
//! them either when the callsite is disabled).
#![allow(clippy::all)]

pub use tracing_attributes::instrument;

#[derive(Clone, Debug, Default)]
pub struct Span;
impl Span {
    pub fn none() -> Span {
        Span
    }
    pub fn current() -> Span {
        Span
    }
    pub fn enter(&self) -> Entered {
        Entered
    }
    pub fn entered(self) -> Entered {
        Entered
    }
    pub fn in_scope<F: FnOnce() -> T, T>(&self, f: F) -> T {
        f()
    }
    pub fn is_disabled(&self) -> bool {
        true
    }
}
pub struct Entered;

pub mod span {
    pub use super::{Entered, Span};
}

pub mod instrument {
    use std::future::Future;
    use std::pin::Pin;
    use std::task::{Context, Poll};

    pub struct Instrumented<T> {
        inner: T,
    }
    impl<T: Future> Future for Instrumented<T> {
        type Output = T::Output;
        fn poll(self: Pin<&mut Self>, cx: &mut Context<'_>) -> Poll<T::Output> {
            // structural pin projection of the only field
            unsafe { self.map_unchecked_mut(|s| &mut s.inner) }.poll(cx)
        }
    }
    impl<T> Instrumented<T> {
        pub fn into_inner(self) -> T {
            self.inner
        }
    }
    pub trait Instrument: Sized {
        fn instrument(self, _span: super::Span) -> Instrumented<Self> {
            Instrumented { inner: self }
        }
        fn in_current_span(self) -> Instrumented<Self> {
            Instrumented { inner: self }
        }
    }
    impl<T: Sized> Instrument for T {}
}
pub use instrument::Instrument;

#[derive(Clone, Copy, Debug, PartialEq, Eq, PartialOrd, Ord)]
pub struct Level(u8);
impl Level {
    pub const ERROR: Level = Level(1);
    pub const WARN: Level = Level(2);
    pub const INFO: Level = Level(3);
    pub const DEBUG: Level = Level(4);
    pub const TRACE: Level = Level(5);
}

#[macro_export]
macro_rules! trace { ($($t:tt)*) => {{}}; }
#[macro_export]
macro_rules! debug { ($($t:tt)*) => {{}}; }
#[macro_export]
macro_rules! info { ($($t:tt)*) => {{}}; }
#[macro_export]
macro_rules! warn { ($($t:tt)*) => {{}}; }
#[macro_export]
macro_rules! error { ($($t:tt)*) => {{}}; }
#[macro_export]
macro_rules! event { ($($t:tt)*) => {{}}; }
#[macro_export]
macro_rules! span { ($($t:tt)*) => { $crate::Span }; }
#[macro_export]
macro_rules! trace_span { ($($t:tt)*) => { $crate::Span }; }
#[macro_export]
macro_rules! debug_span { ($($t:tt)*) => { $crate::Span }; }
#[macro_export]
macro_rules! info_span { ($($t:tt)*) => { $crate::Span }; }
#[macro_export]
macro_rules! warn_span { ($($t:tt)*) => { $crate::Span }; }
#[macro_export]
macro_rules! error_span { ($($t:tt)*) => { $crate::Span }; }
#[macro_export]
macro_rules! enabled { ($($t:tt)*) => { false }; }
