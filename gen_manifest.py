#!/usr/bin/env python3
"""Regenerates MANIFEST.json from harness/registry.py + manifest_meta.py (keeps the two in step)."""
import json, os, sys
ROOT = os.path.dirname(os.path.abspath(__file__))
sys.path.insert(0, os.path.join(ROOT, "harness"))
import registry, manifest_meta as mm
checks = []
for pid in sorted(registry.PROPERTIES):
    p = registry.PROPERTIES[pid]
    meta = mm.CHECKS[pid]
    checks.append({
        "property_id": pid,
        "quick_cmd": f"./check {pid} --tier quick",
        "thorough_cmd": f"./check {pid} --tier thorough",
        "evidence_file": f"evidence/{pid}.json",
        "replay_cmd_template": f"./check {pid} --replay {{path}}",
        "engine": "kani",
        "level_claimed": {"category": "model_checking", "text": meta["text"], "design_ref": meta["design_ref"]},
        "level_note": meta["note"],
        "technique": meta.get("technique", "bounded symbolic execution of the compiled Rust code (Kani/CBMC), SAT-decided (CaDiCaL), counterexamples replayed natively"),
    })
claimed = set(registry.PROPERTIES)
na = [{"property_id": k, "reason": v} for k, v in sorted(mm.NOT_APPLICABLE.items()) if k not in claimed]
all_ids = [json.loads(l)["id"] for l in open(os.path.join(ROOT, "properties.jsonl"))]
missing = [i for i in all_ids if i not in claimed and i not in mm.NOT_APPLICABLE]
assert not missing, f"properties neither claimed nor not_applicable: {missing}"
m = {
    "version": 1,
    "setup_cmd": "./check --setup",
    "hooks": mm.HOOKS,
    "engines": [{"name": "kani", "path": "check", "serves_properties": sorted(claimed),
                 "kind_free_text": "Kani 0.68.0 (CBMC 6.11.0 + CaDiCaL): bounded symbolic execution of /repo's crates via harness crates under harness/, environment models under models/"}],
    "checks": checks,
    "notes": mm.NOTES,
    "not_applicable": na,
}
json.dump(m, open(os.path.join(ROOT, "MANIFEST.json"), "w"), indent=1)
print("MANIFEST.json:", len(checks), "checks,", len(na), "not applicable")
